// C36: graceful shutdown drains buffered traces and stops cleanly.
// Engine E3 with channel-aware scheduling: the REAL started collector (worker loops, sendTraces loop,
// monitor loop, decision-cache goroutines) and a REAL DirectTransmission (dispatcher loop) run as
// scheduled threads; a harness thread ingests a short span history, a clock thread advances the fake
// clock, and the shutdown sequence of cmd/refinery/main.go (collector.Stop, then transmission.Stop)
// is performed after ingestion returns. Every schedule up to the preemption bound = every cut point
// of the shutdown relative to the progress of every loop.
package main

import (
	"fmt"
	"os"
	"sort"
	"strings"
	"time"

	"github.com/honeycombio/refinery/collect"
	"github.com/honeycombio/refinery/config"

	"verif/engine/ev"
	"verif/engine/vsched"
	"verif/fix/e3node"
)

type spanSpec struct {
	Trace, ID string
	Root      bool
}

type scenario struct {
	Name  string
	Rate  int // deterministic sampler rate: 1 keeps every trace
	Spans []spanSpec
	Adv   []time.Duration // clock thread steps
}

func main() {
	r := ev.New("C36", "model_checking")
	bound := ev.Pick(r, 1, 2)
	if b := os.Getenv("C36_BOUND"); b != "" {
		fmt.Sscan(b, &bound)
	}
	e3node.SpawnAsThreads()
	vsched.DaemonSettle = 50
	vsched.SettleYields = 0
	scenarios := []scenario{
		{"one-root-no-clock", 1, []spanSpec{{"t1", "a", true}}, nil},
		{"child-then-root", 1, []spanSpec{{"t1", "a", false}, {"t1", "b", true}}, nil},
		{"two-traces-tick", 1, []spanSpec{{"t1", "a", true}, {"t2", "b", false}}, []time.Duration{100 * time.Millisecond}},
		{"root-then-deadline", 1, []spanSpec{{"t1", "a", true}}, []time.Duration{100 * time.Millisecond, 200 * time.Millisecond}},
		{"child-timeout", 1, []spanSpec{{"t1", "a", false}}, []time.Duration{time.Second, 100 * time.Millisecond}},
	}
	if r.Thorough() {
		scenarios = append(scenarios,
			scenario{"three-spans-two-ticks", 1, []spanSpec{{"t1", "a", false}, {"t2", "b", true}, {"t1", "c", true}}, []time.Duration{100 * time.Millisecond, 100 * time.Millisecond}})
	}
	r.Sharded(len(scenarios)+len(watcherScenarios)+1, func(si, sn int) {
		if si == len(scenarios)+len(watcherScenarios) {
			factoryShard(r)
			sequenceShard(r)
			reloadStopShard(r)
			return
		}
		if si >= len(scenarios) {
			watcherShard(r, bound+1, watcherScenarios[si-len(scenarios)])
			return
		}
		sc := scenarios[si]
		var n *e3node.Node
		var accepted []string
		var startErr, stopErr error
		e := &vsched.Explorer{AllDeviationsCost: true, Bound: bound, MaxExecs: ev.Pick(r, 60000, 2000000), Stop: func() bool { return r.Expired(sc.Name) }, Setup: func() {
			n = e3node.Build(e3node.Options{Sampler: &config.DeterministicSamplerConfig{SampleRate: sc.Rate}})
			accepted = accepted[:0]
			startErr, stopErr = nil, nil
			vsched.Go("main", func() {
				// startup order of main.go (startstop: dependencies first)
				if err := n.Start(); err != nil {
					startErr = err
					return
				}
				if len(sc.Adv) > 0 {
					vsched.Go("clock", func() {
						for _, d := range sc.Adv {
							n.Clk.Advance(d)
							vsched.Yield()
						}
					})
				}
				// the routers hand spans to the collector …
				for _, s := range sc.Spans {
					if err := n.Coll.AddSpan(e3node.Span(s.Trace, s.ID, s.Root)); err == nil {
						accepted = append(accepted, s.Trace+"/"+s.ID)
					}
				}
				// … and are stopped first (no more AddSpan); then the shutdown sequence, dependants first
				if err := n.Stop(); err != nil {
					stopErr = err
				}
			})
		}, Check: func(x *vsched.Exec) string {
			if startErr != nil || stopErr != nil {
				return fmt.Sprintf("start/stop error: %v %v", startErr, stopErr)
			}
			if x.Quiescent {
				return "goroutines-left-running: " + strings.Join(pending(x), ",")
			}
			got := n.Up.Got()
			want := append([]string{}, accepted...)
			sort.Strings(want)
			r.Distinct("distinct_outcomes", sc.Name+":"+strings.Join(got, ","))
			if sc.Rate != 1 {
				if len(got) > 0 {
					return fmt.Sprintf("dropped-trace-forwarded: upstream received %v", got)
				}
				return ""
			}
			acc := map[string]int{}
			for _, a := range want {
				acc[a]++
			}
			for _, g := range got {
				acc[g]--
				if acc[g] < 0 {
					return fmt.Sprintf("forwarded-unaccepted-or-duplicate: upstream received %v, accepted %v", got, want)
				}
			}
			var missing []string
			for a, c := range acc {
				if c > 0 {
					missing = append(missing, a)
				}
			}
			if len(missing) == 0 {
				return ""
			}
			sort.Strings(missing)
			queued, buffered := collect.VerifC36Leftovers(n.Coll)
			for _, m := range missing {
				tr := strings.SplitN(m, "/", 2)[0]
				switch {
				case contains(queued, m):
					r.Violation("lost-on-shutdown:span-still-queued-for-worker@collector.Stop",
						fmt.Sprintf("%s: span %s was accepted by AddSpan, still sat in the worker's input queue when Stop closed it, and was never processed or forwarded (upstream got %v)", sc.Name, m, got),
						map[string]any{"scenario": sc, "schedule": x.Choices})
				case contains(buffered, tr):
					r.Violation("lost-on-shutdown:trace-buffered-undecided@collector.Stop",
						fmt.Sprintf("%s: trace %s was still buffered when the collector stopped; no decision was made and its accepted span %s was never forwarded (upstream got %v)", sc.Name, tr, m, got),
						map[string]any{"scenario": sc, "schedule": x.Choices})
				default:
					return fmt.Sprintf("lost-on-shutdown:decided-or-in-flight-span-not-delivered: %s accepted, neither queued nor buffered at the end, but upstream received only %v", m, got)
				}
			}
			return ""
		}}
		ok := e.Explore()
		e.Report(r)
		r.Add("scenarios", 1)
		r.Sample(map[string]any{"scenario": sc.Name, "spans": sc.Spans, "clock": fmt.Sprint(sc.Adv), "executions": e.Stats.Executions, "max_points": e.Stats.MaxPoints})
		if !ok {
			sig := strings.SplitN(e.Failure, ":", 2)[0]
			r.Violation(sig, sc.Name+": "+e.Failure, map[string]any{"scenario": sc, "schedule": e.FailExec.Choices})
		}
	})
	r.Set("preemption_bound_completed", bound)
	r.Set("watcher_part_preemption_bound_completed", bound+1)
	r.Set("traces_validated_against_impl", r.Count("executions"))
	r.Assume("routers are stopped before the collector (startstop reverse dependency order), so no AddSpan overlaps collector.Stop")
	r.Assume("one collector worker; deterministic sampler rate 1 (every decided trace is kept) so 'decided and forwarded' is observable as arrival at the in-memory upstream")
	r.Finish()
}

func pending(x *vsched.Exec) []string { return x.Blocked }

func contains(l []string, s string) bool {
	for _, x := range l {
		if x == s {
			return true
		}
	}
	return false
}
