// C36: graceful shutdown drains buffered traces and stops cleanly.
// Engine E3 with channel-aware scheduling: the REAL started collector (worker loops, sendTraces loop,
// monitor loop, decision-cache goroutines) and a REAL DirectTransmission (dispatcher loop) run as
// scheduled threads; a harness thread ingests a short span history, a clock thread advances the fake
// clock, and the shutdown sequence of cmd/refinery/main.go (collector.Stop, then transmission.Stop)
// is performed after ingestion returns. Every schedule up to the preemption bound = every cut point
// of the shutdown relative to the progress of every loop.
package main

import (
	"bytes"
	"context"
	"fmt"
	"io"
	"net/http"
	"sort"
	"strings"
	"sync"
	"time"

	"github.com/honeycombio/refinery/collect"
	"github.com/honeycombio/refinery/config"
	"github.com/honeycombio/refinery/logger"
	"github.com/honeycombio/refinery/metrics"
	"github.com/honeycombio/refinery/pubsub"
	"github.com/honeycombio/refinery/sample"
	"github.com/honeycombio/refinery/sharder"
	"github.com/honeycombio/refinery/transmit"
	"github.com/honeycombio/refinery/types"
	peer "github.com/honeycombio/refinery/verifexport/peerx"
	"github.com/jonboulle/clockwork"
	"github.com/klauspost/compress/zstd"
	"github.com/vmihailenco/msgpack/v5"
	"go.opentelemetry.io/otel/trace/noop"

	"verif/engine/ev"
	"verif/engine/vsched"
	"verif/shim/vtime"
)

type nopHealth struct{}

func (nopHealth) Register(string, time.Duration) {}
func (nopHealth) Unregister(string)              {}
func (nopHealth) Ready(string, bool)             {}

// upstream is the in-memory Honeycomb: decodes what is finally serialised.
type upstream struct {
	mu  sync.Mutex
	got []string // "traceID/spanID"
}

var zdec, _ = zstd.NewReader(nil)

func (u *upstream) RoundTrip(r *http.Request) (*http.Response, error) {
	b, _ := io.ReadAll(r.Body)
	r.Body.Close()
	if r.Header.Get("Content-Encoding") == "zstd" {
		b, _ = zdec.DecodeAll(b, nil)
	}
	var evs []map[string]any
	if err := msgpack.Unmarshal(b, &evs); err != nil {
		return nil, err
	}
	var resp []string
	u.mu.Lock()
	for _, e := range evs {
		d, _ := e["data"].(map[string]any)
		u.got = append(u.got, fmt.Sprint(d["trace.trace_id"], "/", d["id"]))
		resp = append(resp, `{"status":202}`)
	}
	u.mu.Unlock()
	return &http.Response{StatusCode: 200, Header: http.Header{"Content-Type": []string{"application/json"}},
		Body: io.NopCloser(bytes.NewReader([]byte("[" + strings.Join(resp, ",") + "]")))}, nil
}

type node struct {
	clk  *clockwork.FakeClock
	coll *collect.InMemCollector
	tx   *transmit.DirectTransmission
	up   *upstream
	cfg  *config.MockConfig
}

func build(rate int) *node {
	clk := clockwork.NewFakeClockAt(time.Unix(1700000000, 0))
	vtime.Clock = clk
	cfg := &config.MockConfig{
		GetTracesConfigVal:     config.TracesConfig{SendTicker: config.Duration(100 * time.Millisecond), SendDelay: config.Duration(200 * time.Millisecond), TraceTimeout: config.Duration(time.Second), MaxBatchSize: 50, BatchTimeout: config.Duration(400 * time.Millisecond)},
		GetCollectionConfigVal: config.CollectionConfig{IncomingQueueSize: 16, PeerQueueSize: 16, WorkerCount: 1},
		GetSamplerTypeVal:      &config.DeterministicSamplerConfig{SampleRate: rate},
		TraceIdFieldNames:      []string{"trace.trace_id"},
		ParentIdFieldNames:     []string{"trace.parent_id"},
		SampleCache:            config.SampleCacheConfig{KeptSize: 100, DroppedSize: 1000, SizeCheckInterval: config.Duration(10 * time.Second)},
	}
	met := &metrics.NullMetrics{}
	up := &upstream{}
	tx := transmit.NewDirectTransmission(types.TransmitTypeUpstream, nil, 50, 400*time.Millisecond, time.Second, true, nil)
	tx.Clock, tx.Logger, tx.Metrics, tx.Config = clk, &logger.NullLogger{}, met, cfg
	ptx := &transmit.MockTransmission{}
	ptx.Start()
	sf := &sample.SamplerFactory{Config: cfg, Metrics: met, Logger: &logger.NullLogger{}}
	sf.Start()
	c := &collect.InMemCollector{
		Config: cfg, Clock: clk, Logger: &logger.NullLogger{}, Tracer: noop.NewTracerProvider().Tracer("verif"),
		Health: nopHealth{}, Transmission: tx, PeerTransmission: ptx, PubSub: &pubsub.LocalPubSub{Config: cfg, Metrics: met},
		Metrics: met, StressRelief: &collect.MockStressReliever{}, SamplerFactory: sf,
		Peers:   peer.NewMockPeers([]string{"api1"}, "api1"),
		Sharder: &sharder.MockSharder{Self: &sharder.TestShard{Addr: "api1"}},
	}
	return &node{clk, c, tx, up, cfg}
}

func span(trace, id string, root bool) *types.Span {
	d := map[string]any{"trace.trace_id": trace, "id": id}
	if !root {
		d["trace.parent_id"] = "p"
	}
	cfg := &config.MockConfig{TraceIdFieldNames: []string{"trace.trace_id"}, ParentIdFieldNames: []string{"trace.parent_id"}}
	return &types.Span{TraceID: trace, IsRoot: root, Event: &types.Event{Context: context.Background(), APIHost: "http://hny", APIKey: "key", Dataset: "ds",
		SampleRate: 1, Timestamp: time.Unix(1700000000, 0), Data: types.NewPayload(cfg, d)}}
}

type spanSpec struct {
	Trace, ID string
	Root      bool
}

type scenario struct {
	Name  string
	Rate  int // deterministic sampler rate: 1 keeps every trace
	Spans []spanSpec
	Adv   []time.Duration // clock thread steps
}

func main() {
	r := ev.New("C36", "model_checking")
	bound := ev.Pick(r, 1, 2)
	for _, p := range []string{"collect.go", "cuckooSentCache.go", "cuckoo.go", "direct_transmit.go"} {
		vsched.SpawnPolicy[p] = "thread"
	}
	vsched.DaemonSettle = 50
	vsched.SettleYields = 0
	scenarios := []scenario{
		{"one-root-no-clock", 1, []spanSpec{{"t1", "a", true}}, nil},
		{"child-then-root", 1, []spanSpec{{"t1", "a", false}, {"t1", "b", true}}, nil},
		{"two-traces-tick", 1, []spanSpec{{"t1", "a", true}, {"t2", "b", false}}, []time.Duration{100 * time.Millisecond}},
		{"root-then-deadline", 1, []spanSpec{{"t1", "a", true}}, []time.Duration{100 * time.Millisecond, 200 * time.Millisecond}},
		{"child-timeout", 1, []spanSpec{{"t1", "a", false}}, []time.Duration{time.Second, 100 * time.Millisecond}},
	}
	if r.Thorough() {
		scenarios = append(scenarios,
			scenario{"three-spans-two-ticks", 1, []spanSpec{{"t1", "a", false}, {"t2", "b", true}, {"t1", "c", true}}, []time.Duration{100 * time.Millisecond, 100 * time.Millisecond}})
	}
	r.Sharded(len(scenarios), func(si, sn int) {
		sc := scenarios[si]
		var n *node
		var accepted []string
		var startErr, stopErr error
		e := &vsched.Explorer{Bound: bound, MaxExecs: ev.Pick(r, 60000, 2000000), Stop: func() bool { return r.Expired(sc.Name) }, Setup: func() {
			n = build(sc.Rate)
			accepted = accepted[:0]
			startErr, stopErr = nil, nil
			vsched.Go("main", func() {
				// startup order of main.go (startstop: dependencies first)
				if err := n.tx.Start(); err != nil {
					startErr = err
					return
				}
				transmit.VerifC35SetRoundTripper(n.tx, n.up)
				if err := n.coll.Start(); err != nil {
					startErr = err
					return
				}
				if len(sc.Adv) > 0 {
					vsched.Go("clock", func() {
						for _, d := range sc.Adv {
							n.clk.Advance(d)
							vsched.Yield()
						}
					})
				}
				// the routers hand spans to the collector …
				for _, s := range sc.Spans {
					if err := n.coll.AddSpan(span(s.Trace, s.ID, s.Root)); err == nil {
						accepted = append(accepted, s.Trace+"/"+s.ID)
					}
				}
				// … and are stopped first (no more AddSpan); then the shutdown sequence, dependants first
				if err := n.coll.Stop(); err != nil {
					stopErr = err
				}
				if err := n.tx.Stop(); err != nil {
					stopErr = err
				}
			})
		}, Check: func(x *vsched.Exec) string {
			if startErr != nil || stopErr != nil {
				return fmt.Sprintf("start/stop error: %v %v", startErr, stopErr)
			}
			if x.Quiescent {
				return "goroutines-left-running: " + strings.Join(pending(x), ",")
			}
			n.up.mu.Lock()
			got := append([]string{}, n.up.got...)
			n.up.mu.Unlock()
			sort.Strings(got)
			want := append([]string{}, accepted...)
			sort.Strings(want)
			r.Distinct("distinct_outcomes", sc.Name+":"+strings.Join(got, ","))
			if sc.Rate != 1 {
				if len(got) > 0 {
					return fmt.Sprintf("dropped-trace-forwarded: upstream received %v", got)
				}
				return ""
			}
			acc := map[string]int{}
			for _, a := range want {
				acc[a]++
			}
			for _, g := range got {
				acc[g]--
				if acc[g] < 0 {
					return fmt.Sprintf("forwarded-unaccepted-or-duplicate: upstream received %v, accepted %v", got, want)
				}
			}
			var missing []string
			for a, c := range acc {
				if c > 0 {
					missing = append(missing, a)
				}
			}
			if len(missing) == 0 {
				return ""
			}
			sort.Strings(missing)
			queued, buffered := collect.VerifC36Leftovers(n.coll)
			for _, m := range missing {
				tr := strings.SplitN(m, "/", 2)[0]
				switch {
				case contains(queued, m):
					r.Violation("lost-on-shutdown:span-still-queued-for-worker@collector.Stop",
						fmt.Sprintf("%s: span %s was accepted by AddSpan, still sat in the worker's input queue when Stop closed it, and was never processed or forwarded (upstream got %v)", sc.Name, m, got),
						map[string]any{"scenario": sc, "schedule": x.Choices})
				case contains(buffered, tr):
					r.Violation("lost-on-shutdown:trace-buffered-undecided@collector.Stop",
						fmt.Sprintf("%s: trace %s was still buffered when the collector stopped; no decision was made and its accepted span %s was never forwarded (upstream got %v)", sc.Name, tr, m, got),
						map[string]any{"scenario": sc, "schedule": x.Choices})
				default:
					return fmt.Sprintf("lost-on-shutdown:decided-or-in-flight-span-not-delivered: %s accepted, neither queued nor buffered at the end, but upstream received only %v", m, got)
				}
			}
			return ""
		}}
		ok := e.Explore()
		e.Report(r)
		r.Add("scenarios", 1)
		r.Sample(map[string]any{"scenario": sc.Name, "spans": sc.Spans, "clock": fmt.Sprint(sc.Adv), "executions": e.Stats.Executions, "max_points": e.Stats.MaxPoints})
		if !ok {
			sig := strings.SplitN(e.Failure, ":", 2)[0]
			r.Violation(sig, sc.Name+": "+e.Failure, map[string]any{"scenario": sc, "schedule": e.FailExec.Choices})
		}
	})
	r.Set("preemption_bound_completed", bound)
	r.Set("traces_validated_against_impl", r.Count("executions"))
	r.Assume("routers are stopped before the collector (startstop reverse dependency order), so no AddSpan overlaps collector.Stop")
	r.Assume("one collector worker; deterministic sampler rate 1 (every decided trace is kept) so 'decided and forwarded' is observable as arrival at the in-memory upstream")
	r.Finish()
}

func pending(x *vsched.Exec) []string { return x.Blocked }

func contains(l []string, s string) bool {
	for _, x := range l {
		if x == s {
			return true
		}
	}
	return false
}
