// C36, part 3: the sampler factory in the shutdown sequence. cmd/refinery/main.go stops the SamplerFactory with the
// rest of the object graph (startstop); every dynsampler-go instance it created runs a goroutine on a ticker, and
// "exits without leaving background goroutines running" covers those too. Exhaustive product: sampler type ×
// {top-level, downstream of a rule} × life cycle {factory Stop with the samplers live; Stop after a configuration
// reload (ClearDynsamplers, re-creation); reload alone; two environments; the shutdown sequence as main performs it
// (startstop: Stop() error of the objects that have one)}. Oracle: a goroutine census read from the runtime — after
// the factory was stopped / the shutdown sequence ran no goroutine of dynsampler-go is left, and after a reload
// exactly the goroutines of the instances now registered are.
// Nothing is timed: a stopped goroutine ends within microseconds; the census is polled up to a 20 s harness horizon
// and a goroutine that is still there after that has not been told to stop at all.
package main

import (
	"fmt"
	"runtime"
	"strings"
	"time"

	"github.com/facebookgo/startstop"
	"github.com/honeycombio/refinery/config"
	"github.com/honeycombio/refinery/logger"
	"github.com/honeycombio/refinery/metrics"
	"github.com/honeycombio/refinery/sample"

	"verif/engine/ev"
)

func dynsamplerGoroutines() int {
	buf := make([]byte, 8<<20)
	buf = buf[:runtime.Stack(buf, true)]
	n := 0
	for _, g := range strings.Split(string(buf), "\n\n") {
		if strings.Contains(g, "honeycombio/dynsampler-go") {
			n++
		}
	}
	return n
}

// settle polls the census until it reads want or the horizon passes; returns the last reading.
func settle(want int) int { return settleFor(want, 20*time.Second) }

func settleFor(want int, horizon time.Duration) int {
	deadline := time.Now().Add(horizon)
	for {
		n := dynsamplerGoroutines()
		if n == want || time.Now().After(deadline) {
			return n
		}
		runtime.Gosched()
		time.Sleep(time.Millisecond)
	}
}

func stopDyn(d any) {
	defer func() { recover() }() // already stopped (close of a closed channel)
	switch s := d.(type) {
	case interface{ Stop() error }:
		s.Stop()
	case interface{ Stop() }:
		s.Stop()
	}
}

func factoryChoice(typ string, downstream bool) *config.V2SamplerChoice {
	fl := []string{"f"}
	var c config.V2SamplerChoice
	var d config.RulesBasedDownstreamSampler
	switch typ {
	case "dynamic":
		c.DynamicSampler = &config.DynamicSamplerConfig{SampleRate: 2, FieldList: fl}
		d.DynamicSampler = c.DynamicSampler
	case "emadynamic":
		c.EMADynamicSampler = &config.EMADynamicSamplerConfig{GoalSampleRate: 2, FieldList: fl}
		d.EMADynamicSampler = c.EMADynamicSampler
	case "emathroughput":
		c.EMAThroughputSampler = &config.EMAThroughputSamplerConfig{GoalThroughputPerSec: 10, FieldList: fl}
		d.EMAThroughputSampler = c.EMAThroughputSampler
	case "totalthroughput":
		c.TotalThroughputSampler = &config.TotalThroughputSamplerConfig{GoalThroughputPerSec: 10, FieldList: fl}
		d.TotalThroughputSampler = c.TotalThroughputSampler
	case "windowedthroughput":
		c.WindowedThroughputSampler = &config.WindowedThroughputSamplerConfig{GoalThroughputPerSec: 10, FieldList: fl}
		d.WindowedThroughputSampler = c.WindowedThroughputSampler
	}
	if !downstream {
		return &c
	}
	return &config.V2SamplerChoice{RulesBasedSampler: &config.RulesBasedSamplerConfig{Rules: []*config.RulesBasedSamplerRule{{Name: "r", Sampler: &d}}}}
}

func factoryShard(r *ev.Run) {
	types := []string{"dynamic", "emadynamic", "emathroughput", "totalthroughput", "windowedthroughput"}
	cycles := []string{"create,stop", "create,reload,create,stop", "create,reload", "create,create-other-env,stop", "create,shutdown"}
	if n := dynsamplerGoroutines(); n != 0 {
		ev.Harness("C36 factory part: %d dynsampler goroutines before anything was created", n)
	}
	n := 0
	reported := map[string]bool{}
	for _, typ := range types {
		for _, down := range []bool{false, true} {
			for _, cyc := range cycles {
				n++
				cfg := &config.MockConfig{Samplers: map[string]*config.V2SamplerChoice{"env-a": factoryChoice(typ, down), "env-b": factoryChoice(typ, down),
					"__default__": {DeterministicSampler: &config.DeterministicSamplerConfig{SampleRate: 1}}}}
				f := &sample.SamplerFactory{Config: cfg, Logger: &logger.NullLogger{}, Metrics: &metrics.NullMetrics{}}
				if err := f.Start(); err != nil {
					ev.Harness("factory start: %v", err)
				}
				place := map[bool]string{false: "top-level", true: "downstream-of-a-rule"}[down]
				live, stopped, viaStartstop := 0, false, false
				var steps []string
				var made []any // every dynsampler-go instance the factory registered during this case (harness clean-up only)
				remember := func() {
					_, dyns, _, _ := sample.VerifC33Shared(f)
					made = append(made, dyns...)
				}
				cleanUp := func() {
					for _, d := range made {
						stopDyn(d)
					}
				}
				for _, op := range strings.Split(cyc, ",") {
					steps = append(steps, op)
					switch op {
					case "create":
						if f.GetSamplerImplementationForKey("env-a") == nil {
							ev.Harness("no sampler for env-a")
						}
						live = 1
					case "create-other-env":
						// same definition, other environment: a second registered instance
						if f.GetSamplerImplementationForKey("env-b") == nil {
							ev.Harness("no sampler for env-b")
						}
						live = 2
					case "reload":
						f.ClearDynsamplers() // what InMemCollector.reloadConfigs does; the workers then drop their samplers
						live = 0
					case "stop":
						// the factory's own clean-up ("Stop cleans up all shared dynsamplers"), called directly
						switch st := any(f).(type) {
						case interface{ Stop() error }:
							st.Stop()
						case interface{ Stop() }:
							st.Stop()
						}
						live, stopped = 0, true
					case "shutdown":
						// what cmd/refinery/main.go does: startstop.Stop over the object graph, which calls Stop on
						// the objects that implement startstop.Stopper (Stop() error) and on no others
						if st, ok := any(f).(startstop.Stopper); ok {
							st.Stop()
						}
						live, stopped, viaStartstop = 0, true, true
					}
					if op == "create" || op == "create-other-env" {
						remember()
						if got := settle(live); got != live {
							ev.Harness("C36 factory part: %s %s after %v: %d dynsampler goroutines, the harness expects %d (one per registered instance)", typ, place, steps, got, live)
						}
						continue
					}
					what := "a configuration reload (ClearDynsamplers)"
					sig := "factory:dynsampler-goroutines-left-running-after-reload"
					if stopped {
						what, sig = "SamplerFactory.Stop", "factory:dynsampler-goroutines-left-running-after-factory-stop"
					}
					if viaStartstop {
						what, sig = "the shutdown sequence (startstop.Stop, which calls Stop() error of the objects that have it)", "factory:dynsampler-goroutines-left-running-after-shutdown"
					}
					horizon := 20 * time.Second
					if reported[sig] {
						horizon = 500 * time.Millisecond // this signature is established; later cases only add to the count
					}
					if got := settleFor(live, horizon); got != live {
						reported[sig] = true
						r.Violation(sig, fmt.Sprintf("%s sampler, %s, life cycle %v: after %s %d goroutine(s) of dynsampler-go are still running on their tickers (census of the runtime's goroutine dump, polled for 20 s); %d instance(s) are registered", typ, place, steps, what, got, live),
							map[string]any{"scenario": "factory", "type": typ, "placement": place, "steps": steps})
						break
					}
				}
				// stop whatever is left ourselves so that the next case starts from an empty census
				cleanUp()
				if got := settle(0); got != 0 {
					ev.Harness("C36 factory part: could not clear the census after %s %s %s (%d left)", typ, place, cyc, got)
				}
				r.Distinct("distinct_outcomes", fmt.Sprintf("factory:%s:%s:%s", typ, place, cyc))
			}
		}
	}
	r.Add("factory_life_cycles", int64(n))
	r.Add("executions", int64(n))
	r.Add("transitions", int64(n))
	r.Add("states", int64(n))
	r.Add("scenarios", 1)
}
