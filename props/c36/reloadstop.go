// C36, part 5: shutdown after live reloads. A running Refinery that is asked to stop has usually been through
// configuration reloads, and the collector's reload path rebuilds parts of its workers (sent-trace cache sizes and
// size-check interval, samplers). Exhaustive product: which SampleCache settings the reload changes (every subset of
// {KeptSize, DroppedSize, SizeCheckInterval}, including none) × one or two reloads × a trace buffered or not, on the
// real started collector (fix/collector loop mode: real worker, sendTraces, monitor and cache goroutines, reloads
// through Config.Reload -> reloadConfigs -> each worker's reload case). Oracle: InMemCollector.Stop returns without
// panicking, and afterwards no goroutine of packages collect / collect/cache is left (census of the runtime's
// goroutine dump, polled to a harness horizon).
package main

import (
	"fmt"
	"runtime"
	"strings"
	"time"

	"github.com/honeycombio/refinery/config"

	"verif/engine/ev"
	"verif/fix/collector"
)

func collectGoroutines() []string {
	buf := make([]byte, 16<<20)
	buf = buf[:runtime.Stack(buf, true)]
	var out []string
	for _, g := range strings.Split(string(buf), "\n\n") {
		if strings.Contains(g, "refinery/collect.") || strings.Contains(g, "refinery/collect/cache.") {
			if strings.Contains(g, "main.reloadStopShard") {
				continue // the harness goroutine itself, while it is inside a call
			}
			lines := strings.Split(g, "\n")
			fn := "?"
			for _, l := range lines[1:] {
				if strings.Contains(l, "refinery/collect") && !strings.HasPrefix(l, "\t") {
					fn = strings.TrimPrefix(l[:strings.LastIndex(l+"(", "(")], "github.com/honeycombio/refinery/")
					break
				}
			}
			out = append(out, fn)
		}
	}
	return out
}

func reloadStopShard(r *ev.Run) {
	n := 0
	for mask := 0; mask < 8; mask++ {
		for reloads := 1; reloads <= 2; reloads++ {
			for buffered := 0; buffered <= 1; buffered++ {
				n++
				if g := collectGoroutines(); len(g) != 0 {
					ev.Harness("C36 reload-stop part: collector goroutines before the case starts: %v", g)
				}
				f := collector.New(collector.Options{Loop: true, Workers: 2, Traces: config.TracesConfig{SendDelay: config.Duration(time.Hour), TraceTimeout: config.Duration(time.Hour)}})
				var changed []string
				for i := 1; i <= reloads; i++ {
					i := i
					f.ReloadLoop(func(mc *config.MockConfig) {
						if mask&1 != 0 {
							mc.SampleCache.KeptSize += uint(100 * i)
						}
						if mask&2 != 0 {
							mc.SampleCache.DroppedSize += uint(1000 * i)
						}
						if mask&4 != 0 {
							mc.SampleCache.SizeCheckInterval = config.Duration(time.Duration(5+i) * time.Second)
						}
					})
				}
				for b, name := range []string{"KeptSize", "DroppedSize", "SizeCheckInterval"} {
					if mask&(1<<b) != 0 {
						changed = append(changed, name)
					}
				}
				if buffered == 1 {
					f.AddSpan(f.MakeSpan(collector.SpanSpec{TraceID: "t-buffered", Kind: collector.Child}))
					f.QuiesceAll()
				}
				desc := fmt.Sprintf("%d reload(s) changing SampleCache %v, %d trace(s) buffered", reloads, changed, buffered)
				var panicked any
				var site string
				func() {
					defer func() {
						if p := recover(); p != nil {
							panicked = p
							site, _ = ev.PanicSite()
						}
					}()
					f.Coll.Stop()
				}()
				if panicked != nil {
					r.Violation("reload-then-stop:panic-at-shutdown",
						fmt.Sprintf("%s: InMemCollector.Stop panicked: %v (at %s); the shutdown sequence ends here, the transmissions are never flushed", desc, panicked, site),
						map[string]any{"scenario": "reload-then-stop", "reloads": reloads, "changed": changed, "buffered": buffered})
					// the collector is half stopped; its goroutines cannot be collected any more: end this shard's part
					r.Add("reload_stop_cases", int64(n))
					return
				}
				f.Factory.Stop()
				deadline := time.Now().Add(20 * time.Second)
				var left []string
				for {
					left = collectGoroutines()
					if len(left) == 0 || time.Now().After(deadline) {
						break
					}
					time.Sleep(time.Millisecond)
				}
				r.Distinct("distinct_outcomes", fmt.Sprintf("reload-stop:%d:%d:%d:%d", mask, reloads, buffered, len(left)))
				if len(left) != 0 {
					r.Violation("reload-then-stop:collector-goroutines-left-running",
						fmt.Sprintf("%s: after InMemCollector.Stop returned these goroutines of the collector are still running (polled for 20 s): %v", desc, left),
						map[string]any{"scenario": "reload-then-stop", "reloads": reloads, "changed": changed, "buffered": buffered})
					r.Add("reload_stop_cases", int64(n))
					return
				}
			}
		}
	}
	r.Add("reload_stop_cases", int64(n))
	r.Add("executions", int64(n))
	r.Add("transitions", int64(n))
	r.Add("states", int64(n))
}
