// C36, part 4: the shutdown sequence itself. cmd/refinery/main.go hands its object graph to facebookgo/startstop,
// which stops the components dependants first and gives up at the first Stop that returns an error. Here the REAL
// startstop.Stop runs over the real routers (both listeners, started by LnS on an address that cannot be bound: a
// listener that failed at start-up is a state a running Refinery can be in) followed by the real upstream and peer
// transmissions, in main's order, on a fix/pipeline node. Exhaustive product over what is pending when the shutdown
// is requested: {nothing, an event for Honeycomb, a span owned by a peer, both} × ingestion listener × encoding.
// Oracle: when the sequence has run, every event Refinery accepted is on the wire (the transmissions' Stop is what
// flushes pending batches, so it must have been reached whatever the routers' Stop returned).
package main

import (
	"fmt"
	"sort"
	"time"

	"github.com/facebookgo/inject"
	"github.com/facebookgo/startstop"

	"verif/engine/ev"
	"verif/fix/codec"
	"verif/fix/pipeline"
)

func sequenceShard(r *ev.Run) {
	const key = "0123456789abcdef0123456789abcdef" // classic key: no environment lookup
	instant := time.Date(2031, 7, 9, 23, 59, 58, 0, time.UTC)
	pendings := []string{"nothing", "event-for-honeycomb", "span-owned-by-a-peer", "both"}
	cts := []string{codec.CTJSON, codec.CTMsgpack}
	n := 0
	for _, pend := range pendings {
		for _, l := range []pipeline.Listener{pipeline.Incoming, pipeline.Peer} {
			for _, ct := range cts {
				n++
				node := pipeline.New(pipeline.Options{})
				peerTrace := node.TraceIDs(node.Peers[0], 1, "c36-seq-")[0]
				mk := func(marker string, extra ...codec.Field) codec.Event {
					e := codec.Event{TimeText: instant.Format(time.RFC3339Nano), SampleRate: 1, Data: append([]codec.Field{codec.F("marker", codec.Str(marker))}, extra...)}
					if ct == codec.CTMsgpack {
						tv := codec.Time(instant, 0)
						e.TimeVal = &tv
					}
					return e
				}
				var evs []codec.Event
				var want []string
				if pend == "event-for-honeycomb" || pend == "both" {
					evs = append(evs, mk("for-honeycomb"))
					want = append(want, "upstream:for-honeycomb")
				}
				if (pend == "span-owned-by-a-peer" || pend == "both") && l == pipeline.Incoming {
					// (on the peer listener a span is never forwarded again: it goes to the collector)
					evs = append(evs, mk("for-peer", codec.F("trace.trace_id", codec.Str(peerTrace)), codec.F("trace.parent_id", codec.Str("p"))))
					want = append(want, "peer:for-peer")
				}
				if len(evs) > 0 {
					resp := node.Do(l, codec.Batch("c36ds", key, ct, evs...))
					if resp.Status != 200 {
						ev.Harness("C36 sequence part: batch refused: %d %s", resp.Status, resp.Body)
					}
					for _, st := range resp.BatchStatuses() {
						if st != 202 {
							ev.Harness("C36 sequence part: event not accepted: %v", resp.BatchStatuses())
						}
					}
				}
				if got := len(node.Sent()); got != 0 {
					ev.Harness("C36 sequence part: %d events left before the shutdown (the batch timer is on the fake clock)", got)
				}
				// main's order: dependants first — the routers use the transmissions
				objects := []*inject.Object{
					{Value: node.Routers[pipeline.Incoming], Complete: true, Name: "router-incoming"},
					{Value: node.Routers[pipeline.Peer], Complete: true, Name: "router-peer"},
					{Value: node.UpTx.Direct(), Complete: true, Name: "upstream-transmission"},
					{Value: node.PeerTx.Direct(), Complete: true, Name: "peer-transmission"},
				}
				serr := startstop.Stop(objects, nil)
				var got []string
				for _, s := range node.Sent() {
					m := "?"
					if v, ok := s.Event.Field("marker"); ok && v.Kind == codec.KStr {
						m = v.S
					}
					got = append(got, s.Dest+":"+m)
				}
				sort.Strings(got)
				sort.Strings(want)
				r.Distinct("distinct_outcomes", fmt.Sprintf("sequence:%s:%v:%s:%v", pend, l, ct, got))
				if fmt.Sprint(got) != fmt.Sprint(want) {
					r.Violation("shutdown-sequence:pending-batch-not-flushed",
						fmt.Sprintf("pending at shutdown: %s (accepted through the %v listener, %s); after startstop.Stop over [router-incoming router-peer upstream-transmission peer-transmission] (returned %v) the wire carries %v, accepted were %v: the sequence did not reach the Stop that flushes the pending batch", pend, l, ct, serr, got, want),
						map[string]any{"scenario": "shutdown-sequence", "pending": pend, "listener": fmt.Sprint(l), "content_type": ct})
				}
			}
		}
	}
	r.Add("shutdown_sequences", int64(n))
	r.Add("executions", int64(n))
	r.Add("transitions", int64(n))
	r.Add("states", int64(n))
}
