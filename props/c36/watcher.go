// C36, part 2: the configuration watcher is one of the components the shutdown sequence stops (after the collector,
// before pubsub and the transmissions: startstop order of cmd/refinery/main.go). Its Stop must return and its
// monitor goroutine and listener goroutines must end, wherever the shutdown request lands relative to the periodic
// reload: before the monitor goroutine first runs, while it is parked, while it is inside Config.Reload and the
// reload callbacks (which publish, which starts the subscription listener, which reloads again).
// Engine E3: sync, channel and time operations of internal/configwatcher, pubsub and config are scheduling points;
// the go statements of the watcher and of LocalPubSub.Publish are scheduled threads.
package main

import (
	"fmt"
	"strings"
	"time"

	"github.com/honeycombio/refinery/config"
	"github.com/honeycombio/refinery/logger"
	cwbridge "github.com/honeycombio/refinery/verifbridge/configwatcher"
	"github.com/jonboulle/clockwork"

	"verif/engine/ev"
	"verif/engine/vsched"
	"verif/shim/vtime"
)

type watcherScenario struct {
	Name string
	Adv  []time.Duration // clock thread steps after Start (reload interval 10 s, jittered +/-10%)
}

var watcherScenarios = []watcherScenario{
	{"watcher:start-stop", nil},
	{"watcher:tick-then-stop", []time.Duration{25 * time.Second}},
	{"watcher:two-ticks-then-stop", []time.Duration{25 * time.Second, 25 * time.Second}},
}

func watcherShard(r *ev.Run, bound int, sc watcherScenario) {
	{
		var startErr error
		var reloads int
		e := &vsched.Explorer{AllDeviationsCost: true, Bound: bound, MaxExecs: ev.Pick(r, 60000, 2000000), Stop: func() bool { return r.Expired(sc.Name) }, Setup: func() {
			clk := clockwork.NewFakeClockAt(time.Date(2024, 1, 1, 0, 0, 0, 0, time.UTC))
			vtime.Clock = clk
			startErr, reloads = nil, 0
			cfg := &config.MockConfig{GetGeneralConfigVal: config.GeneralConfig{ConfigReloadInterval: config.Duration(10 * time.Second)}}
			// the other components' reload callbacks: here only a counter
			cfg.RegisterReloadCallback(func(string, string) { reloads++ })
			vsched.Go("main", func() {
				stop, err := cwbridge.VerifStartedWatcher(cfg, &logger.NullLogger{})
				if err != nil {
					startErr = err
					return
				}
				if len(sc.Adv) > 0 {
					vsched.Go("clock", func() {
						for _, d := range sc.Adv {
							clk.Advance(d)
							vsched.Yield()
						}
					})
				}
				// shutdown: ConfigWatcher.Stop, then PubSub.Stop
				stop()
			})
		}, Check: func(x *vsched.Exec) string {
			if startErr != nil {
				return fmt.Sprintf("start error: %v", startErr)
			}
			if x.Quiescent {
				return "watcher-goroutines-left-running: " + strings.Join(x.Blocked, ",")
			}
			r.Distinct("distinct_outcomes", fmt.Sprintf("%s:reloads=%d", sc.Name, reloads))
			return ""
		}}
		ok := e.Explore()
		e.Report(r)
		r.Add("scenarios", 1)
		r.Sample(map[string]any{"scenario": sc.Name, "clock": fmt.Sprint(sc.Adv), "executions": e.Stats.Executions, "max_points": e.Stats.MaxPoints})
		if !ok {
			sig := strings.SplitN(e.Failure, ":", 2)[0]
			r.Violation(sig, sc.Name+": "+e.Failure, map[string]any{"scenario": sc, "schedule": e.FailExec.Choices})
		}
	}
	vtime.Clock = nil
}
