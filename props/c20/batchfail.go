// C20, part 2: batch framing when ONE (or more) event of a batch cannot be sent.
//
// The real DirectTransmission.sendBatch frames the events of one (api host, api key, dataset) batch as a msgpack
// array whose header is written afterwards. Three things make it leave an event out of the request it is
// building:
//
//	M  the event's MarshalMsg returns an error (reachable input: a map with unique keys and more than 65535
//	   top-level fields, which does not fit the map16 header types.Payload.MarshalMsg writes),
//	O  the marshalled event is over the documented per-event limit (1 000 000 bytes),
//	G…G the event would take the request body over the documented body limit (5 000 000 bytes): the request is
//	   sent with what it has and the event opens the next one.
//
// Enumerated (E2, exhaustive within the bounds recorded in the evidence):
//
//	part A: EVERY word over the alphabet {g small sendable event, r small sendable event that Honeycomb answers
//	        with status 400 in the batch response, M, O} of length 1..L (quick 3, thorough 4): the unsendable event(s)
//	        at every position among sendable neighbours, two of them adjacent and apart, words with nothing sendable;
//	part B: six ~0.99 MB events G (the sixth does not fit in the first request) with one further event
//	        x ∈ {nothing, g, r, G, M, O} inserted at every position 0..6 (thorough also: eleven G = two splits);
//
// each word is one batch (its own dataset → its own sendBatch call), ingested through the real incoming router
// on every path {msgpack batch, msgpack event, JSON batch, JSON event} and leaving through each exit
// {none → upstream transmission (zstd), peer → peer transmission (plain), local → real collector → upstream}.
//
// Oracle (per word, on the requests the in-memory Honeycomb / peer received for that dataset):
//   - every request body is a well-formed msgpack array of {time, samplerate, data} maps with nothing after it,
//   - every sendable event arrives exactly once, at the prescribed destination, with every client field exactly
//     once and equal (same rules as part 1), and nothing arrives that is not one of the client's events,
//   - no request body is over 5 000 000 bytes, an event that cannot be sent is not on the wire,
//   - accounting as direct_transmit.go documents it: one "failed to marshal event" error entry per unsendable event
//     naming that event, one status-400 error entry per r event naming that event, nothing else; per job the
//     transmission's response_20x / response_errors / messages_sent / batches_sent counters move by exactly the
//     number of 202-answered / failed / transmitted events / requests, and queued_items returns to its old value.
package main

import (
	"fmt"
	"math"
	"sort"
	"strings"
	"sync"
	"sync/atomic"

	"github.com/honeycombio/refinery/collect"
	"github.com/honeycombio/refinery/config"
	"github.com/honeycombio/refinery/logger"

	"verif/engine/ev"
	"verif/fix/codec"
	"verif/fix/nodecoll"
	"verif/fix/pipeline"
)

const (
	apiMaxBatchBytes = 5_000_000 // transmit.apiMaxBatchSize ("Size limit for a serialized request body sent for a batch")
	apiMaxEventBytes = 1_000_000 // transmit.apiMaxEventSize ("Size limit for a single serialized event within a batch")
	manyFields       = 70_001    // > 65535: does not fit a msgpack map16
	maxWordLen       = 16        // marker = word index * maxWordLen + position
)

type letter struct {
	Ch       byte
	Name     string
	Sendable bool
	Reject   bool // the receiver answers this event with status 400 inside the batch response
	Est      int  // rough size of the event in an ingest request
}

var letters = map[byte]letter{
	'g': {'g', "small", true, false, 2_000},
	'r': {'r', "small-answered-400", true, true, 2_000},
	'G': {'G', "large(0.99MB)", true, false, 1_000_000},
	'M': {'M', "marshal-error(70001 fields)", false, false, 1_050_000},
	'O': {'O', "over-event-limit(1.0001MB)", false, false, 1_010_000},
}

var (
	largeBlob    = strings.Repeat("0123456789abcdef", 990_000/16)
	oversizeBlob = strings.Repeat("0123456789abcdeF", 1_000_112/16)
	manyKeys     = func() []string {
		out := make([]string, manyFields)
		for i := range out {
			out[i] = fmt.Sprintf("f%05d", i)
		}
		return out
	}()
)

// letterFields lists the client fields of the event at position pos of a word (marker and trace ID excluded).
func letterFields(ch byte, pos int, jsonPath bool) []codec.Field {
	tsOr := func(v codec.Value, alt string) codec.Value { // JSON cannot express a timestamp
		if jsonPath {
			return codec.Str(alt)
		}
		return v
	}
	switch ch {
	case 'g', 'r':
		switch pos % 3 {
		case 0:
			return []codec.Field{codec.F("alpha", codec.Str("plain value")), codec.F("app.nested.key", codec.F64(12.5)),
				codec.F("when", tsOr(codec.Time(ts64, codec.TS64), "2031-07-09T23:59:58.123456789Z")), codec.F("u", codec.UintAs(1<<63+5, codec.Uint64))}
		case 1:
			return []codec.Field{codec.F("", codec.Int(-3)), {Key: "bkey", KeyBin: true, Val: codec.Str("b")}, codec.F("f32", codec.F32(1.5)),
				codec.F("nested", codec.Map(codec.E("a", codec.Int(1)), codec.E("at", tsOr(codec.Time(ts96, codec.TS96), "1960")), codec.E("l", codec.Arr(codec.Bool(false), codec.F64(0.1)))))}
		default:
			return []codec.Field{codec.F("meta.custom_note", codec.Bool(true)), codec.F("sk", codec.UintAs(200, codec.Uint8)),
				codec.F("arr", codec.Arr(codec.Int(1), codec.Str("a"), codec.Nil(), codec.Map(codec.E("k", codec.Arr(codec.Int(-1)))))),
				codec.F("long", codec.Str(strings.Repeat("0123456789", 30)))}
		}
	case 'G':
		return []codec.Field{codec.F("alpha", codec.Str("large")), codec.F("blob", codec.Str(largeBlob)), codec.F("n", codec.IntAs(-100, codec.Int8))}
	case 'O':
		return []codec.Field{codec.F("alpha", codec.Str("oversize")), codec.F("blob", codec.Str(oversizeBlob)), codec.F("n", codec.IntAs(200, codec.Int16))}
	case 'M':
		out := make([]codec.Field, manyFields)
		for i, k := range manyKeys {
			if i%2 == 0 {
				out[i] = codec.F(k, codec.Bool(true))
			} else {
				out[i] = codec.F(k, codec.Str("x"))
			}
		}
		return out
	}
	panic("letter")
}

// tmpl is one event template rendered once per encoding: the harness must not spend its time re-encoding 70 001
// fields or megabyte strings for every batch. The trace-ID field can be inserted before any piece.
type tmpl struct {
	fields []codec.Field // the client fields (marker and trace ID excluded)
	pieces [][]byte      // rendered "key value" runs (JSON: comma-joined members)
	counts []int         // fields per piece
}

var (
	tmplMu    sync.Mutex
	tmplCache = map[string]*tmpl{}
)

func renderFields(fs []codec.Field, jsonPath bool) []byte {
	var b []byte
	for i, f := range fs {
		if jsonPath {
			if i > 0 {
				b = append(b, ',')
			}
			b = codec.AppendJSON(b, codec.Str(f.Key))
			b = append(b, ':')
			b = codec.AppendJSON(b, f.Val)
			continue
		}
		if f.KeyBin {
			b = codec.Append(b, codec.Bin(f.Key))
		} else {
			b = codec.Append(b, codec.Str(f.Key))
		}
		b = codec.Append(b, f.Val)
	}
	return b
}

func templateFor(ch byte, pos int, jsonPath bool) *tmpl {
	variant := 0
	if ch == 'g' || ch == 'r' {
		variant = pos % 3
	}
	key := fmt.Sprintf("%c%d%v", ch, variant, jsonPath)
	tmplMu.Lock()
	defer tmplMu.Unlock()
	if t, ok := tmplCache[key]; ok {
		return t
	}
	t := &tmpl{fields: letterFields(ch, variant, jsonPath)}
	if ch == 'M' { // three runs: the trace-ID field goes first, after a third, after two thirds, or last
		for lo := 0; lo < len(t.fields); lo += 23_334 {
			hi := min(lo+23_334, len(t.fields))
			t.pieces = append(t.pieces, renderFields(t.fields[lo:hi], jsonPath))
			t.counts = append(t.counts, hi-lo)
		}
	} else {
		for i := range t.fields {
			t.pieces = append(t.pieces, renderFields(t.fields[i:i+1], jsonPath))
			t.counts = append(t.counts, 1)
		}
	}
	tmplCache[key] = t
	return t
}

// clientEvent is one event of a batch: template + optional trace-ID field before piece `at` + marker (last).
type clientEvent struct {
	t       *tmpl
	at      int
	traceID string
	marker  int
}

func (c clientEvent) extra() (trace, marker codec.Field) {
	return codec.F(keyClasses[idKeyIdx].Key, codec.Str(c.traceID)), codec.F(markerKey, codec.Int(int64(c.marker)))
}

// fields lists the client fields in wire order (built on demand: 70 001 of them for an M event).
func (c clientEvent) fields() []codec.Field {
	tr, mk := c.extra()
	out := make([]codec.Field, 0, len(c.t.fields)+2)
	fi := 0
	for i, n := range c.t.counts {
		if c.traceID != "" && i == c.at {
			out = append(out, tr)
		}
		out = append(out, c.t.fields[fi:fi+n]...)
		fi += n
	}
	if c.traceID != "" && c.at >= len(c.t.counts) {
		out = append(out, tr)
	}
	return append(out, mk)
}

// appendData appends the payload object (msgpack map / JSON object) to b.
func (c clientEvent) appendData(b []byte, jsonPath bool) []byte {
	tr, mk := c.extra()
	n := len(c.t.fields) + 1
	var parts [][]byte
	for i, p := range c.t.pieces {
		if c.traceID != "" && i == c.at {
			parts = append(parts, renderFields([]codec.Field{tr}, jsonPath))
		}
		parts = append(parts, p)
	}
	if c.traceID != "" {
		n++
		if c.at >= len(c.t.pieces) {
			parts = append(parts, renderFields([]codec.Field{tr}, jsonPath))
		}
	}
	parts = append(parts, renderFields([]codec.Field{mk}, jsonPath))
	if jsonPath {
		b = append(b, '{')
		for i, p := range parts {
			if i > 0 {
				b = append(b, ',')
			}
			b = append(b, p...)
		}
		return append(b, '}')
	}
	b = codec.AppendMapHeader(b, n, 0)
	for _, p := range parts {
		b = append(b, p...)
	}
	return b
}

// eventRequest / batchRequest: POST /1/events/{dataset} and POST /1/batch/{dataset} (members carry only "data").
func eventRequest(ds string, jsonPath bool, c clientEvent) codec.Request {
	r := codec.SingleEvent(ds, apiKey, ctOf(jsonPath), codec.Event{})
	r.Body = c.appendData(nil, jsonPath)
	return r
}

func batchRequest(ds string, jsonPath bool, cs []clientEvent) codec.Request {
	r := codec.Batch(ds, apiKey, ctOf(jsonPath))
	var b []byte
	if jsonPath {
		b = append(b, '[')
		for i, c := range cs {
			if i > 0 {
				b = append(b, ',')
			}
			b = append(b, `{"data":`...)
			b = c.appendData(b, true)
			b = append(b, '}')
		}
		b = append(b, ']')
	} else {
		b = codec.AppendArrayHeader(b, len(cs), 0)
		for _, c := range cs {
			b = codec.AppendMapHeader(b, 1, 0)
			b = codec.Append(b, codec.Str("data"))
			b = c.appendData(b, false)
		}
	}
	r.Body = b
	return r
}

func ctOf(jsonPath bool) string {
	if jsonPath {
		return codec.CTJSON
	}
	return codec.CTMsgpack
}

// wordsOver lists every word over alphabet of length 1..maxLen, shortest first, alphabet order.
func wordsOver(alphabet string, maxLen int) []string {
	var out []string
	level := []string{""}
	for l := 1; l <= maxLen; l++ {
		var next []string
		for _, w := range level {
			for i := 0; i < len(alphabet); i++ {
				next = append(next, w+alphabet[i:i+1])
			}
		}
		out = append(out, next...)
		level = next
	}
	return out
}

// splitWords: base with one further letter inserted at every position (and base itself), without repeats.
func splitWords(base string, inserts string) []string {
	out := []string{base}
	seen := map[string]bool{base: true}
	for i := 0; i < len(inserts); i++ {
		for p := 0; p <= len(base); p++ {
			w := base[:p] + inserts[i:i+1] + base[p:]
			if !seen[w] {
				seen[w] = true
				out = append(out, w)
			}
		}
	}
	return out
}

func unsendableKinds(word string) string {
	var ks []string
	if strings.Contains(word, "M") {
		ks = append(ks, "marshal-error")
	}
	if strings.Contains(word, "O") {
		ks = append(ks, "over-event-limit")
	}
	if strings.Count(word, "G") > 5 {
		ks = append(ks, "over-batch-limit")
	}
	if len(ks) == 0 {
		return "none"
	}
	return strings.Join(ks, "+")
}

type bworker struct {
	n  *pipeline.Node
	rc *nodecoll.Real
	lg *logger.MockLogger
}

func newBatchWorker() *bworker {
	cfg := pipeline.DefaultConfig()
	cfg.Samplers = map[string]*config.V2SamplerChoice{
		"__default__": {DeterministicSampler: &config.DeterministicSamplerConfig{SampleRate: 1}},
	}
	cfg.AddRuleReasonToTrace = true
	cfg.AdditionalAttributes = map[string]string{addedAttr: addedAttrVal}
	cfg.AdditionalErrorFields = []string{markerKey} // the transmission's error entries name the event they are about
	nodecoll.Prepare(cfg)
	w := &bworker{lg: &logger.MockLogger{}}
	w.n = pipeline.New(pipeline.Options{Config: cfg, MaxBatchSize: 1024, Logger: w.lg,
		Collector: func(n *pipeline.Node) collect.Collector { w.rc = nodecoll.New(n); return w.rc }})
	w.rc.OutgoingCap = 256
	return w
}

type bjob struct {
	part       string
	path, dest int
	words      []string
	base       int64
}

var txCounters = []string{"_response_20x", "_response_errors", "_messages_sent", "_batches_sent", "_queued_items", "_send_errors", "_response_decode_errors"}

func markerOfValue(data codec.Value) (int, bool) {
	m, ok := data.Get(markerKey)
	if !ok {
		return 0, false
	}
	f, isNum := numOf(m)
	if !isNum || f != math.Trunc(f) || f < 0 || f > 1e9 {
		return 0, false
	}
	return int(f), true
}

func anyToInt(v any) (int, bool) {
	switch x := v.(type) {
	case int64:
		return int(x), true
	case int:
		return x, true
	case uint64:
		return int(x), true
	case float64:
		if x == math.Trunc(x) {
			return int(x), true
		}
	}
	return 0, false
}

// diffEvent applies part 1's rule to one forwarded payload: first problem as (kind, text), "" if none.
func diffEvent(client []codec.Field, jsonPath bool, got codec.Value) (string, string) {
	count := map[string]int{}
	first := map[string]codec.Value{}
	for _, kv := range got.Map {
		if kv.K.Kind != codec.KStr && kv.K.Kind != codec.KBin {
			return "non-string-key-forwarded", "forwarded payload has a key that is neither str nor bin: " + kv.K.Canon()
		}
		if _, ok := first[kv.K.S]; !ok {
			first[kv.K.S] = kv.V
		}
		count[kv.K.S]++
	}
	isClient := map[string]bool{}
	for _, f := range client {
		isClient[f.Key] = true
		want := expected(f.Val, jsonPath)
		switch {
		case count[f.Key] == 0:
			return "field-lost", fmt.Sprintf("client field %q = %s is missing from the forwarded payload (which has %d fields)", f.Key, trunc(f.Val.Wire(), 80), len(got.Map))
		case count[f.Key] > 1:
			return "field-duplicated", fmt.Sprintf("client field %q appears %d times in the forwarded payload", f.Key, count[f.Key])
		case first[f.Key].Kind == codec.KStr && want.Kind == codec.KStr && first[f.Key].S == want.S: // equal (no need to render a megabyte)
		case first[f.Key].Canon() != want.Canon():
			return "field-altered", fmt.Sprintf("client field %q sent as %s was forwarded as %s", f.Key, trunc(f.Val.Wire(), 80), trunc(wireSorted(first[f.Key]), 80))
		}
	}
	var extra []string
	for k := range count {
		if !isClient[k] && !reserved[k] && k != addedAttr {
			extra = append(extra, k)
		}
	}
	sort.Strings(extra)
	if len(extra) > 0 {
		if len(extra) > 5 {
			extra = extra[:5]
		}
		return "field-added", fmt.Sprintf("forwarded payload has field(s) %q… the client did not send and that are neither reserved metadata nor configured attributes", extra)
	}
	return "", ""
}

func batchPart(r *ev.Run) {
	maxLen := ev.Pick(r, 3, 4)
	wordsA := wordsOver("grMO", maxLen)
	wordsB := splitWords("GGGGGG", "grGMO")
	if r.Thorough() {
		wordsB = append(wordsB, "GGGGGGGGGGG")
	}
	pathsB := ev.Pick(r, []int{0, 3}, []int{0, 1, 2, 3}) // quick: msgpack-batch, json-event
	destsB := ev.Pick(r, []int{0, 1}, []int{0, 1, 2})    // quick: none, peer

	var jobs []bjob
	var total int64
	addJobs := func(part string, words []string, per int, ps, ds []int) {
		for _, pi := range ps {
			for _, di := range ds {
				for lo := 0; lo < len(words); lo += per {
					hi := min(lo+per, len(words))
					jobs = append(jobs, bjob{part, pi, di, words[lo:hi], total})
					total += int64(hi - lo)
				}
			}
		}
	}
	const perA, perB = 28, 3
	addJobs("A", wordsA, perA, []int{0, 1, 2, 3}, []int{0, 1, 2})
	addJobs("B", wordsB, perB, pathsB, destsB)

	workers := 6
	pool := make(chan *bworker, workers)
	var selfIDs, peerIDs []string
	for i := 0; i < workers; i++ {
		w := newBatchWorker()
		if i == 0 {
			selfIDs = w.n.TraceIDs(w.n.Self, perA, "c20b-local-")
			peerIDs = w.n.TraceIDs(w.n.Peers[0], perA, "c20b-peer-")
		}
		pool <- w
	}

	var mu sync.Mutex
	found := map[string]finding{}
	report := func(sig string, order int64, what string, rep any) {
		mu.Lock()
		if f, ok := found[sig]; !ok || order < f.order {
			found[sig] = finding{order, what, rep}
		}
		mu.Unlock()
	}

	// enumx.Each hands out chunks of 256 indices, too coarse for a few hundred heavy jobs: same contract (every index
	// once, deadline → run marked non-exhaustive), one job at a time, heaviest (part B) first.
	sort.SliceStable(jobs, func(a, b int) bool { return jobs[a].part > jobs[b].part })
	eachJob(r, "batches", len(jobs), workers, func(ji int) {
		w := <-pool
		defer func() { pool <- w }()
		jb := jobs[ji]
		path, dest := paths[jb.path], dests[jb.dest]
		jsonPath := strings.HasPrefix(path, "json")
		r.Add("evaluations", int64(len(jb.words)))
		r.Add("batches_part_"+jb.part, int64(len(jb.words)))
		txName := "libhoney_upstream"
		wantDest, wantBase := "upstream", w.n.Upstream
		if dest == "peer" {
			txName, wantDest, wantBase = "libhoney_peer", "peer", w.n.Peers[0]
		}
		if dest == "local" {
			w.rc.Reset()
		}
		w.lg.Events = nil
		before := map[string]float64{}
		for _, c := range txCounters {
			before[c], _ = w.n.Metrics.Get(txName + c)
		}

		type cevent struct {
			clientEvent
			word, pos int
			ch        byte
			accepted  bool
			rejected  string
		}
		events := map[int]*cevent{} // by marker
		reject := map[int]bool{}
		dsOf := func(wi int) string { return fmt.Sprintf("c20b-%s%03d", jb.part, wi) }
		traceOf := func(wi int) string {
			switch dest {
			case "peer":
				return peerIDs[wi]
			case "local":
				return selfIDs[wi]
			}
			return ""
		}
		// the receiver: keeps what it gets (MemNet.Requests would sort the multi-megabyte bodies) and answers per event
		var capMu sync.Mutex
		var reqs []*pipeline.Captured
		w.n.Net.Respond = func(c *pipeline.Captured) pipeline.Reply {
			capMu.Lock()
			reqs = append(reqs, c)
			capMu.Unlock()
			if !c.IsBatch || c.BodyErr != "" {
				return pipeline.Reply{}
			}
			var sb strings.Builder
			sb.WriteByte('[')
			for i, e := range c.Events {
				if i > 0 {
					sb.WriteByte(',')
				}
				if m, ok := markerOfValue(e.Data); ok && reject[m] {
					sb.WriteString(`{"status":400,"error":"verif: this event is refused"}`)
				} else {
					sb.WriteString(`{"status":202}`)
				}
			}
			sb.WriteByte(']')
			return pipeline.Reply{Status: 200, Header: map[string]string{"Content-Type": "application/json"}, Body: []byte(sb.String())}
		}

		// ---- ingest, word by word
		for wi, word := range jb.words {
			ds := dsOf(wi)
			var pend []clientEvent
			var pendM []int
			pendSize := 0
			flushPend := func() {
				if len(pend) == 0 {
					return
				}
				resp := w.n.Do(pipeline.Incoming, batchRequest(ds, jsonPath, pend))
				st := resp.BatchStatuses()
				for i, m := range pendM {
					if resp.Status == 200 && len(st) == len(pend) {
						events[m].accepted = st[i] == 202
						events[m].rejected = fmt.Sprintf("batch member status %d", st[i])
					} else {
						events[m].rejected = fmt.Sprintf("HTTP %d %s", resp.Status, trunc(string(resp.Body), 120))
					}
				}
				pend, pendM, pendSize = nil, nil, 0
			}
			for pos := 0; pos < len(word); pos++ {
				ch := word[pos]
				m := wi*maxWordLen + pos
				t := templateFor(ch, pos, jsonPath)
				ce := &cevent{clientEvent: clientEvent{t: t, at: pos % (len(t.pieces) + 1), traceID: traceOf(wi), marker: m}, word: wi, pos: pos, ch: ch}
				events[m] = ce
				if letters[ch].Reject {
					reject[m] = true
				}
				if strings.HasSuffix(path, "-batch") {
					if pendSize+letters[ch].Est > 4_300_000 { // the incoming router reads at most 5 MB per request
						flushPend()
					}
					pend, pendM, pendSize = append(pend, ce.clientEvent), append(pendM, m), pendSize+letters[ch].Est
				} else {
					resp := w.n.Do(pipeline.Incoming, eventRequest(ds, jsonPath, ce.clientEvent))
					ce.accepted = resp.Status == 200
					if !ce.accepted {
						ce.rejected = fmt.Sprintf("HTTP %d %s", resp.Status, trunc(string(resp.Body), 120))
					}
				}
			}
			flushPend()
		}
		if dest == "local" {
			w.rc.Decide()
			w.rc.Send()
		}
		w.n.Flush()
		w.n.Net.Respond = nil
		w.n.Net.Reset()
		logs := w.lg.Events
		w.lg.Events = nil

		// ---- per word
		byDS := map[string][]*pipeline.Captured{}
		for _, c := range reqs {
			if c.IsBatch {
				byDS[c.Dataset] = append(byDS[c.Dataset], c)
			}
		}
		gotLogs := map[string][]string{}
		for _, e := range logs {
			if _, ok := e.Fields["roundtrip_usec"]; !ok { // only handleError writes this field
				continue
			}
			ds, _ := e.Fields["dataset"].(string)
			who := "event ?"
			if m, ok := anyToInt(e.Fields[markerKey]); ok {
				who = fmt.Sprintf("event %d", m%maxWordLen)
			}
			st := ""
			if s, ok := e.Fields["status_code"]; ok {
				st = fmt.Sprintf(" status %v", s)
			}
			gotLogs[ds] = append(gotLogs[ds], fmt.Sprintf("%s: %v%s", who, e.Fields["error"], st))
		}
		var nOK, nFailed, nWire, nReq int // what the counters should move by
		judged := true
		for wi, word := range jb.words {
			order := jb.base + int64(wi)
			ds := dsOf(wi)
			kinds := unsendableKinds(word)
			tag := fmt.Sprintf("unsendable=%s|dest=%s", kinds, dest)
			var legend []string
			for pos := 0; pos < len(word); pos++ {
				legend = append(legend, fmt.Sprintf("%d:%s", pos, letters[word[pos]].Name))
			}
			rep := map[string]any{"part": jb.part, "batch(word)": word, "events": legend, "path": path, "destination": dest, "dataset": ds, "trace_id": traceOf(wi),
				"letters": "g small sendable; r small sendable, answered 400; G 0.99 MB sendable; M 70001 top-level fields (MarshalMsg error); O 1.0001 MB (over the per-event limit)"}
			allAccepted := true
			for pos := 0; pos < len(word); pos++ {
				ce := events[wi*maxWordLen+pos]
				if !ce.accepted {
					allAccepted = false
					r.Distinct("rejected_by_refinery(not forwarded, not judged)", "part2|"+path+"|"+letters[ce.ch].Name+"|"+ce.rejected)
				}
			}
			if !allAccepted {
				// a member Refinery refuses at ingest never reaches the transmission: the batch is not the one enumerated
				r.Add("batches_with_a_member_refused_at_ingest(not judged)", 1)
				judged = false
				continue
			}
			r.Distinct("distinct_nontrivial_batches", jb.part+"|"+path+"|"+dest+"|"+word)
			r.Add("batches_judged", 1)
			rs := append([]*pipeline.Captured(nil), byDS[ds]...)
			sort.SliceStable(rs, func(a, b int) bool { return rs[a].Seq < rs[b].Seq })
			nReq += len(rs)
			var sizes []int
			for _, c := range rs {
				sizes = append(sizes, len(c.Body))
			}
			rep["request_body_bytes"] = sizes

			// 1. well-formed bodies
			malformed := false
			for _, c := range rs {
				if c.BodyErr == "" {
					continue
				}
				malformed = true
				// what a lenient receiver (one that stops after the announced number of members) would see
				seen := map[int]bool{}
				var view []string
				if v, rest, err := codec.Decode(c.Body); err == nil && v.Kind == codec.KArr {
					for _, mem := range v.Arr {
						d, _ := mem.Get("data")
						if m, ok := markerOfValue(d); ok && events[m] != nil && events[m].word == wi {
							seen[events[m].pos] = true
							k, _ := diffEvent(events[m].fields(), jsonPath, d)
							if k == "" {
								k = "intact"
							}
							view = append(view, fmt.Sprintf("event %d (%s)", events[m].pos, k))
						} else {
							view = append(view, fmt.Sprintf("a member with %d payload fields and no marker", len(d.Map)))
						}
					}
					view = append(view, fmt.Sprintf("then %d bytes outside the array", len(rest)))
				}
				var lost []int
				for pos := 0; pos < len(word); pos++ {
					if letters[word[pos]].Sendable && !seen[pos] {
						lost = append(lost, pos)
					}
				}
				kind := "batch-body-malformed"
				if len(lost) > 0 {
					kind = "batch-body-malformed(sendable-neighbour-lost)"
				}
				rep["receiver_view"] = view
				report(kind+"|"+tag, order, fmt.Sprintf("batch %q to %s: the request body Refinery sent is not a well-formed msgpack array of events (%s); a receiver that reads the announced members sees %v; sendable events %v of the batch are not among them [path %s]",
					word, wantDest, c.BodyErr, view, lost, path), rep)
			}
			if malformed {
				judged = false
				r.Add("violating_batches", 1)
				continue
			}
			// 2. what arrived
			arrived := map[int][]pipeline.WireEvent{}
			bad := false
			for _, c := range rs {
				if c.Dest != wantDest || c.BaseURL != wantBase {
					report("batch-wrong-destination|"+tag, order, fmt.Sprintf("batch %q went to %s %s, expected %s %s", word, c.Dest, c.BaseURL, wantDest, wantBase), rep)
					bad = true
				}
				if len(c.Body) > apiMaxBatchBytes {
					report("request-body-over-batch-limit|"+tag, order, fmt.Sprintf("batch %q: a request body of %d bytes was sent (documented limit %d)", word, len(c.Body), apiMaxBatchBytes), rep)
					bad = true
				}
				for _, e := range c.Events {
					m, ok := markerOfValue(e.Data)
					if !ok || events[m] == nil || events[m].word != wi {
						report("batch-foreign-event|"+tag, order, fmt.Sprintf("batch %q: an event arrived for dataset %s that is none of the client's events of that batch: %s", word, ds, trunc(wireSorted(e.Data), 300)), rep)
						bad = true
						continue
					}
					arrived[events[m].pos] = append(arrived[events[m].pos], e)
				}
			}
			for pos := 0; pos < len(word); pos++ {
				ce := events[wi*maxWordLen+pos]
				l := letters[ce.ch]
				got := arrived[pos]
				etag := fmt.Sprintf("event=%s|%s", l.Name, tag)
				switch {
				case l.Sendable && len(got) == 0:
					report("batch-neighbour-not-forwarded|"+etag, order, fmt.Sprintf("batch %q: sendable event %d (%s) never arrived at %s [path %s]", word, pos, l.Name, wantDest, path), rep)
					bad = true
				case len(got) > 1:
					report("batch-event-forwarded-more-than-once|"+etag, order, fmt.Sprintf("batch %q: event %d (%s) arrived %d times", word, pos, l.Name, len(got)), rep)
					bad = true
				case !l.Sendable && len(got) == 1:
					report("unsendable-event-on-the-wire|"+etag, order, fmt.Sprintf("batch %q: event %d (%s), which sendBatch accounts as failed, is in a request body", word, pos, l.Name), rep)
					bad = true
				}
				for _, g := range got {
					r.Add("forwarded_events_compared", 1)
					if k, what := diffEvent(ce.fields(), jsonPath, g.Data); k != "" {
						report("batch-neighbour-"+k+"|"+etag, order, fmt.Sprintf("batch %q, event %d (%s): %s [path %s, destination %s]", word, pos, l.Name, what, path, dest), rep)
						bad = true
					}
				}
				if l.Sendable {
					nWire++
				}
				if l.Sendable && !l.Reject {
					nOK++
				} else {
					nFailed++
				}
			}
			// 3. the error entries of this batch
			var wantLogs []string
			for pos := 0; pos < len(word); pos++ {
				switch l := letters[word[pos]]; {
				case !l.Sendable:
					wantLogs = append(wantLogs, fmt.Sprintf("event %d: failed to marshal event", pos))
				case l.Reject:
					wantLogs = append(wantLogs, fmt.Sprintf("event %d: error when sending event status 400", pos))
				}
			}
			gl := append([]string(nil), gotLogs[ds]...)
			sort.Strings(gl)
			sort.Strings(wantLogs)
			if !bad && strings.Join(gl, "\n") != strings.Join(wantLogs, "\n") {
				rep["error_entries"] = gl
				rep["error_entries_expected"] = wantLogs
				report("batch-accounting(error-entries)|"+tag, order, fmt.Sprintf("batch %q: the transmission's error entries are %q, expected %q (one per event that cannot be sent or that the receiver refused, naming that event) [path %s]", word, gl, wantLogs, path), rep)
				bad = true
			}
			if bad {
				judged = false
				r.Add("violating_batches", 1)
			}
			if jb.part == "A" && jb.path == 0 && jb.dest == 0 && word == "gMg" {
				r.Sample(map[string]any{"batch": rep, "arrived_event_0": byWire(arrived[0]), "arrived_event_2": byWire(arrived[2]), "error_entries": gl})
			}
		}
		// 4. the transmission's counters (per job: the metrics have no dataset dimension)
		if judged {
			want := map[string]float64{"_response_20x": float64(nOK), "_response_errors": float64(nFailed), "_messages_sent": float64(nWire), "_batches_sent": float64(nReq),
				"_queued_items": 0, "_send_errors": 0, "_response_decode_errors": 0}
			var diffs []string
			for _, c := range txCounters {
				after, _ := w.n.Metrics.Get(txName + c)
				if d := after - before[c]; d != want[c] {
					diffs = append(diffs, fmt.Sprintf("%s%s moved by %v, expected %v", txName, c, d, want[c]))
				}
			}
			if len(diffs) > 0 {
				report(fmt.Sprintf("batch-accounting(counters)|part=%s|dest=%s", jb.part, dest), jb.base, fmt.Sprintf("after batches %q [path %s]: %s", jb.words, path, strings.Join(diffs, "; ")),
					map[string]any{"part": jb.part, "batches": jb.words, "path": path, "destination": dest})
			}
		}
	})
	for i := 0; i < workers; i++ {
		w := <-pool
		w.rc.Close()
		w.n.Close()
	}
	sigs := make([]string, 0, len(found))
	for s := range found {
		sigs = append(sigs, s)
	}
	sort.Strings(sigs)
	for _, s := range sigs {
		r.Violation(s, found[s].what, found[s].rep)
	}
	r.Add("violating_batches", 0)
	r.Set("part2_batches_total", total)
	r.Set("part2_rule", "per batch (= one dataset = one sendBatch call): every request body is a well-formed msgpack array with nothing after it and ≤ 5 000 000 bytes; every sendable event arrives exactly once at the prescribed destination, field for field by part 1's rule; nothing else arrives; events that cannot be sent are not on the wire and are accounted exactly once ('failed to marshal event' entry naming the event, response_errors); events answered 400 get exactly one status-400 entry naming them; counters response_20x/response_errors/messages_sent/batches_sent/queued_items move by exactly the expected amounts")
	r.Set("part2_bounds", map[string]any{
		"part_A":  fmt.Sprintf("every word over {g,r,M,O} of length 1..%d (%d words) × 4 paths × 3 destinations", maxLen, len(wordsA)),
		"part_B":  fmt.Sprintf("GGGGGG with one of {nothing,g,r,G,M,O} inserted at every position%s (%d words) × paths %v × destinations %v", ev.Pick(r, "", " + GGGGGGGGGGG"), len(wordsB), pick(paths, pathsB), pick(dests, destsB)),
		"letters": "g small sendable event (3 templates by position: timestamp, uint64, float32, nested map/array, bin-typed key, empty key, meta.-prefixed key); r the same, answered with status 400 in the batch response; G one 990 000-byte string; M 70 001 top-level fields; O one 1 000 112-byte string",
	})
	r.Assume("part 2: an event whose marshalled form cannot be produced (more than 65535 top-level fields) or is over the documented 1 000 000-byte event limit is not a forwarded event; Refinery documents dropping it with a 'failed to marshal event' error — that, not its delivery, is what is checked for it")
	r.Assume("part 2: one batch = one dataset (the transmission batches per api host / api key / dataset); batches of a job are flushed together by the real Stop(), each through its own sendBatch call; the order of events inside a request is not judged")
	r.Assume("part 2: counters are compared per job (≤ 28 part-A batches or ≤ 3 part-B batches), error entries per batch")
}

func eachJob(r *ev.Run, name string, n, workers int, fn func(i int)) {
	var next atomic.Int64
	var wg sync.WaitGroup
	for w := 0; w < workers; w++ {
		wg.Add(1)
		go func() {
			defer wg.Done()
			for {
				i := int(next.Add(1) - 1)
				if i >= n || r.Expired(name) {
					return
				}
				fn(i)
			}
		}()
	}
	wg.Wait()
}

func pick(names []string, idx []int) []string {
	var out []string
	for _, i := range idx {
		out = append(out, names[i])
	}
	return out
}

func byWire(es []pipeline.WireEvent) []string {
	var out []string
	for _, e := range es {
		out = append(out, trunc(wireSorted(e.Data), 400))
	}
	return out
}
