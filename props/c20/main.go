// C20: forwarded events carry exactly the client's fields.
//
// Engine E2 (enumx). Payloads are ordered lists of ≤ 4 client fields (+ one marker field that identifies the
// case on the wire) over seven key classes {plain, dotted, meta.-prefixed non-reserved, a configured
// sampling-key field, a configured trace-ID field, a bin-typed key, the empty key}; every subset, every
// order; one "focus" field sweeps the whole value alphabet (every msgpack scalar format incl. int/uint
// widths, float32/64, str/bin formats, nil, bool, timestamp ext -1 in its 32/64/96-bit forms, nested
// maps and arrays, with and without timestamps inside) while the other fields hold one typed default
// each. Every payload is ingested through {JSON event, JSON batch, msgpack event, msgpack batch} of the
// real incoming router and takes each of the three ways out of the node:
//
//	none  – no trace ID: straight to the upstream transmission,
//	peer  – trace owned by the other node: the peer transmission,
//	local – trace owned by this node: a REAL InMemCollector (fix/nodecoll) whose sampler keeps everything,
//	        real sendTraces, upstream transmission;
//
// with the sampling-key field configured for the dataset (so Refinery memoises it) or not.
// Oracle: the payload decoded (fixture's own msgpack decoder) from the bytes the real DirectTransmission
// put on the in-memory network has every client key exactly once with a value equal in kind class and exact
// value (JSON ingestion: numbers become floats; msgpack: signed/unsigned ints one class, float32 widened
// exactly, bin ≠ str, timestamp stays a timestamp), and nothing else except reserved meta.* names and the
// configured additional attribute.
package main

import (
	"fmt"
	"math"
	"sort"
	"strings"
	"sync"
	"time"

	"github.com/honeycombio/refinery/collect"
	"github.com/honeycombio/refinery/config"

	"verif/engine/enumx"
	"verif/engine/ev"
	"verif/fix/codec"
	"verif/fix/nodecoll"
	"verif/fix/pipeline"
)

const apiKey = "0123456789abcdef0123456789abcdef" // classic key: sampler selector = dataset, no /1/auth lookup
const markerKey = "case_no"

// ---------------------------------------------------------------------------------------------
// key classes

type keyClass struct {
	Name string
	Key  string
	Bin  bool        // msgpack paths send the key as bin
	Def  codec.Value // value when the field is not the focus
}

const idKeyIdx = 4

var keyClasses = []keyClass{
	{Name: "plain", Key: "alpha", Def: codec.Str("plain value")},
	{Name: "dotted", Key: "app.nested.key", Def: codec.F64(12.5)},
	{Name: "meta-nonreserved", Key: "meta.custom_note", Def: codec.Bool(true)},
	{Name: "sampling-key-field", Key: "sk", Def: codec.UintAs(200, codec.Uint8)},
	{Name: "trace-id-field", Key: "trace.trace_id", Def: codec.Nil()}, // replaced by the trace ID for peer / local
	{Name: "bin-typed-key", Key: "bkey", Bin: true, Def: codec.Str("b")},
	{Name: "empty-key", Key: "", Def: codec.Int(-3)},
}

// ---------------------------------------------------------------------------------------------
// value alphabet

type namedVal struct {
	Name   string
	Family string
	V      codec.Value
	JSON   bool // expressible in JSON (no bin, no timestamp)
	Quick  bool
}

var (
	ts32 = time.Date(2031, 7, 9, 23, 59, 58, 0, time.UTC)
	ts64 = time.Date(2031, 7, 9, 23, 59, 58, 123456789, time.UTC)
	ts96 = time.Date(1960, 2, 3, 4, 5, 6, 999999999, time.UTC) // before the epoch: only the 96-bit form can hold it
)

func alphabet() []namedVal {
	var out []namedVal
	add := func(name, fam string, v codec.Value, json, quick bool) {
		out = append(out, namedVal{name, fam, v, json, quick})
	}
	add("nil", "nil", codec.Nil(), true, true)
	add("true", "bool", codec.Bool(true), true, true)
	add("false", "bool", codec.Bool(false), true, false)
	add("posfixint-5", "int", codec.IntAs(5, codec.PosFixInt), true, true)
	add("negfixint--3", "int", codec.IntAs(-3, codec.NegFixInt), true, false)
	add("int8--100", "int", codec.IntAs(-100, codec.Int8), true, true)
	add("int16-200", "int", codec.IntAs(200, codec.Int16), true, true)
	add("int32-70000", "int", codec.IntAs(70000, codec.Int32), true, false)
	add("int64--5e9", "int", codec.IntAs(-5_000_000_000, codec.Int64), true, true)
	add("int64-7(non-minimal)", "int", codec.IntAs(7, codec.Int64), true, false)
	add("int64-2^53+1", "int", codec.IntAs(1<<53+1, codec.Int64), true, true)
	add("uint8-200", "uint", codec.UintAs(200, codec.Uint8), true, true)
	add("uint16-60000", "uint", codec.UintAs(60000, codec.Uint16), true, false)
	add("uint32-4e9", "uint", codec.UintAs(4_000_000_000, codec.Uint32), true, true)
	add("uint64-2^63+5", "uint", codec.UintAs(1<<63+5, codec.Uint64), true, true)
	add("uint64-7(non-minimal)", "uint", codec.UintAs(7, codec.Uint64), true, false)
	add("float32-1.5", "float32", codec.F32(1.5), true, true)
	add("float32-2(integral)", "float32", codec.F32(2), true, false)
	add("float64-0.1", "float64", codec.F64(0.1), true, true)
	add("float64-2(integral)", "float64", codec.F64(2), true, true)
	add("float64-1e300", "float64", codec.F64(1e300), true, false)
	add("float64-min-subnormal", "float64", codec.F64(math.SmallestNonzeroFloat64), true, false)
	add("str-empty", "str", codec.Str(""), true, true)
	add("fixstr", "str", codec.Str("GET /x é\"\\\n"), true, true)
	add("str8(short)", "str", codec.StrAs("s8", codec.Str8), true, false)
	add("str8-40chars", "str", codec.Str(strings.Repeat("0123456789", 4)), true, true)
	// large values: an event of tens of kilobytes (a long SQL statement, a stack trace) followed by further events
	// of the same request exercises the decoders' buffer handling (pooled scratch space must not be shared)
	add("str16-20000chars", "str", codec.Str(strings.Repeat("0123456789abcdef", 1250)), true, true)
	add("str32-70000chars", "str", codec.Str(strings.Repeat("0123456789abcdeF", 4375)), true, false)
	add("str16(short)", "str", codec.StrAs("s16", codec.Str16), true, false)
	add("str32(short)", "str", codec.StrAs("s32", codec.Str32), true, false)
	add("bin8", "bin", codec.Bin("\x00\xff bin"), false, true)
	add("bin8-empty", "bin", codec.Bin(""), false, false)
	add("bin16(short)", "bin", codec.BinAs("b16", codec.Bin16), false, false)
	add("bin8-looks-like-text", "bin", codec.Bin("text"), false, true)
	add("timestamp32", "timestamp", codec.Time(ts32, codec.TS32), false, true)
	add("timestamp64", "timestamp", codec.Time(ts64, codec.TS64), false, true)
	add("timestamp96", "timestamp", codec.Time(ts96, codec.TS96), false, true)
	add("map-empty", "map", codec.Map(), true, false)
	add("array-empty", "array", codec.Arr(), true, false)
	add("map-nested", "map", codec.Map(codec.E("a", codec.Int(1)), codec.E("b", codec.Map(codec.E("c", codec.Str("d")), codec.E("", codec.Nil()))),
		codec.E("u", codec.UintAs(200, codec.Uint8)), codec.E("f", codec.F32(2.5)), codec.E("l", codec.Arr(codec.Bool(false), codec.F64(0.1)))), true, true)
	add("array-mixed", "array", codec.Arr(codec.Int(1), codec.Str("a"), codec.Nil(), codec.F32(2.5), codec.Arr(), codec.Map(), codec.UintAs(1<<63+5, codec.Uint64),
		codec.Map(codec.E("k", codec.Arr(codec.Int(-1))))), true, true)
	add("map-with-bin", "map+bin", codec.Map(codec.E("raw", codec.Bin("\x01\x02"))), false, false)
	add("map-with-timestamp", "map+timestamp", codec.Map(codec.E("at", codec.Time(ts64, codec.TS64)), codec.E("n", codec.Int(1))), false, true)
	add("array-with-timestamp", "array+timestamp", codec.Arr(codec.Time(ts32, codec.TS32), codec.Str("x")), false, false)
	return out
}

// expected value on the far side: msgpack ingestion keeps the value; JSON ingestion turns every number into
// a float (exactly: the float64 nearest to the decimal text, which is what float64(int) is).
func expected(v codec.Value, jsonPath bool) codec.Value {
	if !jsonPath {
		return v
	}
	switch v.Kind {
	case codec.KInt:
		return codec.F64(float64(v.Int))
	case codec.KUint:
		return codec.F64(float64(v.Uint))
	case codec.KF32:
		return codec.F64(v.F)
	case codec.KArr:
		out := codec.Value{Kind: codec.KArr}
		for _, e := range v.Arr {
			out.Arr = append(out.Arr, expected(e, true))
		}
		return out
	case codec.KMap:
		out := codec.Value{Kind: codec.KMap}
		for _, kv := range v.Map {
			out.Map = append(out.Map, codec.KV{K: kv.K, V: expected(kv.V, true)})
		}
		return out
	}
	return v
}

// Reserved metadata names (types/payload.go constants, documented in refinery's docs) and the configured
// additional attribute: the only keys Refinery may add.
var reserved = map[string]bool{
	"meta.signal_type": true, "meta.trace_id": true, "meta.annotation_type": true, "meta.refinery.probe": true, "meta.refinery.root": true,
	"meta.refinery.incoming_user_agent": true, "meta.refinery.local_hostname": true, "meta.stressed": true, "meta.refinery.reason": true,
	"meta.refinery.send_reason": true, "meta.span_event_count": true, "meta.span_link_count": true, "meta.span_count": true, "meta.event_count": true,
	"meta.refinery.original_sample_rate": true, "meta.refinery.final_sample_rate": true, "meta.refinery.sample_key": true,
}

const addedAttr, addedAttrVal = "deploy.cluster", "verif-1"

// ---------------------------------------------------------------------------------------------
// cases

var (
	paths = []string{"msgpack-batch", "msgpack-event", "json-batch", "json-event"}
	dests = []string{"none", "peer", "local"}
	memos = []string{"sampling-key-configured", "sampling-key-not-configured"}
)

type spec struct {
	keys  []int // key classes in wire order
	focus int   // position in keys
	val   int   // value index; for the focused trace-ID field of peer/local: index into idLeads
}

var idLeads = []byte{codec.FixStr, codec.Str8, codec.Str16, codec.Str32}

// specsFor lists the payload shapes for a destination: every subset of ≤ maxKeys key classes (peer/local: containing the
// trace-ID field), every order, every focus position, every value the path can express.
func specsFor(dest string, jsonPath bool, vals []namedVal, maxKeys int) []spec {
	var out []spec
	for _, sub := range enumx.Subsets(len(keyClasses)) {
		if len(sub) == 0 || len(sub) > maxKeys {
			continue
		}
		hasID := false
		for _, k := range sub {
			if k == idKeyIdx {
				hasID = true
			}
		}
		if dest != "none" && !hasID {
			continue
		}
		for _, perm := range enumx.Perms(len(sub)) {
			keys := make([]int, len(sub))
			for i, p := range perm {
				keys[i] = sub[p]
			}
			for f := range keys {
				if keys[f] == idKeyIdx && dest != "none" {
					n := len(idLeads)
					if jsonPath {
						n = 1
					}
					for li := 0; li < n; li++ {
						out = append(out, spec{keys, f, li})
					}
					continue
				}
				for vi, v := range vals {
					if jsonPath && !v.JSON {
						continue
					}
					if keys[f] == idKeyIdx && (v.V.Kind == codec.KStr && v.V.S != "" || v.V.Kind == codec.KBin) {
						// a non-empty string there would be a trace ID: destination "none" means there is none.
						// Whether a bin value there names a trace is C21's question (trace identity), not this one's.
						continue
					}
					out = append(out, spec{keys, f, vi})
				}
			}
		}
	}
	return out
}

type clientField struct {
	class int // key class, -1 = marker
	f     codec.Field
}

func (s spec) fields(vals []namedVal, dest, traceID string, caseNo int) []clientField {
	var out []clientField
	for i, k := range s.keys {
		kc := keyClasses[k]
		v := kc.Def
		if k == idKeyIdx && dest != "none" {
			v = codec.Str(traceID)
		}
		if i == s.focus {
			if k == idKeyIdx && dest != "none" {
				v = codec.StrAs(traceID, idLeads[s.val])
			} else {
				v = vals[s.val].V
			}
		}
		out = append(out, clientField{k, codec.Field{Key: kc.Key, KeyBin: kc.Bin, Val: v}})
	}
	return append(out, clientField{-1, codec.F(markerKey, codec.Int(int64(caseNo)))})
}

// ---------------------------------------------------------------------------------------------

type worker struct {
	n  *pipeline.Node
	rc *nodecoll.Real
}

func newWorker() *worker {
	cfg := pipeline.DefaultConfig()
	cfg.Samplers = map[string]*config.V2SamplerChoice{
		"ds-sampling-key-configured": {DynamicSampler: &config.DynamicSamplerConfig{SampleRate: 1, ClearFrequency: config.Duration(24 * time.Hour), FieldList: []string{"sk"}}},
		"__default__":                {DeterministicSampler: &config.DeterministicSamplerConfig{SampleRate: 1}},
	}
	cfg.AddRuleReasonToTrace = true
	cfg.AdditionalAttributes = map[string]string{addedAttr: addedAttrVal}
	nodecoll.Prepare(cfg)
	w := &worker{}
	w.n = pipeline.New(pipeline.Options{Config: cfg, MaxBatchSize: 1024,
		Collector: func(n *pipeline.Node) collect.Collector { w.rc = nodecoll.New(n); return w.rc }})
	w.rc.OutgoingCap = 16
	return w
}

type finding struct {
	order int64
	what  string
	rep   any
}

func numOf(v codec.Value) (float64, bool) {
	switch v.Kind {
	case codec.KInt:
		return float64(v.Int), true
	case codec.KUint:
		return float64(v.Uint), true
	case codec.KF32, codec.KF64:
		return v.F, true
	}
	return 0, false
}

func describeKind(v codec.Value) string {
	if v.Kind == codec.KExt {
		return fmt.Sprintf("ext(type %d, %d bytes)", v.ExtType, len(v.S))
	}
	return v.Kind.String()
}

func main() {
	r := ev.New("C20", "exploration")
	batchPart(r) // part 2 (batchfail.go): batches in which one or more events cannot be sent
	vals := alphabet()
	if !r.Thorough() {
		var q []namedVal
		for _, v := range vals {
			if v.Quick {
				q = append(q, v)
			}
		}
		vals = q
	}
	maxKeys := 4
	workers := 16
	pool := make(chan *worker, workers)
	var selfID, peerID string
	for i := 0; i < workers; i++ {
		w := newWorker()
		if i == 0 {
			selfID = w.n.TraceIDs(w.n.Self, 1, "c20-local-")[0]
			peerID = w.n.TraceIDs(w.n.Peers[0], 1, "c20-peer-")[0]
		}
		pool <- w
	}

	// ---- jobs: (path, dest, memo) × chunks of ≤ chunk payload shapes
	const chunk = 200
	type job struct {
		path, dest, memo int
		specs            []spec
		base             int64 // ordinal of the first case (for deterministic replay choice)
		sample           bool  // record one case of this job in the evidence
	}
	var jobs []job
	var total int64
	specCache := map[[2]string][]spec{}
	for pi, path := range paths {
		jsonPath := strings.HasPrefix(path, "json")
		for di, dest := range dests {
			k := [2]string{dest, fmt.Sprint(jsonPath)}
			if _, ok := specCache[k]; !ok {
				specCache[k] = specsFor(dest, jsonPath, vals, maxKeys)
			}
			ss := specCache[k]
			for mi := range memos {
				for lo := 0; lo < len(ss); lo += chunk {
					hi := lo + chunk
					if hi > len(ss) {
						hi = len(ss)
					}
					jobs = append(jobs, job{pi, di, mi, ss[lo:hi], total, lo == 0 && di == 2 && mi == 0})
					total += int64(hi - lo)
				}
			}
		}
	}

	var mu sync.Mutex
	found := map[string]finding{}
	harness := ""
	report := func(sig string, order int64, what string, rep any) {
		mu.Lock()
		if f, ok := found[sig]; !ok || order < f.order {
			found[sig] = finding{order, what, rep}
		}
		mu.Unlock()
	}

	enumx.Each(r, "payloads", []int{len(jobs)}, workers, func(idx []int) {
		w := <-pool
		defer func() { pool <- w }()
		jb := jobs[idx[0]]
		path, dest, memo := paths[jb.path], dests[jb.dest], memos[jb.memo]
		jsonPath := strings.HasPrefix(path, "json")
		r.Add("evaluations", int64(len(jb.specs)-1))
		ds := "ds-" + memo
		traceID := ""
		switch dest {
		case "peer":
			traceID = peerID
		case "local":
			traceID = selfID
			w.rc.Reset()
		}
		cases := make([][]clientField, len(jb.specs))
		evs := make([]codec.Event, len(jb.specs))
		for i, s := range jb.specs {
			cases[i] = s.fields(vals, dest, traceID, i)
			for _, cf := range cases[i] {
				evs[i].Data = append(evs[i].Data, cf.f)
			}
		}
		ct := codec.CTMsgpack
		if jsonPath {
			ct = codec.CTJSON
		}
		accepted := make([]bool, len(evs))
		rejected := make([]string, len(evs))
		if strings.HasSuffix(path, "-batch") {
			resp := w.n.Do(pipeline.Incoming, codec.Batch(ds, apiKey, ct, evs...))
			st := resp.BatchStatuses()
			if resp.Status == 200 && len(st) == len(evs) {
				for i, x := range st {
					accepted[i] = x == 202
					if !accepted[i] {
						rejected[i] = fmt.Sprintf("batch member status %d", x)
					}
				}
			} else { // the whole request was refused: find out which members Refinery refuses
				for i := range evs {
					resp := w.n.Do(pipeline.Incoming, codec.Batch(ds, apiKey, ct, evs[i]))
					st := resp.BatchStatuses()
					accepted[i] = resp.Status == 200 && len(st) == 1 && st[0] == 202
					if !accepted[i] {
						rejected[i] = fmt.Sprintf("HTTP %d %s", resp.Status, trunc(string(resp.Body), 120))
					}
				}
			}
		} else {
			for i := range evs {
				resp := w.n.Do(pipeline.Incoming, codec.SingleEvent(ds, apiKey, ct, evs[i]))
				accepted[i] = resp.Status == 200
				if !accepted[i] {
					rejected[i] = fmt.Sprintf("HTTP %d %s", resp.Status, trunc(string(resp.Body), 120))
				}
			}
		}
		if dest == "local" {
			w.rc.Decide()
			w.rc.Send()
		}
		w.n.Flush()
		sent := w.n.Sent()
		problems := w.n.DecodeProblems()
		w.n.Net.Reset()

		where := func(i int) map[string]any {
			s := jb.specs[i]
			var ks, vs []string
			for _, cf := range cases[i] {
				ks = append(ks, fmt.Sprintf("%q", cf.f.Key))
				vs = append(vs, cf.f.Val.Wire())
			}
			fk := keyClasses[s.keys[s.focus]].Name
			return map[string]any{"path": path, "destination": dest, "dataset": ds, "sampling_key_field": memo, "keys_in_wire_order": ks, "values(wire)": vs,
				"focus_key_class": fk, "trace_id": traceID}
		}
		if len(problems) > 0 {
			report("undecodable-output|path="+path+"|dest="+dest, jb.base, "a request Refinery sent could not be decoded: "+strings.Join(problems, "; "), where(0))
			return
		}
		// index what left the node by marker
		byCase := map[int][]pipeline.Sent{}
		for _, s := range sent {
			m, ok := s.Event.Field(markerKey)
			if n, isNum := numOf(m); ok && isNum && n == math.Trunc(n) && n >= 0 && int(n) < len(evs) {
				byCase[int(n)] = append(byCase[int(n)], s)
			} else {
				report("unattributable-output|path="+path+"|dest="+dest, jb.base, "an event left the node without a usable marker field: "+s.Event.Data.Canon(), where(0))
			}
		}
		wantDest, wantBase := "upstream", w.n.Upstream
		if dest == "peer" {
			wantDest, wantBase = "peer", w.n.Peers[0]
		}
		for i, s := range jb.specs {
			order := jb.base + int64(i)
			focusClass := keyClasses[s.keys[s.focus]]
			focusVal := "trace-id-string"
			focusFam := "str"
			if !(s.keys[s.focus] == idKeyIdx && dest != "none") {
				focusVal, focusFam = vals[s.val].Name, vals[s.val].Family
			}
			if !accepted[i] {
				r.Distinct("rejected_by_refinery(not forwarded, not judged)", path+"|"+focusClass.Name+"|"+focusFam+"|"+rejected[i])
				r.Add("cases_rejected_at_ingest", 1)
				continue
			}
			r.Distinct("distinct_nontrivial", path+"|"+dest+"|"+memo+"|"+focusClass.Name+"|"+focusVal)
			got := byCase[i]
			tag := fmt.Sprintf("path=%s|key=%s|value=%s", path, focusClass.Name, focusFam)
			if len(got) != 1 {
				rep := where(i)
				rep["copies_forwarded"] = len(got)
				kind := "event-not-forwarded"
				if len(got) > 1 {
					kind = "event-forwarded-more-than-once"
				}
				report(kind+"|"+tag+"|dest="+dest, order, fmt.Sprintf("accepted event left the node %d times (expected once, to %s)", len(got), wantDest), rep)
				continue
			}
			g := got[0]
			if g.Dest != wantDest || g.BaseURL != wantBase {
				report("wrong-destination|"+tag+"|dest="+dest, order, fmt.Sprintf("event went to %s %s, expected %s %s", g.Dest, g.BaseURL, wantDest, wantBase), where(i))
				continue
			}
			r.Add("forwarded_events_compared", 1)
			// every client field exactly once, value equal in kind class and exact value
			count := map[string]int{}
			first := map[string]codec.Value{}
			badKey := ""
			for _, kv := range g.Event.Data.Map {
				if kv.K.Kind != codec.KStr && kv.K.Kind != codec.KBin {
					badKey = kv.K.Canon()
					continue
				}
				if _, ok := first[kv.K.S]; !ok {
					first[kv.K.S] = kv.V
				}
				count[kv.K.S]++
			}
			bad := false
			fail := func(kind string, cf clientField, what string) {
				if !bad {
					bad = true
					r.Add("violating_cases", 1)
				}
				cls := "marker"
				fam := "int"
				if cf.class >= 0 {
					cls = keyClasses[cf.class].Name
					fam = "default"
					if cf.f.Key == focusClass.Key {
						fam = focusFam
					}
				}
				rep := where(i)
				rep["forwarded_payload(keys sorted)"] = wireSorted(g.Event.Data)
				rep["forwarded_to"] = g.Dest
				report(fmt.Sprintf("%s|path=%s|key=%s|value=%s", kind, path, cls, fam), order, what+fmt.Sprintf(" [path %s, destination %s, %s]", path, dest, memo), rep)
			}
			if badKey != "" {
				fail("non-string-key-forwarded", cases[i][s.focus], "forwarded payload has a key that is neither str nor bin: "+badKey)
			}
			client := map[string]bool{}
			for _, cf := range cases[i] {
				client[cf.f.Key] = true
				want := expected(cf.f.Val, jsonPath)
				switch {
				case count[cf.f.Key] == 0:
					fail("field-lost", cf, fmt.Sprintf("client field %q = %s is missing from the forwarded payload", cf.f.Key, cf.f.Val.Wire()))
				case count[cf.f.Key] > 1:
					fail("field-duplicated", cf, fmt.Sprintf("client field %q appears %d times in the forwarded payload", cf.f.Key, count[cf.f.Key]))
				case first[cf.f.Key].Canon() != want.Canon():
					gv := first[cf.f.Key]
					kind := "field-altered"
					if gv.Kind != want.Kind && !(isInt(gv) && isInt(want)) && !(isFloat(gv) && isFloat(want)) {
						kind = "field-type-altered(" + describeKind(want) + "->" + describeKind(gv) + ")"
					}
					fail(kind, cf, fmt.Sprintf("client field %q sent as %s was forwarded as %s (expected %s)", cf.f.Key, cf.f.Val.Wire(), wireSorted(gv), want.Canon()))
				}
			}
			var extra []string
			for k := range count {
				if !client[k] && !reserved[k] && k != addedAttr {
					extra = append(extra, k)
				}
			}
			sort.Strings(extra)
			if len(extra) > 0 {
				fail("field-added", cases[i][s.focus], fmt.Sprintf("forwarded payload has field(s) %q the client did not send and that are neither reserved metadata nor configured attributes", extra))
			}
			// where the configured attribute is added is C06's subject; if it is there it must be the configured value
			if v, ok := first[addedAttr]; ok && !client[addedAttr] && (v.Kind != codec.KStr || v.S != addedAttrVal) {
				fail("configured-attribute-wrong", cases[i][s.focus], fmt.Sprintf("configured attribute %s forwarded as %s on destination %s", addedAttr, wireSorted(v), dest))
			}
		}
		if jb.sample && len(jb.specs) > 3 {
			r.Sample(map[string]any{"case": where(3), "forwarded": byCaseWire(byCase[3])})
		}
	})
	for i := 0; i < workers; i++ {
		w := <-pool
		w.rc.Close()
		w.n.Close()
	}
	if harness != "" {
		ev.Harness("%s", harness)
	}
	sigs := make([]string, 0, len(found))
	for s := range found {
		sigs = append(sigs, s)
	}
	sort.Strings(sigs)
	for _, s := range sigs {
		r.Violation(s, found[s].what, found[s].rep)
	}
	var vnames []string
	for _, v := range vals {
		vnames = append(vnames, v.Name)
	}
	var knames []string
	for _, k := range keyClasses {
		knames = append(knames, fmt.Sprintf("%s=%q", k.Name, k.Key))
	}
	r.Add("violating_cases", 0)
	r.Set("payload_shapes_total", total)
	r.Set("jobs", len(jobs))
	r.Set("rule", "for every accepted payload: decoded forwarded payload ⊇ client fields, each exactly once, Canon(value) == Canon(expected(value, path)); forwarded keys \\ client keys ⊆ reserved meta.* names ∪ configured attribute; forwarded exactly once to the prescribed destination")
	r.Set("bounds", map[string]any{"key_classes": knames, "max_client_keys": maxKeys, "values": vnames, "paths": paths, "destinations": dests, "sampling_key": memos,
		"shape": "every subset (≤ max) × every order × every focus position × every value for the focus field; non-focus fields hold a typed default"})
	r.Assume("key identity is the key's bytes: a key the client sent as msgpack bin may be forwarded as str with the same bytes (Honeycomb field names are strings); a VALUE sent as bin must stay bin")
	r.Assume("one focus field sweeps the value alphabet while the other (≤ 3) fields hold one typed default each — all subsets/orders/positions, not the full value product")
	r.Assume("the marker field case_no is a client field like any other (int on msgpack paths, float after JSON ingestion) and is verified the same way")
	r.Assume("events Refinery refuses at ingest (non-202) are not 'forwarded events' and are only counted (coverage key cases_rejected_at_ingest)")
	r.Assume("destination 'local': real InMemCollector in handler mode (fix/nodecoll), sampler keeps everything (dynamic goal rate 1 / deterministic 1), AddRuleReasonToTrace and one AdditionalAttributes entry configured; 200 root spans share one trace per job")
	r.Assume("JSON ingestion: expected number = float64 nearest to the decimal text (= float64(int)); nested values likewise")
	r.Finish()
}

// wireSorted renders a value with its wire formats but maps in key order: Refinery re-encodes memoised maps in
// Go-map order, so the raw wire order differs from run to run (never compared, and kept out of the replays).
func wireSorted(v codec.Value) string { return sortedCopy(v).Wire() }

func sortedCopy(v codec.Value) codec.Value {
	switch v.Kind {
	case codec.KArr:
		out := v
		out.Arr = make([]codec.Value, len(v.Arr))
		for i, e := range v.Arr {
			out.Arr[i] = sortedCopy(e)
		}
		return out
	case codec.KMap:
		out := v
		out.Map = make([]codec.KV, len(v.Map))
		for i, kv := range v.Map {
			out.Map[i] = codec.KV{K: kv.K, V: sortedCopy(kv.V)}
		}
		sort.SliceStable(out.Map, func(a, b int) bool { return out.Map[a].K.Canon() < out.Map[b].K.Canon() })
		return out
	}
	return v
}

func isInt(v codec.Value) bool   { return v.Kind == codec.KInt || v.Kind == codec.KUint }
func isFloat(v codec.Value) bool { return v.Kind == codec.KF32 || v.Kind == codec.KF64 }

func byCaseWire(s []pipeline.Sent) []string {
	var out []string
	for _, x := range s {
		out = append(out, x.Dest+": "+wireSorted(x.Event.Data))
	}
	return out
}

func trunc(s string, n int) string {
	if len(s) > n {
		return s[:n] + "…"
	}
	return s
}
