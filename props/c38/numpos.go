// C38, part "numbers at every structural position, in every input format".
//
// The statement is quantified over all valid v1 files; the converter accepts the same v1 content as TOML, YAML or
// JSON (tools/convert/main.go load). The three decoders deliver numbers differently (TOML int64/float64, YAML
// int/float64, JSON after post-processing), and the conversion code is type-sensitive (seconds -> Duration only for
// integers, formatting of integers, ...). So this part enumerates v1 RULES documents whose numbers sit at every
// structural position the v1 rules format has
//
//	top-level map                                  SampleRate, GoalSampleRate, ClearFrequencySec, Weight ...   (default sampler)
//	map below a map                                the same below a dataset section
//	map in a LIST (rule[i])                        rule[i].SampleRate                       i = 0 .. nRules-1
//	map in a list in a map in a LIST               rule[i].condition[j].value (int, float)  j = 0 .. 1
//	map in a map in a map in a LIST                rule[i].sampler.<Type>.<numeric field>   (downstream samplers)
//	(each of them once more below a dataset section)
//
// renders EACH document in TOML, YAML and JSON, converts each rendering with the real converter, loads each result
// with the real v2 loader/validator and compares every setting of the v1 document (numbers, and the strings/lists
// next to them) with the effective v2 value. All three renderings of one v1 document must therefore produce a v2
// file, pass validation and carry the v1 values - i.e. convert to the same v2 result.
package main

import (
	"fmt"
	"os"
	"path/filepath"
	"reflect"
	"strconv"
	"strings"
	"sync"

	"verif/engine/ev"
)

var numFormats = []string{"toml", "yaml", "json"}

// rule kinds: one v1 rule table each; the numbers depend on the rule's index i so that every position of a document
// holds a different number (a value that ends up at another rule / another field is noticed)
var numRuleKinds = []string{"rate-int", "rate-float", "conds2", "dynamic", "ema", "throughput", "nocond"}

// sampler-level documents (numbers reached through maps only; ClearFrequencySec = the integer-seconds v1 spelling)
var numTopSamplers = []string{"DeterministicSampler", "DynamicSampler", "EMADynamicSampler", "TotalThroughputSampler"}

type numCase struct {
	Kind  string   `json:"kind"`            // always "numpos"
	Place string   `json:"place"`           // default | dataset
	Top   string   `json:"sampler"`         // RulesBasedSampler or one of numTopSamplers
	Rules []string `json:"rules,omitempty"` // rule kinds in list order (RulesBasedSampler only)
}

func (k numCase) shape() string {
	if k.Top != "RulesBasedSampler" {
		return k.Place + ":" + k.Top
	}
	return k.Place + ":rules=[" + strings.Join(k.Rules, ",") + "]"
}

type npExpect struct {
	path []string // yaml names / indexes below Samplers[ds]
	want string
	pos  string // the v1 position, e.g. rule[1].sampler.DynamicSampler.ClearFrequencySec
	rel  string // the same without the rule index (for attributing a failure to the smallest failing document)
	num  bool
}

func secs(n int) string { return strconv.FormatInt(int64(n)*1e9, 10) }

// samplerNumbers returns the v1 settings of one sampler (all its numeric fields non-default) and the expectations.
func samplerNumbers(typ string, i int) (map[string]any, [][3]string) {
	fl := []string{"request.method", fmt.Sprintf("field%d", i)}
	flWant := ev.J(fl)
	switch typ {
	case "DeterministicSampler":
		return map[string]any{"Sampler": typ, "SampleRate": 11 + i},
			[][3]string{{"SampleRate", "SampleRate", strconv.Itoa(11 + i)}}
	case "DynamicSampler":
		return map[string]any{"Sampler": typ, "SampleRate": 3 + i, "ClearFrequencySec": 90 + i, "FieldList": fl},
			[][3]string{{"SampleRate", "SampleRate", strconv.Itoa(3 + i)}, {"ClearFrequencySec", "ClearFrequency", secs(90 + i)}, {"FieldList", "FieldList", flWant}}
	case "EMADynamicSampler":
		w, a, b := 0.25+0.125*float64(i), 0.75-0.125*float64(i), 3.5+float64(i)
		f := func(x float64) string { return strconv.FormatFloat(x, 'g', -1, 64) }
		return map[string]any{"Sampler": typ, "GoalSampleRate": 4 + i, "AdjustmentInterval": 20 + i, "Weight": w, "MaxKeys": 300 + i,
				"AgeOutValue": a, "BurstMultiple": b, "BurstDetectionDelay": 5 + i, "FieldList": fl},
			[][3]string{{"GoalSampleRate", "GoalSampleRate", strconv.Itoa(4 + i)}, {"AdjustmentInterval", "AdjustmentInterval", secs(20 + i)},
				{"Weight", "Weight", f(w)}, {"MaxKeys", "MaxKeys", strconv.Itoa(300 + i)}, {"AgeOutValue", "AgeOutValue", f(a)},
				{"BurstMultiple", "BurstMultiple", f(b)}, {"BurstDetectionDelay", "BurstDetectionDelay", strconv.Itoa(5 + i)}, {"FieldList", "FieldList", flWant}}
	case "TotalThroughputSampler":
		return map[string]any{"Sampler": typ, "GoalThroughputPerSec": 50 + i, "ClearFrequencySec": 40 + i, "FieldList": fl},
			[][3]string{{"GoalThroughputPerSec", "GoalThroughputPerSec", strconv.Itoa(50 + i)}, {"ClearFrequencySec", "ClearFrequency", secs(40 + i)}, {"FieldList", "FieldList", flWant}}
	}
	ev.Harness("numpos: unknown sampler type %q", typ)
	return nil, nil
}

func numRule(kind string, i int) (map[string]any, []npExpect) {
	name := fmt.Sprintf("rule %d %s", i, kind)
	rule := map[string]any{"name": name}
	ri := strconv.Itoa(i)
	base := []string{"RulesBasedSampler", "Rules", ri}
	var exps []npExpect
	add := func(rel string, num bool, want string, path ...string) {
		exps = append(exps, npExpect{path: append(append([]string{}, base...), path...), want: want, pos: "rule[" + ri + "]" + rel, rel: rel, num: num})
	}
	add(".name", false, name, "Name")
	intCond := func(j int) map[string]any {
		js := strconv.Itoa(j)
		add(".condition["+js+"].value", true, "int:"+strconv.Itoa(500+10*i+j), "Conditions", js, "Value")
		add(".condition["+js+"].field", false, "status_code", "Conditions", js, "Field")
		add(".condition["+js+"].operator", false, "=", "Conditions", js, "Operator")
		return map[string]any{"field": "status_code", "operator": "=", "value": 500 + 10*i + j}
	}
	floatCond := func(j int) map[string]any {
		js := strconv.Itoa(j)
		v := 1000.5 + float64(10*i+j)
		add(".condition["+js+"].value", true, "float64:"+strconv.FormatFloat(v, 'g', -1, 64), "Conditions", js, "Value")
		add(".condition["+js+"].field", false, "duration_ms", "Conditions", js, "Field")
		add(".condition["+js+"].operator", false, ">=", "Conditions", js, "Operator")
		return map[string]any{"field": "duration_ms", "operator": ">=", "value": v}
	}
	rate := func(n int) {
		rule["SampleRate"] = n
		add(".SampleRate", true, strconv.Itoa(n), "SampleRate")
	}
	downstream := func(typ string) {
		m, fields := samplerNumbers(typ, i)
		rule["sampler"] = map[string]any{typ: m}
		for _, f := range fields {
			add(".sampler."+typ+"."+f[0], f[0] != "FieldList", f[2], "Sampler", typ, f[1])
		}
	}
	switch kind {
	case "rate-int":
		rate(10 + i)
		rule["condition"] = []map[string]any{intCond(0)}
	case "rate-float":
		rate(20 + i)
		rule["condition"] = []map[string]any{floatCond(0)}
	case "conds2":
		rate(30 + i)
		rule["condition"] = []map[string]any{intCond(0), floatCond(1)}
	case "dynamic":
		rule["condition"] = []map[string]any{intCond(0)}
		downstream("DynamicSampler")
	case "ema":
		rule["condition"] = []map[string]any{floatCond(0)}
		downstream("EMADynamicSampler")
	case "throughput":
		rule["condition"] = []map[string]any{intCond(0), floatCond(1)}
		downstream("TotalThroughputSampler")
	case "nocond": // the catch-all rule at the end of a v1 rule list
		rate(40 + i)
	default:
		ev.Harness("numpos: unknown rule kind %q", kind)
	}
	return rule, exps
}

// numDoc builds the v1 document of a case and the expectations on the v2 sampler of its dataset.
func numDoc(k numCase) (map[string]any, string, []npExpect) {
	d := map[string]any{}
	ds := "__default__"
	target := d
	if k.Place == "dataset" {
		ds = "dataset7"
		d["Sampler"] = "DeterministicSampler" // a v1 rules file always has a default sampler
		d["SampleRate"] = 1
		target = map[string]any{}
		d[ds] = target
	}
	var exps []npExpect
	if k.Top != "RulesBasedSampler" {
		m, fields := samplerNumbers(k.Top, 0)
		for kk, v := range m {
			target[kk] = v
		}
		for _, f := range fields {
			exps = append(exps, npExpect{path: []string{k.Top, f[1]}, want: f[2], pos: k.Top + "." + f[0], rel: k.Top + "." + f[0], num: f[0] != "FieldList"})
		}
		return d, ds, exps
	}
	target["Sampler"] = "RulesBasedSampler"
	var rules []map[string]any
	for i, kind := range k.Rules {
		r, e := numRule(kind, i)
		rules = append(rules, r)
		exps = append(exps, e...)
	}
	target["rule"] = rules
	// the list must not gain or lose elements
	exps = append(exps, npExpect{path: []string{"RulesBasedSampler", "Rules", "#len"}, want: strconv.Itoa(len(rules)), pos: "rule[]:number-of-rules", rel: "rule[]:number-of-rules"})
	return d, ds, exps
}

func lookupPath(root any, path []string) (string, bool) {
	v := reflect.ValueOf(root)
	for _, p := range path {
		for v.Kind() == reflect.Ptr && !v.IsNil() {
			v = v.Elem()
		}
		if p == "#len" && v.Kind() == reflect.Slice {
			return strconv.Itoa(v.Len()), true
		}
		if i, err := strconv.Atoi(p); err == nil && v.Kind() == reflect.Slice {
			if i >= v.Len() {
				return "<absent>", false
			}
			v = v.Index(i)
			continue
		}
		var ok bool
		v, ok = fieldByYAML(v, p)
		if !ok {
			return "<absent>", false
		}
	}
	got := norm(v)
	if strings.HasPrefix(got, "int64:") { // a whole number read back from YAML is an int whatever its width
		got = "int:" + strings.TrimPrefix(got, "int64:")
	}
	return got, true
}

type numFmtResult struct {
	clause string // "" = every v1 setting preserved; no-v2-file | v2-validation-rejects-output | value-not-preserved
	pos    string // failing position (value-not-preserved)
	rel    string
	what   string
	dump   string // canonical form of the whole converted sampler (successful conversions)
}

type numOutcome struct {
	res     [3]numFmtResult
	agree   bool
	nontriv []string
}

func evalNumFormat(k numCase, format string) (numFmtResult, []string) {
	dir := filepath.Join(workRoot, fmt.Sprintf("n%d", caseSeq.Add(1)))
	os.MkdirAll(dir, 0o755)
	defer os.RemoveAll(dir)
	d, ds, exps := numDoc(k)
	body := render(format, d)
	input := fmt.Sprintf("v1 %s rules file:\n%s", format, body)
	res := convert(dir, "rules", format, body)
	if res.Exit != 0 || res.Out == "" {
		return numFmtResult{clause: "no-v2-file", what: fmt.Sprintf("the converter produced no v2 file for a valid v1 rules file (exit %d, stderr %q); %s", res.Exit, trunc(res.Stderr, 300), input)}, nil
	}
	rc, err := loadRules(dir, res.Out)
	if rc == nil {
		return numFmtResult{clause: "v2-validation-rejects-output", what: fmt.Sprintf("converted rules do not load as v2 rules: %s; %s\nconverted:\n%s", trunc(oneLine(err), 400), input, trunc(res.Out, 600))}, nil
	}
	choice := rc.Samplers[ds]
	if choice == nil {
		return numFmtResult{clause: "value-not-preserved", pos: "sampler-of-" + ds, rel: "sampler-of-" + ds, what: fmt.Sprintf("converted rules have no sampler for %s; %s", ds, input)}, nil
	}
	var nontriv []string
	for _, e := range exps {
		got, _ := lookupPath(choice, e.path)
		if got != e.want {
			return numFmtResult{clause: "value-not-preserved", pos: e.pos, rel: e.rel,
				what: fmt.Sprintf("v1 %s (%s): effective v2 %s is %s, expected %s; %s\nconverted:\n%s", e.pos, k.shape(), strings.Join(e.path, "."), got, e.want, input, trunc(res.Out, 900))}, nil
		}
		if e.num {
			nontriv = append(nontriv, "numpos|"+k.Place+"|"+strings.Join(k.Rules, ",")+k.Top+"|"+e.pos+"|"+format)
		}
	}
	return numFmtResult{dump: ev.J(choice)}, nontriv
}

func evalNum(k numCase) numOutcome {
	var o numOutcome
	var nt [3][]string
	var wg sync.WaitGroup
	for fi, f := range numFormats {
		wg.Add(1)
		go func() {
			defer wg.Done()
			o.res[fi], nt[fi] = evalNumFormat(k, f)
		}()
	}
	wg.Wait()
	o.agree = true
	for fi := range numFormats {
		o.nontriv = append(o.nontriv, nt[fi]...)
		if o.res[fi].clause != "" || o.res[fi].dump != o.res[0].dump {
			o.agree = false
		}
	}
	return o
}

// the rule kinds that together hold a number at every position (rate-int, rate-float and nocond are sub-shapes of conds2)
var numCompositeKinds = []string{"conds2", "dynamic", "ema", "throughput"}

func kindLists(kinds []string, n int) [][]string {
	cur := [][]string{{}}
	for ; n > 0; n-- {
		var next [][]string
		for _, l := range cur {
			for _, kd := range kinds {
				next = append(next, append(append([]string{}, l...), kd))
			}
		}
		cur = next
	}
	return cur
}

// numCases lists the documents, simplest first: every sampler-level document at both placements, and rule lists, each
// a full product of an alphabet of rule kinds:
//
//	quick:    1 rule (all kinds) at both placements; 2 rules (composite kinds) as the default sampler
//	thorough: 1 and 2 rules (all kinds) at both placements; 3 rules (composite kinds) as the default sampler
func numCases(thorough bool) ([]numCase, map[string]any) {
	var out []numCase
	places := []string{"default", "dataset"}
	for _, p := range places {
		for _, t := range numTopSamplers {
			out = append(out, numCase{Kind: "numpos", Place: p, Top: t})
		}
	}
	addLists := func(lists [][]string, ps ...string) {
		for _, l := range lists {
			for _, p := range ps {
				out = append(out, numCase{Kind: "numpos", Place: p, Top: "RulesBasedSampler", Rules: l})
			}
		}
	}
	addLists(kindLists(numRuleKinds, 1), places...)
	if !thorough {
		addLists(kindLists(numCompositeKinds, 2), "default")
		return out, map[string]any{"1_rule": "every rule kind, default and dataset sampler", "2_rules": "full product of the composite kinds, default sampler", "composite_kinds": numCompositeKinds}
	}
	addLists(kindLists(numRuleKinds, 2), places...)
	addLists(kindLists(numCompositeKinds, 3), "default")
	return out, map[string]any{"1_rule": "every rule kind, default and dataset sampler", "2_rules": "full product of all rule kinds, default and dataset sampler",
		"3_rules": "full product of the composite kinds, default sampler", "composite_kinds": numCompositeKinds}
}

type numViolation struct {
	sig, what string
}

// numSignatures turns the outcome of a case into violations (one per failing clause/position, naming the formats that
// fail). A failure of a multi-rule document that a one-rule document with one of its rule kinds shows as well is
// attributed to (gets the signature of) that smaller document.
func numSignatures(k numCase, o numOutcome, single func(place, kind string) *numOutcome) []numViolation {
	type key struct{ clause, where string }
	var order []key
	fails := map[key][]string{}
	what := map[key]string{}
	for fi, f := range numFormats {
		r := o.res[fi]
		if r.clause == "" {
			continue
		}
		where := k.shape()
		if r.clause == "value-not-preserved" {
			where = k.Place + ":" + r.pos
		}
		if k.Top == "RulesBasedSampler" && len(k.Rules) > 1 {
			for _, kd := range k.Rules {
				s := single(k.Place, kd)
				if s == nil {
					continue
				}
				sr := s.res[fi]
				if sr.clause != r.clause {
					continue
				}
				if r.clause == "value-not-preserved" {
					if sr.rel != r.rel || !strings.HasPrefix(r.pos, "rule[") {
						continue
					}
					where = k.Place + ":" + sr.pos
				} else {
					where = numCase{Place: k.Place, Top: k.Top, Rules: []string{kd}}.shape()
				}
				break
			}
		}
		kk := key{r.clause, where}
		if _, seen := fails[kk]; !seen {
			order = append(order, kk)
			what[kk] = r.what
		}
		fails[kk] = append(fails[kk], f)
	}
	var out []numViolation
	for _, kk := range order {
		other := "the other renderings of the same v1 document convert correctly"
		if len(fails[kk]) == len(numFormats) {
			other = "all three renderings fail"
		}
		out = append(out, numViolation{
			sig:  fmt.Sprintf("rules:numpos:%s:fails-in=%s:%s", kk.clause, strings.Join(fails[kk], "+"), kk.where),
			what: fmt.Sprintf("[%s; %s] %s", k.shape(), other, what[kk]),
		})
	}
	return out
}
