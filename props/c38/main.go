// C38: the v1 -> v2 config converter (tools/convert) preserves valid v1 settings.
//
// Engine E2 (enumx). The REAL converter is rebuilt from /repo's current tree at check time
// (`go build -overlay $VERIF_WORK/ov/overlay.json ./tools/convert`, so mutants / fixes applied by ./vmutate are
// what runs) and executed as a subprocess on generated v1 files. Its output is loaded with the REAL v2 loader and
// validator (config.NewConfig) and the effective v2 values are compared with the v1 values.
//
// The v1 side is a table of the settings of the v1 reference files shipped in the repository
// (config_complete.1.x.toml, rules_complete.1.x.toml = the v1 user documentation) that still exist in v2, each with
// one non-default value. The converter's metadata (config/metadata/configMeta.yaml v1group/v1name) is only used to
// say, in the violation signature, whether the converter claims to read that v1 name.
package main

import (
	"encoding/json"
	"fmt"
	"os"
	"os/exec"
	"path/filepath"
	"reflect"
	"sort"
	"strconv"
	"strings"
	"sync"
	"sync/atomic"
	"time"

	"github.com/honeycombio/refinery/config"

	"verif/engine/enumx"
	"verif/engine/ev"
)

// ---------------------------------------------------------------------------------------------
// v1 config settings (from config_complete.1.x.toml) that still exist in v2

type setting struct {
	Section string // "" = top level
	Key     string
	Kind    string // str | int | bool | dur (duration text) | bytes (int bytes -> memory size) | list
	V2      string // Group.Field of the v2 setting holding the same thing
	Val     any    // a valid non-default value
	Want    string // expected effective v2 value in canonical form ("" = derive from Val)
	With    []int  // (filled in) indexes of settings that must accompany this one to be valid
	WithKey []string
}

func (s setting) name() string {
	if s.Section == "" {
		return s.Key
	}
	return s.Section + "." + s.Key
}

const hexKey = "abcdef0123456789abcdef0123456789"

var settings = []setting{
	{"", "ListenAddr", "str", "Network.ListenAddr", "0.0.0.0:9080", "", nil, nil},
	{"", "GRPCListenAddr", "str", "GRPCServerParameters.ListenAddr", "0.0.0.0:9191", "", nil, nil},
	{"", "PeerListenAddr", "str", "Network.PeerListenAddr", "0.0.0.0:9081", "", nil, nil},
	{"", "CompressPeerCommunication", "bool", "Specialized.CompressPeerCommunication", false, "", nil, nil},
	{"", "APIKeys", "list", "AccessKeys.ReceiveKeys", []string{hexKey, "1234567890abcdef1234567890abcdef"}, "", nil, nil},
	{"", "HoneycombAPI", "str", "Network.HoneycombAPI", "https://api.eu1.honeycomb.io", "", nil, nil},
	{"", "SendDelay", "dur", "Traces.SendDelay", "3s", "", nil, nil},
	{"", "BatchTimeout", "dur", "Traces.BatchTimeout", "2s", "", nil, nil},
	{"", "TraceTimeout", "dur", "Traces.TraceTimeout", "90s", "", nil, nil},
	{"", "MaxBatchSize", "int", "Traces.MaxBatchSize", 600, "", nil, nil},
	{"", "SendTicker", "dur", "Traces.SendTicker", "200ms", "", nil, nil},
	{"", "LoggingLevel", "str", "Logger.Level", "info", "", nil, nil},
	{"", "DebugServiceAddr", "str", "Debugging.DebugServiceAddr", "localhost:8085", "", nil, nil},
	{"", "AddHostMetadataToTrace", "bool", "RefineryTelemetry.AddHostMetadataToTrace", true, "", nil, nil},
	{"", "EnvironmentCacheTTL", "dur", "Specialized.EnvironmentCacheTTL", "2h", "", nil, nil},
	{"", "QueryAuthToken", "str", "Debugging.QueryAuthToken", "somerandomvalue", "", nil, nil},
	{"", "AddRuleReasonToTrace", "bool", "RefineryTelemetry.AddRuleReasonToTrace", true, "", nil, nil},
	{"", "AdditionalErrorFields", "list", "Debugging.AdditionalErrorFields", []string{"trace.span_id", "service.name"}, "", nil, nil},
	{"", "AddSpanCountToRoot", "bool", "RefineryTelemetry.AddSpanCountToRoot", true, "", nil, nil},
	{"", "TraceIdFieldNames", "list", "IDFields.TraceNames", []string{"my.trace_id", "traceId"}, "", nil, nil},
	{"", "ParentIdFieldNames", "list", "IDFields.ParentNames", []string{"my.parent_id", "parentId"}, "", nil, nil},
	{"", "Logger", "str", "Logger.Type", "honeycomb", "", nil, []string{"HoneycombLogger.LoggerAPIKey"}},
	{"", "Metrics", "str", "PrometheusMetrics.Enabled", "prometheus", "true", nil, nil},

	{"PeerManagement", "Type", "str", "PeerManagement.Type", "redis", "", nil, nil},
	{"PeerManagement", "Peers", "list", "PeerManagement.Peers", []string{"http://10.1.2.3:8081", "http://refinery-1231:8081"}, "", nil, nil},
	{"PeerManagement", "RedisHost", "str", "RedisPeerManagement.Host", "redis.internal:6379", "", nil, nil},
	{"PeerManagement", "RedisUsername", "str", "RedisPeerManagement.Username", "refineryuser", "", nil, nil},
	{"PeerManagement", "RedisPassword", "str", "RedisPeerManagement.Password", "s3cretpassw0rd", "", nil, nil},
	{"PeerManagement", "UseTLS", "bool", "RedisPeerManagement.UseTLS", true, "", nil, nil},
	{"PeerManagement", "UseTLSInsecure", "bool", "RedisPeerManagement.UseTLSInsecure", true, "", nil, nil},
	{"PeerManagement", "IdentifierInterfaceName", "str", "PeerManagement.IdentifierInterfaceName", "eth0", "", nil, nil},
	{"PeerManagement", "UseIPV6Identifier", "bool", "PeerManagement.UseIPV6Identifier", true, "", nil, nil},
	{"PeerManagement", "RedisIdentifier", "str", "PeerManagement.Identifier", "192.168.1.1", "", nil, nil},
	{"PeerManagement", "Timeout", "dur", "RedisPeerManagement.Timeout", "8s", "", nil, nil},

	{"InMemCollector", "MaxAlloc", "bytes", "Collection.MaxAlloc", 3 << 30, "", nil, nil},

	{"HoneycombLogger", "LoggerHoneycombAPI", "str", "HoneycombLogger.APIHost", "https://api.eu1.honeycomb.io", "", nil, nil},
	{"HoneycombLogger", "LoggerAPIKey", "str", "HoneycombLogger.APIKey", hexKey, "", nil, nil},
	{"HoneycombLogger", "LoggerDataset", "str", "HoneycombLogger.Dataset", "My Refinery Logs", "", nil, nil},
	{"HoneycombLogger", "LoggerSamplerEnabled", "bool", "HoneycombLogger.SamplerEnabled", false, "", nil, nil},
	{"HoneycombLogger", "LoggerSamplerThroughput", "int", "HoneycombLogger.SamplerThroughput", 25, "", nil, nil},

	{"PrometheusMetrics", "MetricsListenAddr", "str", "PrometheusMetrics.ListenAddr", "localhost:2999", "", nil, nil},

	{"GRPCServerParameters", "MaxConnectionIdle", "dur", "GRPCServerParameters.MaxConnectionIdle", "2m", "", nil, nil},
	{"GRPCServerParameters", "MaxConnectionAge", "dur", "GRPCServerParameters.MaxConnectionAge", "5m", "", nil, nil},
	{"GRPCServerParameters", "MaxConnectionAgeGrace", "dur", "GRPCServerParameters.MaxConnectionAgeGrace", "2m", "", nil, nil},
	{"GRPCServerParameters", "Time", "dur", "GRPCServerParameters.KeepAlive", "10s", "", nil, nil},
	{"GRPCServerParameters", "Timeout", "dur", "GRPCServerParameters.KeepAliveTimeout", "2s", "", nil, nil},

	{"SampleCacheConfig", "KeptSize", "int", "SampleCache.KeptSize", 20000, "", nil, nil},
	{"SampleCacheConfig", "DroppedSize", "int", "SampleCache.DroppedSize", 2000000, "", nil, nil},
	{"SampleCacheConfig", "SizeCheckInterval", "dur", "SampleCache.SizeCheckInterval", "20s", "", nil, nil},
	// the alternative v1 spelling of the same group (configMeta.yaml: v1group SampleCacheConfig/SampleCache — v1 documented
	// one name and read the other), so every alternative group name the converter claims to read is exercised.
	// v1 (viper) read [SampleCache] and ignored an additional [SampleCacheConfig] table, so a file carrying both tables with
	// different keys is a valid v1 file whose [SampleCache] values were the effective ones (thorough pairs; FINDING.md defect E)
	{"SampleCache", "KeptSize", "int", "SampleCache.KeptSize", 30000, "", nil, nil},
	{"SampleCache", "DroppedSize", "int", "SampleCache.DroppedSize", 3000000, "", nil, nil},
	{"SampleCache", "SizeCheckInterval", "dur", "SampleCache.SizeCheckInterval", "30s", "", nil, nil},

	{"StressRelief", "Mode", "str", "StressRelief.Mode", "monitor", "", nil, nil},
	{"StressRelief", "ActivationLevel", "int", "StressRelief.ActivationLevel", 80, "", nil, nil},
	{"StressRelief", "DeactivationLevel", "int", "StressRelief.DeactivationLevel", 30, "", nil, nil},
	{"StressRelief", "StressSamplingRate", "int", "StressRelief.SamplingRate", 250, "", nil, nil},
	{"StressRelief", "MinimumActivationDuration", "dur", "StressRelief.MinimumActivationDuration", "25s", "", nil, nil},
}

// a v1 setting that is deprecated/removed in v2 but present in practically every v1 file
var deprecatedExtra = setting{Section: "InMemCollector", Key: "CacheCapacity", Kind: "int", Val: 2000}

func (s setting) want() string {
	if s.Want != "" {
		return s.Want
	}
	switch s.Kind {
	case "dur":
		d, err := time.ParseDuration(s.Val.(string))
		if err != nil {
			ev.Harness("bad duration in table: %v", s.Val)
		}
		return strconv.FormatInt(int64(d), 10)
	case "list":
		return ev.J(s.Val)
	}
	return fmt.Sprint(s.Val)
}

// ---------------------------------------------------------------------------------------------
// rendering v1 files

type doc map[string]any // top-level keys; sections are map[string]any values

func (d doc) put(s setting) {
	if s.Section == "" {
		d[s.Key] = s.Val
		return
	}
	sec, _ := d[s.Section].(map[string]any)
	if sec == nil {
		sec = map[string]any{}
		d[s.Section] = sec
	}
	sec[s.Key] = s.Val
}

func sortedKeys(m map[string]any) []string {
	var ks []string
	for k := range m {
		ks = append(ks, k)
	}
	sort.Strings(ks)
	return ks
}

// TOML: scalars and arrays at top level first, then tables (recursively), arrays of tables as [[a.b]].
func tomlRender(b *strings.Builder, prefix string, m map[string]any) {
	for _, k := range sortedKeys(m) {
		switch v := m[k].(type) {
		case map[string]any, []map[string]any:
			_ = v
		default:
			fmt.Fprintf(b, "%s = %s\n", k, ev.J(m[k]))
		}
	}
	for _, k := range sortedKeys(m) {
		switch v := m[k].(type) {
		case map[string]any:
			fmt.Fprintf(b, "\n[%s%s]\n", prefix, tomlKey(k))
			tomlRender(b, prefix+tomlKey(k)+".", v)
		case []map[string]any:
			for _, e := range v {
				fmt.Fprintf(b, "\n[[%s%s]]\n", prefix, tomlKey(k))
				tomlRender(b, prefix+tomlKey(k)+".", e)
			}
		}
	}
}

func tomlKey(k string) string {
	for _, c := range k {
		if !(c >= 'a' && c <= 'z' || c >= 'A' && c <= 'Z' || c >= '0' && c <= '9' || c == '_' || c == '-') {
			return ev.J(k)
		}
	}
	return k
}

func render(format string, d map[string]any) string {
	switch format {
	case "toml":
		var b strings.Builder
		tomlRender(&b, "", d)
		return b.String()
	case "json":
		return ev.J(d) + "\n"
	}
	// YAML: block mappings for nesting, JSON flow for leaves
	var b strings.Builder
	var rec func(ind string, m map[string]any)
	rec = func(ind string, m map[string]any) {
		for _, k := range sortedKeys(m) {
			switch v := m[k].(type) {
			case map[string]any:
				fmt.Fprintf(&b, "%s%s:\n", ind, ev.J(k))
				rec(ind+"  ", v)
			case []map[string]any:
				fmt.Fprintf(&b, "%s%s:\n", ind, ev.J(k))
				for _, e := range v {
					fmt.Fprintf(&b, "%s  -\n", ind)
					rec(ind+"    ", e)
				}
			default:
				fmt.Fprintf(&b, "%s%s: %s\n", ind, ev.J(k), ev.J(m[k]))
			}
		}
	}
	rec("", d)
	return b.String()
}

// ---------------------------------------------------------------------------------------------
// the real converter and the real v2 loader

var converterBin string
var workRoot string
var caseSeq atomic.Int64

func buildConverter() {
	work := os.Getenv("VERIF_WORK")
	converterBin = filepath.Join(work, "convert.bin")
	os.Remove(converterBin)
	args := []string{"build"}
	if ov := filepath.Join(work, "ov", "overlay.json"); fileExists(ov) {
		args = append(args, "-overlay", ov)
	}
	args = append(args, "-o", converterBin, "./tools/convert")
	cmd := exec.Command("go", args...)
	cmd.Dir = "/repo"
	out, err := cmd.CombinedOutput()
	if err != nil {
		ev.Harness("cannot build the converter from /repo/tools/convert: %v\n%s", err, out)
	}
}

func fileExists(p string) bool { _, err := os.Stat(p); return err == nil }

type convResult struct {
	Out    string
	Stderr string
	Exit   int
}

func convert(dir, what, format, body string) convResult {
	in := filepath.Join(dir, "v1."+format)
	out := filepath.Join(dir, "v2.yaml")
	if err := os.WriteFile(in, []byte(body), 0o644); err != nil {
		ev.Harness("%v", err)
	}
	os.Remove(out)
	cmd := exec.Command(converterBin, what, "--input", in, "--output", out)
	cmd.Dir = dir
	var stderr strings.Builder
	cmd.Stderr = &stderr
	err := cmd.Run()
	res := convResult{Stderr: strings.TrimSpace(stderr.String())}
	if err != nil {
		res.Exit = 1
		if ee, ok := err.(*exec.ExitError); ok {
			res.Exit = ee.ExitCode()
		} else {
			ev.Harness("cannot run the converter: %v", err)
		}
	}
	b, _ := os.ReadFile(out)
	res.Out = string(b)
	return res
}

const v2Rules = "RulesVersion: 2\nSamplers:\n  __default__:\n    DeterministicSampler:\n      SampleRate: 1\n"
const v2Config = "General:\n  ConfigurationVersion: 2\n"

func loadV2(dir string, cfgBody, rulesBody string) (config.Config, error) {
	cp, rp := filepath.Join(dir, "load_config.yaml"), filepath.Join(dir, "load_rules.yaml")
	os.WriteFile(cp, []byte(cfgBody), 0o644)
	os.WriteFile(rp, []byte(rulesBody), 0o644)
	c, err := config.NewConfig(&config.CmdEnv{ConfigLocations: []string{cp}, RulesLocations: []string{rp}})
	if c == nil {
		return nil, err
	}
	return c, nil
}

func norm(v reflect.Value) string {
	if v.Kind() == reflect.Ptr {
		if v.IsNil() {
			return "<nil>"
		}
		return norm(v.Elem())
	}
	if l, ok := v.Interface().(config.Level); ok {
		return l.String()
	}
	switch v.Kind() {
	case reflect.String:
		return v.String()
	case reflect.Bool:
		return strconv.FormatBool(v.Bool())
	case reflect.Int, reflect.Int8, reflect.Int16, reflect.Int32, reflect.Int64:
		return strconv.FormatInt(v.Int(), 10)
	case reflect.Uint, reflect.Uint8, reflect.Uint16, reflect.Uint32, reflect.Uint64:
		return strconv.FormatUint(v.Uint(), 10)
	case reflect.Float32, reflect.Float64:
		return strconv.FormatFloat(v.Float(), 'g', -1, 64)
	case reflect.Slice:
		s := []string{}
		for i := 0; i < v.Len(); i++ {
			s = append(s, norm(v.Index(i)))
		}
		return ev.J(s)
	case reflect.Interface:
		if v.IsNil() {
			return "<nil>"
		}
		return fmt.Sprintf("%T:%v", v.Elem().Interface(), v.Elem().Interface())
	}
	return fmt.Sprintf("%v", v.Interface())
}

func yamlName(f reflect.StructField) string { return strings.Split(f.Tag.Get("yaml"), ",")[0] }

func fieldByYAML(v reflect.Value, name string) (reflect.Value, bool) {
	for v.Kind() == reflect.Ptr {
		if v.IsNil() {
			return reflect.Value{}, false
		}
		v = v.Elem()
	}
	if v.Kind() != reflect.Struct {
		return reflect.Value{}, false
	}
	for i := 0; i < v.NumField(); i++ {
		if yamlName(v.Type().Field(i)) == name {
			return v.Field(i), true
		}
	}
	return reflect.Value{}, false
}

func effective(c config.Config, path string) (string, bool) {
	root := reflect.ValueOf(config.VerifMainConfig(c))
	g, f, _ := strings.Cut(path, ".")
	gv, ok := fieldByYAML(root, g)
	if !ok {
		return "", false
	}
	fv, ok := fieldByYAML(gv, f)
	if !ok {
		return "", false
	}
	return norm(fv), true
}

// ---------------------------------------------------------------------------------------------
// config cases

type cfgCase struct {
	Set        []int    `json:"settings"` // indexes into settings
	Names      []string `json:"names"`
	Format     string   `json:"format"`
	Deprecated bool     `json:"with_deprecated_CacheCapacity"`
}

type outcome struct {
	sig, what string
	label     string
	nontriv   []string
}

var knownOld map[string]string // converter-known v1 name -> v2 path (from the metadata, generator rule of genfield.tmpl)

func loadKnown() {
	knownOld = map[string]string{}
	md, err := config.LoadConfigMetadata()
	if err != nil {
		ev.Harness("metadata: %v", err)
	}
	for _, g := range md.Groups {
		if g.LastVersion != "" {
			continue
		}
		for _, f := range g.Fields {
			if f.LastVersion != "" || f.Unpublished {
				continue
			}
			old := []string{f.Name}
			if f.V1Name != "" {
				old = []string{f.V1Name}
				if f.V1Group != "" {
					old = nil
					for _, alt := range strings.Split(f.V1Group, "/") {
						old = append(old, alt+"."+f.V1Name)
					}
				}
			}
			for _, o := range old {
				if _, dup := knownOld[o+"->"+g.Name+"."+f.Name]; !dup {
					knownOld[o+"->"+g.Name+"."+f.Name] = f.ValueType
				}
			}
		}
	}
}

func converterKnows(s setting) string {
	if vt, ok := knownOld[s.name()+"->"+s.V2]; ok {
		if vt == "showexample" || vt == "assigndefault" {
			return "converter-never-copies-this-setting(" + vt + ")"
		}
		return "converter-reads-this-v1-name"
	}
	return "converter-does-not-read-this-v1-name"
}

func evalCfg(k cfgCase) outcome {
	dir := filepath.Join(workRoot, fmt.Sprintf("c%d", caseSeq.Add(1)))
	os.MkdirAll(dir, 0o755)
	defer os.RemoveAll(dir)
	d := doc{}
	var all []setting
	seen := map[string]bool{}
	var add func(s setting)
	add = func(s setting) {
		if seen[s.name()] {
			return
		}
		seen[s.name()] = true
		all = append(all, s)
		d.put(s)
		for _, w := range s.WithKey {
			for _, o := range settings {
				if o.name() == w {
					add(o)
				}
			}
		}
	}
	for _, i := range k.Set {
		add(settings[i])
	}
	if k.Deprecated {
		d.put(deprecatedExtra)
	}
	body := render(k.Format, d)
	res := convert(dir, "config", k.Format, body)
	tag := ""
	if k.Deprecated {
		tag = "+deprecated-v1-setting(InMemCollector.CacheCapacity)"
	}
	input := fmt.Sprintf("v1 %s file:\n%s", k.Format, body)
	if res.Exit != 0 || res.Out == "" {
		return outcome{sig: "config:converter-failed" + tag + ":" + strings.Join(k.Names, "+"), what: fmt.Sprintf("converter exit %d, stderr %q; %s", res.Exit, trunc(res.Stderr, 300), input), label: "converter-failed"}
	}
	c, err := loadV2(dir, res.Out, v2Rules)
	if c == nil {
		sigset := strings.Join(k.Names, "+")
		if k.Deprecated {
			sigset = "*" // one defect class whatever the other setting is
		}
		return outcome{sig: "config:output-rejected-by-v2-loader" + tag + ":" + sigset,
			what: fmt.Sprintf("converted file does not load as a v2 config: %s; %s", trunc(oneLine(err), 400), input), label: "v2-rejects"}
	}
	o := outcome{label: "preserved"}
	for _, s := range all {
		got, ok := effective(c, s.V2)
		if !ok {
			ev.Harness("v2 setting %s not found in the config struct (table needs updating)", s.V2)
		}
		if got != s.want() {
			name := s.name()
			if k.Deprecated {
				name = "*"
			}
			return outcome{sig: fmt.Sprintf("config:value-not-preserved%s:%s->%s:%s", tag, name, s.V2, converterKnows(s)),
				what: fmt.Sprintf("v1 %s = %v: effective v2 %s is %s, expected %s; %s", s.name(), ev.J(s.Val), s.V2, got, s.want(), input), label: "lost"}
		}
		o.nontriv = append(o.nontriv, "cfg|"+s.name()+"|"+k.Format+fmt.Sprint(k.Deprecated))
	}
	return o
}

func oneLine(err error) string {
	if err == nil {
		return ""
	}
	return strings.ReplaceAll(strings.Join(strings.Fields(err.Error()), " "), workRoot, "$WORK")
}

func trunc(s string, n int) string {
	if len(s) > n {
		return s[:n] + "…"
	}
	return s
}

// ---------------------------------------------------------------------------------------------
// v1 rules (rules_complete.1.x.toml): every sampler type, as the default sampler and as a dataset sampler

type rfield struct {
	Key  string // v1 key
	V2   string // v2 yaml name inside the sampler's struct
	Val  any
	Want string
}

type samplerSpec struct {
	Type   string
	Base   map[string]any // minimal valid v1 settings of this sampler
	Fields []rfield       // each varied alone (on top of Base) and all together
}

var samplerSpecs = []samplerSpec{
	{"DeterministicSampler", map[string]any{}, []rfield{{"SampleRate", "SampleRate", 10, "10"}}},
	{"DynamicSampler", map[string]any{"SampleRate": 2, "FieldList": []string{"request.method"}}, []rfield{
		{"SampleRate", "SampleRate", 7, "7"},
		{"FieldList", "FieldList", []string{"http.target", "response.status_code"}, `["http.target","response.status_code"]`},
		{"UseTraceLength", "UseTraceLength", true, "true"},
		{"ClearFrequency", "ClearFrequency", "45s", "45000000000"},
	}},
	{"EMADynamicSampler", map[string]any{"GoalSampleRate": 2, "FieldList": []string{"request.method"}}, []rfield{
		{"GoalSampleRate", "GoalSampleRate", 6, "6"},
		{"FieldList", "FieldList", []string{"http.target", "response.status_code"}, `["http.target","response.status_code"]`},
		{"UseTraceLength", "UseTraceLength", true, "true"},
		{"AdjustmentInterval", "AdjustmentInterval", 20, "20000000000"}, // v1: seconds
		{"Weight", "Weight", 0.25, "0.25"},
		{"MaxKeys", "MaxKeys", 300, "300"},
		{"AgeOutValue", "AgeOutValue", 0.75, "0.75"},
		{"BurstMultiple", "BurstMultiple", 3.5, "3.5"},
		{"BurstDetectionDelay", "BurstDetectionDelay", 5, "5"},
	}},
	{"TotalThroughputSampler", map[string]any{"GoalThroughputPerSec": 100, "FieldList": []string{"request.method"}}, []rfield{
		{"GoalThroughputPerSec", "GoalThroughputPerSec", 55, "55"},
		{"FieldList", "FieldList", []string{"http.target", "response.status_code"}, `["http.target","response.status_code"]`},
		{"UseTraceLength", "UseTraceLength", true, "true"},
		{"ClearFrequency", "ClearFrequency", "40s", "40000000000"},
	}},
}

type ruleCase struct {
	Kind    string `json:"kind"` // sampler | rules
	Sampler string `json:"sampler,omitempty"`
	Field   string `json:"field,omitempty"` // "*" = all fields at once
	Place   string `json:"place"`           // default | dataset
	Format  string `json:"format"`
	Variant string `json:"variant,omitempty"`
}

func samplerMap(sp samplerSpec, field string) (map[string]any, []rfield) {
	m := map[string]any{"Sampler": sp.Type}
	for k, v := range sp.Base {
		m[k] = v
	}
	var checked []rfield
	for _, f := range sp.Fields {
		if field == "*" || field == f.Key {
			m[f.Key] = f.Val
			checked = append(checked, f)
		}
	}
	return m, checked
}

func loadRules(dir, rulesBody string) (*config.V2SamplerConfig, error) {
	c, err := loadV2(dir, v2Config, rulesBody)
	if c == nil {
		return nil, err
	}
	return c.GetAllSamplerRules(), nil
}

func evalRule(k ruleCase) outcome {
	dir := filepath.Join(workRoot, fmt.Sprintf("r%d", caseSeq.Add(1)))
	os.MkdirAll(dir, 0o755)
	defer os.RemoveAll(dir)
	d := map[string]any{}
	ds := "__default__"
	type expect struct {
		path []string // yaml names below Samplers[ds]
		want string
		v1   string
	}
	var exps []expect
	target := d
	if k.Place == "dataset" || k.Place == "dataset-mixed-case" {
		ds = "dataset7"
		if k.Place == "dataset-mixed-case" {
			ds = "MyService-API" // dataset / environment names are case-sensitive in v2
		}
		// a v1 rules file always has a default sampler
		d["Sampler"] = "DeterministicSampler"
		d["SampleRate"] = 1
		target = map[string]any{}
		d[ds] = target
	}
	switch k.Kind {
	case "sampler":
		var sp samplerSpec
		for _, s := range samplerSpecs {
			if s.Type == k.Sampler {
				sp = s
			}
		}
		m, checked := samplerMap(sp, k.Field)
		for kk, v := range m {
			target[kk] = v
		}
		for _, f := range checked {
			exps = append(exps, expect{[]string{sp.Type, f.V2}, f.Want, f.Key})
		}
	case "rules":
		target["Sampler"] = "RulesBasedSampler"
		rule := map[string]any{"name": "rule one"}
		cond := map[string]any{"field": "status_code", "operator": "=", "value": 500}
		var condChecks []expect
		switch k.Variant {
		case "drop":
			rule["drop"] = true
			exps = append(exps, expect{[]string{"RulesBasedSampler", "Rules", "0", "Drop"}, "true", "drop"})
		case "samplerate":
			rule["SampleRate"] = 5
			exps = append(exps, expect{[]string{"RulesBasedSampler", "Rules", "0", "SampleRate"}, "5", "SampleRate"})
		case "scope":
			rule["SampleRate"] = 5
			rule["Scope"] = "span"
			exps = append(exps, expect{[]string{"RulesBasedSampler", "Rules", "0", "Scope"}, "span", "Scope"})
		case "checknested":
			rule["SampleRate"] = 5
			target["CheckNestedFields"] = true
			exps = append(exps, expect{[]string{"RulesBasedSampler", "CheckNestedFields"}, "true", "CheckNestedFields"})
		case "cond-string":
			rule["SampleRate"] = 5
			cond = map[string]any{"field": "http.route", "operator": "starts-with", "value": "/health"}
			condChecks = append(condChecks, expect{[]string{"Value"}, "string:/health", "value"}, expect{[]string{"Operator"}, "starts-with", "operator"}, expect{[]string{"Field"}, "http.route", "field"})
		case "cond-int":
			rule["SampleRate"] = 5
			condChecks = append(condChecks, expect{[]string{"Value"}, "int:500", "value"})
		case "cond-float":
			rule["SampleRate"] = 5
			cond = map[string]any{"field": "duration_ms", "operator": ">=", "value": 1000.789}
			condChecks = append(condChecks, expect{[]string{"Value"}, "float64:1000.789", "value"}, expect{[]string{"Operator"}, ">=", "operator"})
		case "cond-datatype":
			rule["SampleRate"] = 5
			cond = map[string]any{"field": "status_code", "operator": "=", "value": "200", "datatype": "int"}
			condChecks = append(condChecks, expect{[]string{"Datatype"}, "int", "datatype"}, expect{[]string{"Value"}, "string:200", "value"})
		case "cond-exists":
			rule["SampleRate"] = 5
			cond = map[string]any{"field": "error", "operator": "exists"}
			condChecks = append(condChecks, expect{[]string{"Operator"}, "exists", "operator"})
		case "downstream-ema", "downstream-dynamic", "downstream-throughput":
			typ := map[string]string{"downstream-ema": "EMADynamicSampler", "downstream-dynamic": "DynamicSampler", "downstream-throughput": "TotalThroughputSampler"}[k.Variant]
			var sp samplerSpec
			for _, s := range samplerSpecs {
				if s.Type == typ {
					sp = s
				}
			}
			m, checked := samplerMap(sp, "*")
			rule["sampler"] = map[string]any{typ: m}
			for _, f := range checked {
				exps = append(exps, expect{[]string{"RulesBasedSampler", "Rules", "0", "Sampler", typ, f.V2}, f.Want, "rule.sampler." + typ + "." + f.Key})
			}
		case "two-rules":
			rule["drop"] = true
			target["rule"] = []map[string]any{
				{"name": "rule one", "drop": true, "condition": []map[string]any{cond}},
				{"name": "rule two", "SampleRate": 9},
			}
			exps = append(exps, expect{[]string{"RulesBasedSampler", "Rules", "0", "Name"}, "rule one", "name"},
				expect{[]string{"RulesBasedSampler", "Rules", "1", "Name"}, "rule two", "name"},
				expect{[]string{"RulesBasedSampler", "Rules", "1", "SampleRate"}, "9", "SampleRate"},
				expect{[]string{"RulesBasedSampler", "Rules", "0", "Drop"}, "true", "drop"})
		default:
			ev.Harness("unknown rules variant %q", k.Variant)
		}
		if _, done := target["rule"]; !done {
			rule["condition"] = []map[string]any{cond}
			target["rule"] = []map[string]any{rule}
		}
		exps = append(exps, expect{[]string{"RulesBasedSampler", "Rules", "0", "Name"}, "rule one", "name"})
		for _, c := range condChecks {
			exps = append(exps, expect{append([]string{"RulesBasedSampler", "Rules", "0", "Conditions", "0"}, c.path...), c.want, "condition." + c.v1})
		}
	}
	body := render(k.Format, d)
	input := fmt.Sprintf("v1 %s rules file:\n%s", k.Format, body)
	res := convert(dir, "rules", k.Format, body)
	id := k.Sampler + k.Variant + "@" + k.Place
	if res.Exit != 0 || res.Out == "" {
		return outcome{sig: "rules:converter-failed:" + id, what: fmt.Sprintf("converter exit %d, stderr %q; %s", res.Exit, trunc(res.Stderr, 300), input), label: "converter-failed"}
	}
	rc, err := loadRules(dir, res.Out)
	if rc == nil {
		return outcome{sig: "rules:output-rejected-by-v2-loader:" + id, what: fmt.Sprintf("converted rules do not load as v2 rules: %s; %s\nconverted:\n%s", trunc(oneLine(err), 400), input, trunc(res.Out, 600)), label: "v2-rejects"}
	}
	choice := rc.Samplers[ds]
	if choice == nil {
		return outcome{sig: "rules:sampler-missing:" + id, what: fmt.Sprintf("converted rules have no sampler for %s; %s", ds, input), label: "lost"}
	}
	o := outcome{label: "preserved"}
	for _, e := range exps {
		v := reflect.ValueOf(choice)
		ok := true
		for _, p := range e.path {
			for v.Kind() == reflect.Ptr && !v.IsNil() {
				v = v.Elem()
			}
			if i, err := strconv.Atoi(p); err == nil && v.Kind() == reflect.Slice {
				if i >= v.Len() {
					ok = false
					break
				}
				v = v.Index(i)
				continue
			}
			v, ok = fieldByYAML(v, p)
			if !ok {
				break
			}
		}
		got := "<absent>"
		if ok {
			got = norm(v)
		}
		want := e.want
		if strings.HasPrefix(want, "int:") && strings.HasPrefix(got, "int64:") {
			got = "int:" + strings.TrimPrefix(got, "int64:")
		}
		if got != want {
			return outcome{sig: fmt.Sprintf("rules:value-not-preserved:%s:%s", k.Sampler+strings.Split(k.Variant, "-")[0], e.v1),
				what: fmt.Sprintf("v1 %s (%s sampler %s): effective v2 %s is %s, expected %s; %s\nconverted:\n%s", e.v1, k.Place, k.Sampler+k.Variant, strings.Join(e.path, "."), got, want, input, trunc(res.Out, 600)), label: "lost"}
		}
		o.nontriv = append(o.nontriv, "rule|"+id+"|"+e.v1+"|"+k.Format)
	}
	return o
}

// ---------------------------------------------------------------------------------------------

func replayArg() string {
	for i, a := range os.Args {
		if a == "--replay" && i+1 < len(os.Args) {
			return os.Args[i+1]
		}
	}
	return ""
}

// replay re-runs one recorded case (conversion + v2 load + comparison) and exits 1 if it still fails.
func replay(path string) {
	b, err := os.ReadFile(path)
	if err != nil {
		ev.Harness("replay: %v", err)
	}
	var rec struct {
		Replay json.RawMessage `json:"replay"`
	}
	if err := json.Unmarshal(b, &rec); err != nil {
		ev.Harness("replay: %v", err)
	}
	var o outcome
	var probe map[string]any
	json.Unmarshal(rec.Replay, &probe)
	if probe["kind"] == "numpos" {
		var k numCase
		json.Unmarshal(rec.Replay, &k)
		single := func(place, kind string) *numOutcome {
			so := evalNum(numCase{Kind: "numpos", Place: place, Top: "RulesBasedSampler", Rules: []string{kind}})
			return &so
		}
		vs := numSignatures(k, evalNum(k), single)
		os.RemoveAll(workRoot)
		if len(vs) > 0 {
			fmt.Printf("VIOLATION property=C38 replay=%s\n  detail: %s :: %s\n", path, vs[0].sig, vs[0].what)
			os.Exit(1)
		}
		fmt.Println("replay: no violation (every setting preserved in toml, yaml and json)")
		os.Exit(0)
	}
	if _, isCfg := probe["settings"]; isCfg {
		var k cfgCase
		json.Unmarshal(rec.Replay, &k)
		// address the settings by name (the table may have been reordered since the replay was written)
		k.Set = nil
		for _, n := range k.Names {
			for i, s := range settings {
				if s.name() == n {
					k.Set = append(k.Set, i)
				}
			}
		}
		o = evalCfg(k)
	} else {
		var k ruleCase
		json.Unmarshal(rec.Replay, &k)
		o = evalRule(k)
	}
	os.RemoveAll(workRoot)
	if o.sig != "" {
		fmt.Printf("VIOLATION property=C38 replay=%s\n  detail: %s :: %s\n", path, o.sig, o.what)
		os.Exit(1)
	}
	fmt.Printf("replay: no violation (%s)\n", o.label)
	os.Exit(0)
}

func main() {
	r := ev.New("C38", "exploration")
	work := os.Getenv("VERIF_WORK")
	if work == "" {
		ev.Harness("VERIF_WORK not set (run through ./vcheck)")
	}
	workRoot = filepath.Join(work, "files")
	os.RemoveAll(workRoot)
	os.MkdirAll(workRoot, 0o755)
	defer os.RemoveAll(workRoot)
	for _, e := range os.Environ() {
		if n, _, _ := strings.Cut(e, "="); strings.HasPrefix(n, "REFINERY_") {
			os.Unsetenv(n)
		}
	}
	buildConverter()
	loadKnown()

	// ---- case lists
	formats := ev.Pick(r, []string{"toml", "yaml"}, []string{"toml", "yaml", "json"})
	var cfgCases []cfgCase
	for _, f := range formats {
		for i, s := range settings {
			cfgCases = append(cfgCases, cfgCase{Set: []int{i}, Names: []string{s.name()}, Format: f})
		}
	}
	for i, s := range settings { // the same settings next to the (v1-mandatory, v2-removed) CacheCapacity
		cfgCases = append(cfgCases, cfgCase{Set: []int{i}, Names: []string{s.name()}, Format: "toml", Deprecated: true})
	}
	if r.Thorough() {
		for _, f := range []string{"toml", "yaml"} {
			for i := range settings {
				for j := i + 1; j < len(settings); j++ {
					if settings[i].V2 == settings[j].V2 {
						continue // two v1 spellings of one setting in one file contradict each other: not a valid v1 config
					}
					cfgCases = append(cfgCases, cfgCase{Set: []int{i, j}, Names: []string{settings[i].name(), settings[j].name()}, Format: f})
				}
			}
		}
	}
	var ruleCases []ruleCase
	for _, f := range formats {
		for _, place := range []string{"default", "dataset"} {
			for _, sp := range samplerSpecs {
				for _, fl := range sp.Fields {
					ruleCases = append(ruleCases, ruleCase{Kind: "sampler", Sampler: sp.Type, Field: fl.Key, Place: place, Format: f})
				}
				ruleCases = append(ruleCases, ruleCase{Kind: "sampler", Sampler: sp.Type, Field: "*", Place: place, Format: f})
			}
			for _, v := range []string{"drop", "samplerate", "scope", "checknested", "cond-string", "cond-int", "cond-float", "cond-datatype", "cond-exists", "downstream-ema", "downstream-dynamic", "downstream-throughput", "two-rules"} {
				ruleCases = append(ruleCases, ruleCase{Kind: "rules", Sampler: "RulesBasedSampler:", Variant: v, Place: place, Format: f})
			}
		}
	}

	// a dataset / environment section whose name has upper-case letters (v2 looks samplers up by exact name)
	for _, f := range formats {
		for _, sp := range samplerSpecs {
			ruleCases = append(ruleCases, ruleCase{Kind: "sampler", Sampler: sp.Type, Field: "*", Place: "dataset-mixed-case", Format: f})
		}
		for _, v := range []string{"samplerate", "downstream-dynamic"} {
			ruleCases = append(ruleCases, ruleCase{Kind: "rules", Sampler: "RulesBasedSampler:", Variant: v, Place: "dataset-mixed-case", Format: f})
		}
	}

	// numbers of a v1 JSON config file (quick tier; the thorough tier runs every case in JSON anyway): every numeric config
	// setting (top level and inside a section), through the existing oracle
	if !r.Thorough() {
		for i, s := range settings {
			if s.Kind == "int" || s.Kind == "bytes" {
				cfgCases = append(cfgCases, cfgCase{Set: []int{i}, Names: []string{s.name()}, Format: "json"})
			}
		}
	}
	// numbers at every structural position of a rules file x the three input formats (numpos.go)
	nCases, nBounds := numCases(r.Thorough())

	if path := replayArg(); path != "" {
		replay(path)
	}

	// determinism self-check: the first case of each kind twice
	a, b := evalCfg(cfgCases[0]), evalCfg(cfgCases[0])
	if a.sig != b.sig || a.label != b.label {
		ev.Harness("same conversion twice gives different results: %q vs %q", a.sig, b.sig)
	}

	// the three enumerations run next to each other (a number-position document evaluates its three renderings concurrently)
	numOut := make([]numOutcome, len(nCases))
	numDone := make([]bool, len(nCases))
	var numWG sync.WaitGroup
	numWG.Add(1)
	go func() {
		defer numWG.Done()
		enumx.Each(r, "numpos", []int{len(nCases)}, 16, func(idx []int) { numOut[idx[0]] = evalNum(nCases[idx[0]]); numDone[idx[0]] = true })
	}()
	ruleOut := make([]outcome, len(ruleCases))
	numWG.Add(1)
	go func() {
		defer numWG.Done()
		enumx.Each(r, "rules", []int{len(ruleCases)}, 16, func(idx []int) { ruleOut[idx[0]] = evalRule(ruleCases[idx[0]]) })
	}()
	cfgOut := make([]outcome, len(cfgCases))
	enumx.Each(r, "config", []int{len(cfgCases)}, 16, func(idx []int) { cfgOut[idx[0]] = evalCfg(cfgCases[idx[0]]) })
	numWG.Wait()

	var mu sync.Mutex
	_ = mu
	report := func(o outcome, replay any, i int) {
		r.Distinct("distinct_outcomes", o.label)
		for _, n := range o.nontriv {
			r.Distinct("distinct_nontrivial", n)
		}
		if o.sig != "" {
			r.Violation(o.sig, o.what, replay)
		}
		if i%53 == 0 {
			r.Sample(map[string]any{"case": replay, "outcome": o.label})
		}
	}
	for i, o := range cfgOut {
		if cfgCases[i].Set == nil {
			continue
		}
		report(o, cfgCases[i], i)
	}
	for i, o := range ruleOut {
		report(o, ruleCases[i], i)
	}
	singles := map[string]*numOutcome{}
	for i, k := range nCases {
		if numDone[i] && k.Top == "RulesBasedSampler" && len(k.Rules) == 1 {
			singles[k.Place+"|"+k.Rules[0]] = &numOut[i]
		}
	}
	numConversions, numAgree := 0, 0
	for i, k := range nCases {
		if !numDone[i] {
			continue // deadline hit (the run is marked non-exhaustive by enumx)
		}
		o := numOut[i]
		numConversions += len(numFormats)
		if o.agree {
			numAgree++
		}
		for _, n := range o.nontriv {
			r.Distinct("distinct_nontrivial", n)
			r.Distinct("numpos_distinct_number_positions_preserved", n)
		}
		vs := numSignatures(k, o, func(place, kind string) *numOutcome { return singles[place+"|"+kind] })
		if len(vs) == 0 {
			r.Distinct("distinct_outcomes", "preserved")
		}
		for _, v := range vs {
			r.Distinct("distinct_outcomes", "numpos-"+strings.Split(v.sig, ":")[2])
			r.Violation(v.sig, v.what, k)
		}
		if i%53 == 0 {
			r.Sample(map[string]any{"case": k, "formats": numFormats, "all_settings_preserved_in_every_format": len(vs) == 0})
		}
	}
	r.Add("evaluations", int64(numConversions-len(nCases))) // enumx counted one per document; every document is three conversions
	r.Set("numpos_documents", len(nCases))
	r.Set("numpos_conversions", numConversions)
	r.Set("numpos_documents_whose_three_renderings_give_the_identical_v2_sampler", numAgree)
	r.Set("numpos_bounds", map[string]any{"formats": numFormats, "placements": []string{"default", "dataset"}, "rule_lists": nBounds,
		"rule_kinds": numRuleKinds, "conditions_per_rule": "0..2 (int, float, int+float)", "sampler_level_documents": numTopSamplers,
		"numeric_settings": "SampleRate, condition value (int/float), GoalSampleRate, GoalThroughputPerSec, ClearFrequencySec, AdjustmentInterval, Weight, MaxKeys, AgeOutValue, BurstMultiple, BurstDetectionDelay - all set at once, values distinct per rule index"})
	r.Set("numpos_rule", "one v1 rules document D rendered as TOML, YAML and JSON  =>  for each rendering: convert(D) yields a v2 file, it loads with the v2 loader/validator, and every setting of D (each number at its rule/condition/downstream-sampler position, seconds->duration) has the same effective v2 value; hence the three renderings agree")
	r.Assume("ClearFrequencySec (integer seconds) is a valid v1 spelling of the Dynamic/TotalThroughput sampler interval: it is a setting the converter explicitly knows (ruleconvert.go transformSamplerMap), like the integer-seconds AdjustmentInterval of rules_complete.1.x.toml")
	r.Assume("a v1 file may be TOML, YAML or JSON (converter --type T|Y|J, README; v1 read all three through viper): the same v1 content in any of the three is the same valid v1 file")

	reads, notreads := 0, 0
	for _, s := range settings {
		if converterKnows(s) == "converter-reads-this-v1-name" {
			reads++
		} else {
			notreads++
		}
	}
	r.Set("v1_config_settings", len(settings))
	r.Set("v1_config_settings_whose_name_the_converter_reads", reads)
	r.Set("v1_config_settings_whose_name_the_converter_does_not_read", notreads)
	r.Set("config_cases", len(cfgCases))
	r.Set("rules_cases", len(ruleCases))
	r.Set("rule", "v1 setting S = x (non-default, valid, from the v1 reference file)  =>  convert(v1 file) loads with the v2 loader/validator and the effective value of the v2 setting corresponding to S equals x (seconds->duration, bytes->memory size)")
	r.Set("bounds", map[string]any{"formats": formats, "settings_per_file": ev.Pick(r, "1 (+1 deprecated companion)", "1 and all pairs"), "sampler_types": []string{"DeterministicSampler", "DynamicSampler", "EMADynamicSampler", "TotalThroughputSampler", "RulesBasedSampler"}, "placements": "default sampler, dataset sampler"})
	r.Assume("the v1 reference files shipped in the repository (config_complete.1.x.toml, rules_complete.1.x.toml) define the valid v1 setting names; the v1->v2 correspondence table is written from the two reference documents (v1 comments / config.md), not from the converter")
	r.Assume("v1 settings that no longer exist in v2 (LegacyMetrics, CacheCapacity, RedisPrefix/RedisDatabase, buffer sizes, Collector, CacheOverrunStrategy, AddSampleRateKeyToTrace...) are not compared; InMemCollector.CacheCapacity is only used as a companion that must not break the conversion of the other settings")
	r.Assume("every conversion runs the converter binary rebuilt from the current /repo tree (plus the vcheck overlay); every comparison goes through config.NewConfig (v2 validation on, no version string)")
	r.Finish()
}
