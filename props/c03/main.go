// C03: trace decisions happen at the documented time (DESIGN §6 C03).
//
// Engine E1 (seqx): BFS over span arrivals / clock advances that land exactly on deadline−1ns, deadline,
// deadline+1ns / send ticks, executed on the real handlers (processSpan, sendExpiredTracesInCache) of a real
// InMemCollector under a fake clock, for every combination of SendDelay {0→2s default, 1s} × TraceTimeout
// {0→60s default, 5s} × SpanLimit {0, 2} × MaxExpiredTraces {0, 1, 2}.
//
// Reference model (from the statement and config.md, not from the code): each buffered trace has a deadline
//
//	min( first span arrival + TraceTimeout , root span arrival + SendDelay , instant at which it first held more than SpanLimit spans )
//
// which is never raised. At a send tick of the trace's worker at time `now`:
//   - no trace with deadline > now may be decided;
//   - traces with deadline < now must be decided, except that at most MaxExpiredTraces (if > 0) are decided
//     per tick, and then those with the earliest deadlines (ties: any choice among the tied ones);
//   - a trace whose deadline == now may or may not be decided (the statement says "after its deadline");
//   - the send reason of a decided trace is got_root if it holds a root span, else span_limit if it holds
//     more than SpanLimit spans, else expired.
//
// "Decided" is observed as the trace leaving the real buffer during the tick; the reason is read from the
// outgoing queue entry, from the send-reason metrics, and from meta.refinery.send_reason on every transmitted span.
package main

import (
	"encoding/json"
	"fmt"
	"os"
	"sort"
	"strings"
	"sync"
	"time"

	"github.com/honeycombio/refinery/collect"
	"github.com/honeycombio/refinery/config"

	"verif/engine/ev"
	"verif/engine/seqx"
	fx "verif/fix/collector"
	"verif/fix/collector/cx"
)

type event struct {
	Op string        `json:"op"` // span | adv | tick | eject
	T  int           `json:"t,omitempty"`
	K  fx.Kind       `json:"k,omitempty"`
	D  time.Duration `json:"d,omitempty"` // adv: signed offset from the nearest future model deadline (-1, 0, +1 ns) or, if Fixed, a plain duration
	F  bool          `json:"f,omitempty"`
	W  int           `json:"w,omitempty"`
}

func (e event) String() string {
	switch e.Op {
	case "span":
		return fmt.Sprintf("span(%d,%s)", e.T, e.K)
	case "adv":
		if e.F {
			return "adv(" + e.D.String() + ")"
		}
		return fmt.Sprintf("adv(next-deadline%+dns)", int64(e.D))
	}
	if e.Op == "eject" {
		return fmt.Sprintf("eject(w%d)", e.W)
	}
	return fmt.Sprintf("tick(w%d)", e.W)
}

func hist(h []event) string {
	var p []string
	for _, e := range h {
		p = append(p, e.String())
	}
	return strings.Join(p, " ")
}

type scenario struct {
	name     string
	tc       config.TracesConfig
	workers  int
	ids      []string
	kinds    []fx.Kind
	sampler  func() any
	keepAll  bool
	fixedAdv []time.Duration
	depth    int
	maxSpans int
	hints    sync.Map
	// reuse scenarios: memory-pressure ejection is an event, spans keep arriving for traces that were already
	// decided, and the kept-decision cache is tiny (keptSize), so a trace ID can be buffered a second time
	// (a new fragment whose deadline counts from ITS first span)
	reuse    bool
	keptSize uint
	kindsOf  map[int][]fx.Kind // per trace index; nil = kinds
	// noMerge = seqx NoMergeDepth: every history of length <= noMerge+1 is executed whatever the canonical key says
	noMerge int
}

type hint struct {
	buffered  []bool // per trace index: currently buffered
	decided   []bool
	spans     []int
	nextDL    time.Duration // offset of the nearest future model deadline from now (0 = none)
	perWorker []int
}

// ---- reference model

type mtrace struct {
	id       string
	worker   int
	count    int
	hasRoot  bool
	deadline time.Time
}

func (s *scenario) sendDelay() time.Duration {
	if d := time.Duration(s.tc.SendDelay); d != 0 {
		return d
	}
	return 2 * time.Second // config.md: SendDelay default 2s
}
func (s *scenario) traceTimeout() time.Duration {
	if d := time.Duration(s.tc.TraceTimeout); d != 0 {
		return d
	}
	return 60 * time.Second // config.md: TraceTimeout default 60s
}

func reasonName(m *mtrace, limit uint) string {
	switch {
	case m.hasRoot:
		return collect.TraceSendGotRoot
	case limit > 0 && uint(m.count) > limit:
		return collect.TraceSendSpanLimit
	}
	return collect.TraceSendExpired
}

func (s *scenario) exec(r *ev.Run, h []event) (string, string, *seqx.Failure) {
	kept := uint(16 * s.workers)
	if s.keptSize > 0 {
		kept = s.keptSize
	}
	f := fx.New(fx.Options{Workers: s.workers, Traces: s.tc, Sampler: s.sampler, AddRuleReasonToTrace: true, KeptSize: kept})
	defer f.Close()
	model := map[string]*mtrace{}
	decided := map[string]bool{}
	how := map[string]string{} // how each decided fragment left the buffer (last time): tick | eject
	nspan := map[string]int{}
	limit := s.tc.SpanLimit
	maxExp := int(s.tc.MaxExpiredTraces)
	flags := map[string]bool{}
	fail := func(sig, format string, a ...any) (string, string, *seqx.Failure) {
		return "", "", &seqx.Failure{Sig: "c03:" + sig, What: fmt.Sprintf(format, a...) + "  [config " + s.name + "; history: " + hist(h) + "]"}
	}
	nextDeadline := func() (time.Time, bool) {
		now := f.Now()
		var best time.Time
		ok := false
		for _, m := range model {
			if m.deadline.After(now) && (!ok || m.deadline.Before(best)) {
				best, ok = m.deadline, true
			}
		}
		return best, ok
	}
	for step, e := range h {
		switch e.Op {
		case "span":
			id := s.ids[e.T]
			nspan[id]++
			now := f.Now()
			_, was := model[id]
			f.Span(fx.SpanSpec{TraceID: id, Kind: e.K, ID: fmt.Sprintf("%s.%d", id, nspan[id])})
			tv := f.Coll.VerifBufferedTrace(id)
			switch {
			case tv == nil && was:
				return fail("span-removed-trace", "step %d: delivering %v removed trace %s from the buffer", step, e, id)
			case tv == nil:
				flags["late"] = true // span of an already decided trace: not this property's subject
				continue
			}
			m := model[id]
			if m == nil {
				m = &mtrace{id: id, worker: f.WorkerFor(id), deadline: now.Add(s.traceTimeout())}
				model[id] = m
				if decided[id] {
					flags["buffered-again-after-decision"] = true
					if os.Getenv("C03_DEBUG") != "" {
						fmt.Fprintln(os.Stderr, "REBUFFERED:", hist(h[:step+1]))
					}
					delete(decided, id)
				}
			}
			m.count++
			lower := func(t time.Time) {
				if t.Before(m.deadline) {
					m.deadline = t
				}
			}
			if e.K == fx.Root {
				m.hasRoot = true
				lower(now.Add(s.sendDelay()))
			}
			if limit > 0 && uint(m.count) > limit {
				lower(now)
				flags["over-limit"] = true
			}
		case "adv":
			if e.F {
				f.Advance(e.D)
				break
			}
			dl, ok := nextDeadline()
			if !ok {
				ev.Harness("C03: adv offered without a future deadline: %s", hist(h))
			}
			d := dl.Sub(f.Now()) + e.D
			if d <= 0 {
				ev.Harness("C03: non-positive advance: %s", hist(h))
			}
			f.Advance(d)
		case "eject":
			// memory-pressure ejection of (at least) one trace: the statement exempts it from the deadline rule
			// (which trace goes, and its send reason, is C07's subject). The model forgets what left the buffer.
			f.Eject(e.W, 1)
			f.SendAll()
			still := map[string]bool{}
			for _, v := range f.Buffered(e.W) {
				still[v.TraceID] = true
			}
			for id, m := range model {
				if m.worker == e.W && !still[id] {
					delete(model, id)
					decided[id] = true
					how[id] = "eject"
					flags["ejected"] = true
				}
			}
		case "tick":
			now := f.Now()
			before := map[string]bool{}
			for _, v := range f.Buffered(e.W) {
				before[v.TraceID] = true
			}
			counters0 := f.SendReasonCounters()
			q0 := len(f.Outgoing())
			tx0 := f.Tx.Len()
			f.Tick(e.W)
			after := map[string]bool{}
			for _, v := range f.Buffered(e.W) {
				after[v.TraceID] = true
			}
			var D []*mtrace
			var ids []string
			for id := range before {
				ids = append(ids, id)
			}
			sort.Strings(ids)
			for _, id := range ids {
				if !after[id] {
					m := model[id]
					if m == nil {
						ev.Harness("C03: trace %s decided but unknown to the model: %s", id, hist(h))
					}
					D = append(D, m)
				}
			}
			inD := map[string]bool{}
			for _, m := range D {
				inD[m.id] = true
				if m.deadline.After(now) {
					return fail("decided-before-deadline:"+reasonName(m, limit),
						"step %d: tick at +%v decided trace %s whose deadline is +%v (%v too early; root=%v, %d spans)", step, now.Sub(fx.T0), m.id, m.deadline.Sub(fx.T0), m.deadline.Sub(now), m.hasRoot, m.count)
				}
			}
			if maxExp > 0 && len(D) > maxExp {
				return fail("more-than-max-per-tick", "step %d: one tick decided %d traces, MaxExpiredTraces is %d", step, len(D), maxExp)
			}
			for _, id := range ids {
				u := model[id]
				if inD[id] || u == nil || u.worker != e.W {
					continue
				}
				if u.deadline.Before(now) && !(maxExp > 0 && len(D) == maxExp) {
					return fail("not-decided-at-tick:"+reasonName(u, limit),
						"step %d: tick at +%v left trace %s undecided although its deadline +%v has passed (decided this tick: %d, MaxExpiredTraces %d)", step, now.Sub(fx.T0), id, u.deadline.Sub(fx.T0), len(D), maxExp)
				}
				if !u.deadline.After(now) {
					for _, m := range D {
						if u.deadline.Before(m.deadline) {
							return fail("not-earliest-first", "step %d: tick decided trace %s (deadline +%v) but left %s (earlier deadline +%v) waiting", step, m.id, m.deadline.Sub(fx.T0), id, u.deadline.Sub(fx.T0))
						}
					}
					if u.deadline.Before(now) {
						flags["backlog"] = true
					} else {
						flags["at-deadline-undecided"] = true
					}
				}
			}
			// send reasons
			want := map[string]int64{}
			for _, m := range D {
				rs := reasonName(m, limit)
				want[rs]++
				flags[rs] = true
				if m.deadline.Equal(now) {
					flags["at-deadline-decided"] = true
				}
			}
			if s.keepAll {
				out := f.Outgoing()[q0:]
				got := map[string]string{}
				for _, o := range out {
					got[o.TraceID] = o.SendReason
				}
				for _, m := range D {
					if got[m.id] != reasonName(m, limit) {
						return fail("wrong-send-reason:"+reasonName(m, limit)+"-reported-as-"+got[m.id],
							"step %d: trace %s (root=%v, %d spans, SpanLimit %d) queued with send reason %q, expected %q", step, m.id, m.hasRoot, m.count, limit, got[m.id], reasonName(m, limit))
					}
				}
				c1 := f.SendReasonCounters()
				for _, n := range []string{collect.TraceSendGotRoot, collect.TraceSendExpired, collect.TraceSendSpanLimit, collect.TraceSendEjectedMemsize, collect.TraceSendEjectedFull} {
					if c1[n]-counters0[n] != want[n] {
						return fail("wrong-send-reason-metric:"+n, "step %d: metric %s moved by %d during the tick, expected %d", step, n, c1[n]-counters0[n], want[n])
					}
				}
				f.SendAll()
				for _, sent := range f.Tx.Log(tx0) {
					m := model[sent.TraceID]
					if m == nil || !inD[sent.TraceID] {
						continue
					}
					if fmt.Sprint(sent.Fields["meta.refinery.send_reason"]) != reasonName(m, limit) {
						return fail("wrong-send-reason-field:"+reasonName(m, limit), "step %d: span %s of trace %s transmitted with meta.refinery.send_reason=%v, expected %s",
							step, sent.SpanID, sent.TraceID, sent.Fields["meta.refinery.send_reason"], reasonName(m, limit))
					}
				}
			} else {
				f.SendAll()
			}
			for _, m := range D {
				delete(model, m.id)
				decided[m.id] = true
				how[m.id] = "tick"
			}
		}
	}
	// canonical state + hints
	now := f.Now()
	type ent struct {
		id  string
		dl  time.Time
		txt string
	}
	var es []ent
	for _, m := range model {
		tv := f.Coll.VerifBufferedTrace(m.id)
		real := "?"
		if tv != nil {
			// the kinds of the buffered spans are part of the state (span events / links count towards SpanLimit)
			var ks []string
			for _, sp := range tv.GetSpans() {
				k := "c"
				if sp.IsRoot {
					k = "r"
				} else if a := sp.Data.MetaAnnotationType; a != "" {
					k = a[:1]
				}
				ks = append(ks, k)
			}
			sort.Strings(ks)
			real = fmt.Sprintf("%s/%v", strings.Join(ks, ""), tv.RootSpan != nil)
		}
		es = append(es, ent{m.id, m.deadline, fmt.Sprintf("%s:%d:%v:%s", m.id, m.count, m.hasRoot, real)})
	}
	sort.Slice(es, func(a, b int) bool {
		if !es[a].dl.Equal(es[b].dl) {
			return es[a].dl.Before(es[b].dl)
		}
		return es[a].id < es[b].id
	})
	// expired deadlines matter only through their order (ties included); future ones through their exact offset.
	// The same is recorded for the real SendBy values, so two merged states also agree on the implementation's queue order.
	var cb strings.Builder
	rank := 0
	for k, e := range es {
		if k > 0 && !es[k-1].dl.Equal(e.dl) {
			rank++
		}
		off := "exp#" + fmt.Sprint(rank)
		if e.dl.After(now) {
			off = e.dl.Sub(now).String()
		} else if e.dl.Equal(now) {
			off = "now#" + fmt.Sprint(rank)
		}
		tv := f.Coll.VerifBufferedTrace(e.id)
		roff := "-"
		if tv != nil {
			switch {
			case tv.SendBy.After(now):
				roff = tv.SendBy.Sub(now).String()
			case tv.SendBy.Equal(now):
				roff = "now"
			default:
				// rank among real expired SendBy values
				n := 0
				seen := map[int64]bool{}
				for _, o := range es {
					if ot := f.Coll.VerifBufferedTrace(o.id); ot != nil && ot.SendBy.Before(tv.SendBy) && !seen[ot.SendBy.UnixNano()] {
						seen[ot.SendBy.UnixNano()] = true
						n++
					}
				}
				roff = "exp#" + fmt.Sprint(n)
			}
		}
		fmt.Fprintf(&cb, "%s@%s/%s;", e.txt, off, roff)
	}
	var dk []string
	for id := range decided {
		dk = append(dk, id)
	}
	sort.Strings(dk)
	fmt.Fprintf(&cb, "|decided%v", dk)
	if s.reuse {
		// what the decision cache still knows decides whether a later span is late or starts a new fragment.
		// The absolute time is part of the state here: for the real code only the remaining offsets matter, but
		// an implementation that keeps timing state of a fragment that left the buffer (a stale queue entry)
		// would differ between two histories that this abstraction would otherwise merge.
		fmt.Fprintf(&cb, "|t=%v", now.Sub(fx.T0))
		for _, id := range dk {
			d := f.Remembered(id)
			fmt.Fprintf(&cb, "|%s:%s:kept=%v:dropped=%v", id, how[id], d.Kept, d.Dropped())
		}
	}
	hn := &hint{buffered: make([]bool, len(s.ids)), decided: make([]bool, len(s.ids)), spans: make([]int, len(s.ids)), perWorker: make([]int, s.workers)}
	for k, id := range s.ids {
		_, hn.buffered[k] = model[id]
		hn.decided[k] = decided[id]
		hn.spans[k] = nspan[id]
		if hn.buffered[k] {
			hn.perWorker[model[id].worker]++
		}
	}
	if dl, ok := nextDeadline(); ok {
		hn.nextDL = dl.Sub(now)
	}
	s.hints.Store(key(h), hn)
	var fl []string
	for k := range flags {
		fl = append(fl, k)
	}
	sort.Strings(fl)
	return cb.String(), strings.Join(fl, ","), nil
}

func key(h []event) string { b, _ := json.Marshal(h); return string(b) }

func (s *scenario) enabled(h []event) []event {
	hn := &hint{buffered: make([]bool, len(s.ids)), decided: make([]bool, len(s.ids)), spans: make([]int, len(s.ids)), perWorker: make([]int, s.workers)}
	if v, ok := s.hints.Load(key(h)); ok {
		hn = v.(*hint)
	}
	var out []event
	for t := range s.ids {
		if (hn.decided[t] && !s.reuse) || hn.spans[t] >= s.maxSpans { // spans of decided traces are late spans: C01's subject
			continue
		}
		kinds := s.kinds
		if ks, ok := s.kindsOf[t]; ok {
			kinds = ks
		}
		for _, k := range kinds {
			out = append(out, event{Op: "span", T: t, K: k})
		}
	}
	if hn.nextDL > 0 {
		for _, d := range []time.Duration{-1, 0, 1} {
			if hn.nextDL+d > 0 {
				out = append(out, event{Op: "adv", D: d})
			}
		}
		for _, d := range s.fixedAdv {
			out = append(out, event{Op: "adv", D: d, F: true})
		}
	}
	for w := 0; w < s.workers; w++ {
		if hn.perWorker[w] > 0 {
			out = append(out, event{Op: "tick", W: w})
			if s.reuse {
				out = append(out, event{Op: "eject", W: w})
			}
		}
	}
	return out
}

func main() {
	r := ev.New("C03", "model_checking")
	det := func(n int) func() any { return func() any { return &config.DeterministicSamplerConfig{SampleRate: n} } }
	ids1 := cx.PickIDs(1, det(2), []cx.Want{{Worker: 0, Keep: cx.Bool(true)}, {Worker: 0, Keep: cx.Bool(false)}, {Worker: 0, Keep: cx.Bool(true)}})
	ids2 := cx.PickIDs(2, det(2), []cx.Want{{Worker: 0, Keep: cx.Bool(true)}, {Worker: 0, Keep: cx.Bool(false)}, {Worker: 1, Keep: cx.Bool(true)}})
	var scs []*scenario
	for _, sd := range []time.Duration{0, time.Second} {
		for _, tt := range []time.Duration{0, 5 * time.Second} {
			for _, sl := range []uint{0, 2} {
				for _, mx := range []uint{0, 1, 2} {
					kinds := []fx.Kind{fx.Root, fx.Child}
					if sl > 0 {
						kinds = append(kinds, fx.SpanEvent)
					}
					// quick: every configuration to depth 5, the all-non-default ones to depth 6; thorough: depth 7
					depth := ev.Pick(r, 5, 7)
					if sd != 0 && tt != 0 {
						depth = ev.Pick(r, 6, 7)
					}
					// every history of length <= 3 (thorough: 4) is executed whatever the canonical key says; kept small, this
					// is one of the slowest quick tiers (24 configurations)
					noMerge := ev.Pick(r, 2, 3)
					scs = append(scs, &scenario{
						name:    fmt.Sprintf("SendDelay=%v,TraceTimeout=%v,SpanLimit=%d,MaxExpiredTraces=%d", sd, tt, sl, mx),
						tc:      config.TracesConfig{SendDelay: config.Duration(sd), TraceTimeout: config.Duration(tt), SpanLimit: sl, MaxExpiredTraces: mx, SendTicker: config.Duration(100 * time.Millisecond)},
						workers: 1, ids: ids1, kinds: kinds, sampler: det(1), keepAll: true, depth: depth, maxSpans: 3,
						fixedAdv: ev.Pick(r, []time.Duration(nil), []time.Duration{300 * time.Millisecond}),
						noMerge:  noMerge,
					})
				}
			}
		}
	}
	depth := ev.Pick(r, 6, 7)
	// two workers (MaxExpiredTraces applies to each worker's own tick) and a sampler that drops one trace
	scs = append(scs, &scenario{name: "2workers,det2,SendDelay=1s,TraceTimeout=5s,SpanLimit=2,MaxExpiredTraces=1",
		tc:      config.TracesConfig{SendDelay: config.Duration(time.Second), TraceTimeout: config.Duration(5 * time.Second), SpanLimit: 2, MaxExpiredTraces: 1, SendTicker: config.Duration(100 * time.Millisecond)},
		workers: 2, ids: ids2, kinds: []fx.Kind{fx.Root, fx.Child}, sampler: det(2), keepAll: false, depth: depth, maxSpans: 3, noMerge: 3})
	// ejection, then the same trace ID again: with a kept-decision cache of one entry the record of an ejected
	// trace is pushed out by the next kept decision, so a later span starts a new fragment of that trace, whose
	// deadline is TraceTimeout after ITS first span (nothing of the ejected fragment may survive in the timing state)
	scs = append(scs, &scenario{name: "reuse-after-ejection,SendDelay=1s,TraceTimeout=5s,KeptSize=1",
		tc:      config.TracesConfig{SendDelay: config.Duration(time.Second), TraceTimeout: config.Duration(5 * time.Second), SendTicker: config.Duration(100 * time.Millisecond)},
		workers: 1, ids: []string{ids1[0], ids1[2]}, kinds: []fx.Kind{fx.Child}, kindsOf: map[int][]fx.Kind{1: {fx.Root}}, sampler: det(1), keepAll: true,
		depth: ev.Pick(r, 9, 10), maxSpans: 3, reuse: true, keptSize: 1, noMerge: 4})
	if only := os.Getenv("VERIF_SCENARIO"); only != "" {
		var fl []*scenario
		for _, s := range scs {
			if strings.Contains(s.name, only) {
				fl = append(fl, s)
			}
		}
		scs = fl
	}
	bounds := map[string]any{}
	// first, so that a thorough run whose budget ends inside the configuration grid below has covered this dimension
	if os.Getenv("VERIF_SCENARIO") == "" || strings.Contains(os.Getenv("VERIF_SCENARIO"), "reload") {
		reloadBFS(r, bounds)      // live reloads of the Traces settings, incl. two in a row before the worker takes the notification (reload.go)
		reloadLoopPart(r, bounds) // the same on the started worker loop
	}
	for _, s := range scs {
		s := s
		t := time.Now()
		st := seqx.Explore(r, seqx.Scenario[event]{
			Name: s.name, Enabled: s.enabled,
			Exec:     func(h []event) (string, string, *seqx.Failure) { return s.exec(r, h) },
			MaxDepth: s.depth, Workers: 16,
			NoMergeDepth: s.noMerge,
		})
		bounds[s.name] = map[string]any{"depth_bound": s.depth, "depth_completed": st.DepthCompleted, "states": st.States, "transitions": st.Transitions,
			"traces": s.ids, "kinds": fmt.Sprint(s.kinds), "workers": s.workers, "wall_s": time.Since(t).Seconds()}
		fmt.Printf("  %-70s depth %d/%d states %d transitions %d  %.1fs\n", s.name, st.DepthCompleted, s.depth, st.States, st.Transitions, time.Since(t).Seconds())
	}
	// loop conformance: the same timing through the really started worker loops (real tickers on the fake clock)
	nloop := 0
	for _, tick := range []time.Duration{500 * time.Millisecond, time.Second} {
		ls := &cx.Scenario{Name: "loop,SendTicker=" + tick.String(), Workers: 1, IDs: ids1[:2], Kinds: []fx.Kind{fx.Root, fx.Child}, Samplers: []func() any{det(1)},
			KeptPerWorker: 8, LoopTick: tick, LoopNoEject: true,
			Traces: config.TracesConfig{SendDelay: config.Duration(time.Second), TraceTimeout: config.Duration(2 * time.Second), SpanLimit: 2, MaxExpiredTraces: 1}}
		d := ev.Pick(r, 4, 6)
		t := time.Now()
		n := ls.LoopConformance(r, "c03:", d)
		nloop += n
		bounds[ls.Name] = map[string]any{"depth": d, "histories": n, "wall_s": time.Since(t).Seconds()}
		fmt.Printf("  %-70s depth %d histories %d  %.1fs\n", ls.Name, d, n, time.Since(t).Seconds())
	}
	jumpPart(r) // the worker services a tick late (jump.go)
	r.Set("bounds", bounds)
	r.Set("traces_validated_against_impl", nloop)
	r.Finish()
}
