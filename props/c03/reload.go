package main

// C03 under LIVE RELOADS of the Traces settings the statement quantifies over (SendDelay, TraceTimeout, SpanLimit,
// MaxExpiredTraces): "its deadline", "SpanLimit" and "MaxExpiredTraces" are those of the configuration IN FORCE.
//
// Part R1 (reloadBFS, engine E1): the BFS of main.go with two more events, executed on the real objects through the real
// propagation path:
//
//	reload(k)  the configuration object now answers configuration k, and the collector-level reload handler
//	           InMemCollector.reloadConfigs runs (the monitor goroutine's `case <-i.reload` body): it leaves a
//	           notification on the worker's 1-slot reload channel with a NON-BLOCKING send - a second reload before the
//	           worker has taken the first notification coalesces with it;
//	take       the worker's real collect() loop takes the pending notification and runs its reload case.
//
// Up to two reloads may be pending before a take (reload, reload, take = two reloads in a row while the worker is busy).
//
// Oracle. The statement fixes the settings only once the worker has processed its notification, and it does not say
// which configuration a term of the deadline follows if the settings changed while the trace was buffered. So every
// term is an INTERVAL over the configurations that were admissible at some instant between the arrival that starts the
// term and now, where the admissible set is {latest configuration} when no notification is pending and
// {configuration at the last take, every configuration reloaded since} while one is pending:
//
//	lo = min( first+min TraceTimeout , min over roots(root+min SendDelay) , first instant count > SpanLimit of SOME admissible cfg, or a reload to such a cfg )
//	hi = min( first+max TraceTimeout , min over roots(root+max SendDelay) , first arrival at which count > SpanLimit of EVERY admissible cfg )
//
// no trace is decided at now < lo; a trace with hi < now is decided unless the per-tick cap of an admissible
// configuration is reached; at most max(cap) are decided (no cap if an admissible configuration has none); a trace left
// waiting has no hi earlier than the lo of a decided one; the send reason is the one an admissible configuration gives.
// For a trace whose whole life lies after the last take and with nothing reloaded since, lo = hi = the deadline of
// main.go's model under the configuration in force: exact.
//
// Part R2 (reloadLoopPart): the same dimension on the really STARTED worker loop (own ticker on the fake clock, select
// over its real channels): the worker is parked on its own pause channel ("busy"), one or two reloads are
// distributed by reloadConfigs, the worker resumes and takes the notification; spans before and after, then the clock
// moves tick by tick past every deadline. Exact oracle for traces that start after the worker resumed.

import (
	"fmt"
	"os"
	"sort"
	"strings"
	"sync"
	"time"

	"github.com/honeycombio/refinery/collect"
	"github.com/honeycombio/refinery/config"

	"verif/engine/ev"
	"verif/engine/seqx"
	fx "verif/fix/collector"
	"verif/fix/collector/cx"
)

type revent struct {
	Op string        `json:"op"` // span | adv | tick | reload | take
	T  int           `json:"t,omitempty"`
	K  fx.Kind       `json:"k,omitempty"`
	D  time.Duration `json:"d,omitempty"`
	F  bool          `json:"f,omitempty"`
	C  int           `json:"c,omitempty"` // reload: index of the configuration that comes into force
}

func (e revent) String() string {
	switch e.Op {
	case "span":
		return fmt.Sprintf("span(%d,%s)", e.T, e.K)
	case "adv":
		if e.F {
			return "adv(" + e.D.String() + ")"
		}
		return fmt.Sprintf("adv(next-boundary%+dns)", int64(e.D))
	case "reload":
		return fmt.Sprintf("reload(cfg%d)", e.C)
	case "take":
		return "worker-takes-reload-notification"
	}
	return "tick"
}

func rhist(h []revent) string {
	var p []string
	for _, e := range h {
		p = append(p, e.String())
	}
	return strings.Join(p, " ")
}

type rscenario struct {
	name         string
	cfgs         []config.TracesConfig // cfgs[0] is in force at start
	ids          []string
	kinds        []fx.Kind
	depth        int
	maxSpans     int
	maxReloads   int  // reload events per history
	whilePending bool // spans / advances / ticks are also offered while a notification is pending (judged leniently)
	noMerge      int
	hints        sync.Map
}

type rhint struct {
	buffered, decided []bool
	spans             []int
	nextDL            time.Duration
	cur, pending      int
	reloads           int
}

func tcSendDelay(c config.TracesConfig) time.Duration {
	if d := time.Duration(c.SendDelay); d != 0 {
		return d
	}
	return 2 * time.Second // config.md: SendDelay default 2s
}
func tcTraceTimeout(c config.TracesConfig) time.Duration {
	if d := time.Duration(c.TraceTimeout); d != 0 {
		return d
	}
	return 60 * time.Second // config.md: TraceTimeout default 60s
}

func tcString(c config.TracesConfig) string {
	return fmt.Sprintf("SendDelay=%v,TraceTimeout=%v,SpanLimit=%d,MaxExpiredTraces=%d", time.Duration(c.SendDelay), time.Duration(c.TraceTimeout), c.SpanLimit, c.MaxExpiredTraces)
}

type rarrival struct {
	at   time.Time
	cfgs uint // bit set of configurations admissible at some instant since `at`
}

type rtrace struct {
	id      string
	count   int
	hasRoot bool
	first   rarrival
	roots   []rarrival
	loOver  time.Time // zero = never
	hiOver  time.Time
}

func (s *rscenario) bounds(m *rtrace) (lo, hi time.Time) {
	span := func(a rarrival, d func(config.TracesConfig) time.Duration) (time.Time, time.Time) {
		var mn, mx time.Duration
		first := true
		for k, c := range s.cfgs {
			if a.cfgs&(1<<uint(k)) == 0 {
				continue
			}
			v := d(c)
			if first || v < mn {
				mn = v
			}
			if first || v > mx {
				mx = v
			}
			first = false
		}
		return a.at.Add(mn), a.at.Add(mx)
	}
	lo, hi = span(m.first, tcTraceTimeout)
	for _, rt := range m.roots {
		l, h := span(rt, tcSendDelay)
		if l.Before(lo) {
			lo = l
		}
		if h.Before(hi) {
			hi = h
		}
	}
	if !m.loOver.IsZero() && m.loOver.Before(lo) {
		lo = m.loOver
	}
	if !m.hiOver.IsZero() && m.hiOver.Before(hi) {
		hi = m.hiOver
	}
	return
}

func reasonUnder(m *rtrace, c config.TracesConfig) string {
	switch {
	case m.hasRoot:
		return collect.TraceSendGotRoot
	case c.SpanLimit > 0 && uint(m.count) > c.SpanLimit:
		return collect.TraceSendSpanLimit
	}
	return collect.TraceSendExpired
}

func (s *rscenario) exec(r *ev.Run, h []revent) (string, string, *seqx.Failure) {
	det1 := func() any { return &config.DeterministicSamplerConfig{SampleRate: 1} }
	f := fx.New(fx.Options{Workers: 1, Traces: s.cfgs[0], Sampler: det1, AddRuleReasonToTrace: true, KeptSize: 16})
	defer f.Close()
	model := map[string]*rtrace{}
	decided := map[string]bool{}
	nspan := map[string]int{}
	flags := map[string]bool{}
	cur, base := 0, 0
	var pending, lastBatch []int
	reloads := 0
	describe := func() string {
		var p []string
		for k, c := range s.cfgs {
			p = append(p, fmt.Sprintf("cfg%d={%s}", k, tcString(c)))
		}
		return strings.Join(p, " ")
	}
	fail := func(sig, format string, a ...any) (string, string, *seqx.Failure) {
		return "", "", &seqx.Failure{Sig: "c03:reload:" + sig, What: fmt.Sprintf(format, a...) + "  [" + describe() + "; cfg0 in force at start; history: " + rhist(h) + "]"}
	}
	admissible := func() uint {
		m := uint(1) << uint(cur)
		if len(pending) > 0 {
			m |= 1 << uint(base)
			for _, p := range pending {
				m |= 1 << uint(p)
			}
		}
		return m
	}
	in := func(set uint) []config.TracesConfig {
		var out []config.TracesConfig
		for k, c := range s.cfgs {
			if set&(1<<uint(k)) != 0 {
				out = append(out, c)
			}
		}
		return out
	}
	inForce := func() string {
		if len(pending) == 0 {
			return fmt.Sprintf("configuration in force: cfg%d, the worker has processed every reload notification", cur)
		}
		return fmt.Sprintf("latest configuration cfg%d, notification not yet processed by the worker (cfg%d at its last take, reloaded since: %v)", cur, base, pending)
	}
	boundaries := func() (time.Duration, bool) {
		now := f.Now()
		var best time.Time
		ok := false
		for _, m := range model {
			lo, hi := s.bounds(m)
			for _, t := range []time.Time{lo, hi} {
				if t.After(now) && (!ok || t.Before(best)) {
					best, ok = t, true
				}
			}
		}
		return best.Sub(now), ok
	}
	for step, e := range h {
		switch e.Op {
		case "reload":
			c := s.cfgs[e.C]
			f.ReloadSignal(func(m *config.MockConfig) { m.GetTracesConfigVal = c })
			if !f.Coll.VerifReloadPending(0) {
				return fail("no-notification-left-for-the-worker", "step %d: reloadConfigs returned and the worker's reload channel is empty", step)
			}
			pending = append(pending, e.C)
			cur = e.C
			reloads++
			now := f.Now()
			for _, m := range model {
				m.first.cfgs |= 1 << uint(e.C)
				for k := range m.roots {
					m.roots[k].cfgs |= 1 << uint(e.C)
				}
				if c.SpanLimit > 0 && uint(m.count) > c.SpanLimit && m.loOver.IsZero() {
					m.loOver = now // a reading under which the lowered limit applies at once is admissible too
				}
			}
		case "take":
			f.WorkerReload(0)
			if f.Coll.VerifReloadPending(0) {
				ev.Harness("C03 reload: the worker loop did not take the notification: %s", rhist(h))
			}
			base, lastBatch, pending = cur, pending, nil
		case "span":
			id := s.ids[e.T]
			nspan[id]++
			now := f.Now()
			_, was := model[id]
			f.Span(fx.SpanSpec{TraceID: id, Kind: e.K, ID: fmt.Sprintf("%s.%d", id, nspan[id])})
			tv := f.Coll.VerifBufferedTrace(id)
			switch {
			case tv == nil && was:
				return fail("span-removed-trace", "step %d: delivering %v removed trace %s from the buffer", step, e, id)
			case tv == nil:
				ev.Harness("C03 reload: span of a decided trace offered: %s", rhist(h))
			}
			adm := admissible()
			m := model[id]
			if m == nil {
				m = &rtrace{id: id, first: rarrival{now, adm}}
				model[id] = m
			}
			m.count++
			if e.K == fx.Root {
				m.hasRoot = true
				m.roots = append(m.roots, rarrival{now, adm})
			}
			some, all := false, true
			for _, c := range in(adm) {
				if c.SpanLimit > 0 && uint(m.count) > c.SpanLimit {
					some = true
				} else {
					all = false
				}
			}
			if some && m.loOver.IsZero() {
				m.loOver = now
			}
			if all && m.hiOver.IsZero() {
				m.hiOver = now
				flags["over-limit"] = true
			}
		case "adv":
			if e.F {
				f.Advance(e.D)
				break
			}
			d, ok := boundaries()
			if !ok || d+e.D <= 0 {
				ev.Harness("C03 reload: adv offered without a future boundary: %s", rhist(h))
			}
			f.Advance(d + e.D)
		case "tick":
			now := f.Now()
			adm := in(admissible())
			strict := len(adm) == 1
			before := map[string]bool{}
			for _, v := range f.Buffered(0) {
				before[v.TraceID] = true
			}
			counters0 := f.SendReasonCounters()
			q0 := len(f.Outgoing())
			tx0 := f.Tx.Len()
			f.Tick(0)
			after := map[string]bool{}
			for _, v := range f.Buffered(0) {
				after[v.TraceID] = true
			}
			var ids []string
			for id := range before {
				ids = append(ids, id)
			}
			sort.Strings(ids)
			var D []*rtrace
			inD := map[string]bool{}
			for _, id := range ids {
				if !after[id] {
					m := model[id]
					if m == nil {
						ev.Harness("C03 reload: trace %s decided but unknown to the model: %s", id, rhist(h))
					}
					D = append(D, m)
					inD[id] = true
				}
			}
			okReasons := func(m *rtrace) map[string]bool {
				o := map[string]bool{}
				for _, c := range adm {
					o[reasonUnder(m, c)] = true
				}
				return o
			}
			anyReason := func(m *rtrace) string { // for signatures: the reason under the latest configuration
				return reasonUnder(m, s.cfgs[cur])
			}
			for _, m := range D {
				lo, _ := s.bounds(m)
				if lo.After(now) {
					return fail("decided-before-deadline:"+anyReason(m),
						"step %d: tick at +%v decided trace %s, whose deadline under the configuration in force is +%v (%v too early; root=%v, %d spans; %s)",
						step, now.Sub(fx.T0), m.id, lo.Sub(fx.T0), lo.Sub(now), m.hasRoot, m.count, inForce())
				}
			}
			// per-tick cap: the largest admissible one (none if an admissible configuration has no cap)
			noCap, maxCap, minCap := false, 0, 0
			for _, c := range adm {
				v := int(c.MaxExpiredTraces)
				switch {
				case v == 0:
					noCap = true
				default:
					maxCap = max(maxCap, v)
					if minCap == 0 || v < minCap {
						minCap = v
					}
				}
			}
			if !noCap && len(D) > maxCap {
				return fail("more-than-max-per-tick", "step %d: one tick decided %d traces, MaxExpiredTraces is %d (%s)", step, len(D), maxCap, inForce())
			}
			capReached := minCap > 0 && len(D) >= minCap
			for _, id := range ids {
				u := model[id]
				if inD[id] || u == nil {
					continue
				}
				_, hi := s.bounds(u)
				if hi.Before(now) && !capReached {
					return fail("not-decided-at-tick:"+anyReason(u),
						"step %d: tick at +%v left trace %s undecided although its deadline +%v has passed (root=%v, %d spans; decided this tick: %d; %s)",
						step, now.Sub(fx.T0), id, hi.Sub(fx.T0), u.hasRoot, u.count, len(D), inForce())
				}
				if !hi.After(now) {
					for _, m := range D {
						if lo, _ := s.bounds(m); hi.Before(lo) {
							return fail("not-earliest-first", "step %d: tick decided trace %s (deadline +%v) but left %s (earlier deadline +%v) waiting (%s)", step, m.id, lo.Sub(fx.T0), id, hi.Sub(fx.T0), inForce())
						}
					}
					flags["waiting-past-deadline"] = true
				}
			}
			out := f.Outgoing()[q0:]
			got := map[string]string{}
			for _, o := range out {
				got[o.TraceID] = o.SendReason
			}
			want := map[string]int64{}
			for _, m := range D {
				if !okReasons(m)[got[m.id]] {
					return fail("wrong-send-reason:"+anyReason(m)+"-reported-as-"+got[m.id],
						"step %d: trace %s (root=%v, %d spans) queued with send reason %q, expected %q (%s)", step, m.id, m.hasRoot, m.count, got[m.id], anyReason(m), inForce())
				}
				want[anyReason(m)]++
				flags[got[m.id]] = true
				if strict {
					flags["decided-under-exact-oracle"] = true
				}
			}
			if strict {
				c1 := f.SendReasonCounters()
				for _, n := range []string{collect.TraceSendGotRoot, collect.TraceSendExpired, collect.TraceSendSpanLimit, collect.TraceSendEjectedMemsize, collect.TraceSendEjectedFull} {
					if c1[n]-counters0[n] != want[n] {
						return fail("wrong-send-reason-metric:"+n, "step %d: metric %s moved by %d during the tick, expected %d (%s)", step, n, c1[n]-counters0[n], want[n], inForce())
					}
				}
			}
			f.SendAll()
			for _, sent := range f.Tx.Log(tx0) {
				m := model[sent.TraceID]
				if m == nil || !inD[sent.TraceID] {
					continue
				}
				if !okReasons(m)[fmt.Sprint(sent.Fields["meta.refinery.send_reason"])] {
					return fail("wrong-send-reason-field:"+anyReason(m), "step %d: span %s of trace %s transmitted with meta.refinery.send_reason=%v, expected %s (%s)",
						step, sent.SpanID, sent.TraceID, sent.Fields["meta.refinery.send_reason"], anyReason(m), inForce())
				}
			}
			for _, m := range D {
				delete(model, m.id)
				decided[m.id] = true
			}
		}
	}
	// canonical state. Everything the oracle will use later is in it with its exact offset from now; the reload
	// history that could live on as hidden state in an implementation (what was sent on the reload channel and in
	// which order) is in it as well: the configuration at the last take, the batch taken last, the pending batch.
	now := f.Now()
	var ms []*rtrace
	for _, m := range model {
		ms = append(ms, m)
	}
	sort.Slice(ms, func(a, b int) bool { return ms[a].id < ms[b].id })
	off := func(t time.Time) string {
		if t.IsZero() {
			return "-"
		}
		return t.Sub(now).String()
	}
	var cb strings.Builder
	fmt.Fprintf(&cb, "cur%d base%d pending%v last%v n%d|", cur, base, pending, lastBatch, reloads)
	for _, m := range ms {
		tv := f.Coll.VerifBufferedTrace(m.id)
		real := "?"
		if tv != nil {
			var ks []string
			for _, sp := range tv.GetSpans() {
				k := "c"
				if sp.IsRoot {
					k = "r"
				}
				ks = append(ks, k)
			}
			sort.Strings(ks)
			real = fmt.Sprintf("%s/%v/%s", strings.Join(ks, ""), tv.RootSpan != nil, off(tv.SendBy))
		}
		fmt.Fprintf(&cb, "%s:%d:%v:first%s/%b:over%s/%s:", m.id, m.count, m.hasRoot, off(m.first.at), m.first.cfgs, off(m.loOver), off(m.hiOver))
		for _, rt := range m.roots {
			fmt.Fprintf(&cb, "root%s/%b:", off(rt.at), rt.cfgs)
		}
		fmt.Fprintf(&cb, "real%s;", real)
	}
	var dk []string
	for id := range decided {
		dk = append(dk, id)
	}
	sort.Strings(dk)
	fmt.Fprintf(&cb, "|decided%v", dk)
	hn := &rhint{buffered: make([]bool, len(s.ids)), decided: make([]bool, len(s.ids)), spans: make([]int, len(s.ids)), cur: cur, pending: len(pending), reloads: reloads}
	for k, id := range s.ids {
		_, hn.buffered[k] = model[id]
		hn.decided[k] = decided[id]
		hn.spans[k] = nspan[id]
	}
	if d, ok := boundaries(); ok {
		hn.nextDL = d
	}
	s.hints.Store(rkey(h), hn)
	var fl []string
	for k := range flags {
		fl = append(fl, k)
	}
	sort.Strings(fl)
	return cb.String(), strings.Join(fl, ","), nil
}

func rkey(h []revent) string { return ev.J(h) }

const rTick = 100 * time.Millisecond

func (s *rscenario) enabled(h []revent) []revent {
	hn := &rhint{buffered: make([]bool, len(s.ids)), decided: make([]bool, len(s.ids)), spans: make([]int, len(s.ids))}
	if v, ok := s.hints.Load(rkey(h)); ok {
		hn = v.(*rhint)
	}
	var out []revent
	if hn.pending == 0 || s.whilePending {
		nb := 0
		for t := range s.ids {
			if hn.buffered[t] {
				nb++
			}
			if hn.decided[t] || hn.spans[t] >= s.maxSpans { // spans of decided traces are late spans: C01's subject
				continue
			}
			for _, k := range s.kinds {
				out = append(out, revent{Op: "span", T: t, K: k})
			}
		}
		if hn.nextDL > 0 {
			for _, d := range []time.Duration{-1, 0, 1} {
				if hn.nextDL+d > 0 {
					out = append(out, revent{Op: "adv", D: d})
				}
			}
		}
		if nb > 0 {
			out = append(out, revent{Op: "adv", D: rTick, F: true}) // "the next send tick"
			out = append(out, revent{Op: "tick"})
		}
	}
	if hn.pending > 0 {
		out = append(out, revent{Op: "take"})
	}
	if hn.reloads < s.maxReloads && hn.pending < 2 {
		for c := range s.cfgs {
			if c != hn.cur {
				out = append(out, revent{Op: "reload", C: c})
			}
		}
	}
	return out
}

func reloadBFS(r *ev.Run, bounds map[string]any) {
	det1 := func() any { return &config.DeterministicSamplerConfig{SampleRate: 1} }
	ids := cx.PickIDs(1, det1, []cx.Want{{Worker: 0, Keep: cx.Bool(true)}, {Worker: 0, Keep: cx.Bool(true)}})
	tc := func(sd, tt time.Duration, sl, mx uint) config.TracesConfig {
		return config.TracesConfig{SendDelay: config.Duration(sd), TraceTimeout: config.Duration(tt), SpanLimit: sl, MaxExpiredTraces: mx, SendTicker: config.Duration(rTick)}
	}
	type pair struct {
		name   string
		a, b   config.TracesConfig
		traces int
		la, lb string
	}
	// one setting changes at a time (an implementation may keep a copy of just one of them), and all four at once
	// with the zero defaults on one side
	pairs := []pair{
		{"SendDelay", tc(time.Second, 5*time.Second, 0, 0), tc(0, 5*time.Second, 0, 0), 1, "1s", "0(=2s)"},
		{"TraceTimeout", tc(time.Second, 5*time.Second, 0, 0), tc(time.Second, 0, 0, 0), 1, "5s", "0(=60s)"},
		{"SpanLimit", tc(time.Second, 5*time.Second, 1, 0), tc(time.Second, 5*time.Second, 0, 0), 1, "1", "0"},
		{"MaxExpiredTraces", tc(time.Second, 5*time.Second, 0, 1), tc(time.Second, 5*time.Second, 0, 0), 2, "1", "0"},
		{"all-four", tc(time.Second, 5*time.Second, 1, 1), tc(0, 0, 0, 0), 2, "1s/5s/1/1", "zero-defaults"},
	}
	var scs []*rscenario
	for _, p := range pairs {
		for _, rev := range []bool{false, true} {
			a, b, la, lb := p.a, p.b, p.la, p.lb
			if rev {
				a, b, la, lb = b, a, lb, la
			}
			sc := &rscenario{
				name: fmt.Sprintf("reload:%s,cfg0=%s,cfg1=%s", p.name, la, lb),
				cfgs: []config.TracesConfig{a, b}, ids: ids[:p.traces], kinds: []fx.Kind{fx.Root, fx.Child},
				depth: ev.Pick(r, 7, 8), maxSpans: 2, maxReloads: ev.Pick(r, 2, 3), whilePending: true, noMerge: ev.Pick(r, 3, 4),
			}
			switch p.name {
			case "all-four":
				sc.depth = 6
			case "MaxExpiredTraces": // the cap needs two traces past their deadlines, not two spans in one trace
				sc.maxSpans, sc.depth = ev.Pick(r, 1, 2), 7
			}
			scs = append(scs, sc)
		}
	}
	// three configurations, so that two reloads in a row can end on a configuration that is neither the one at the
	// worker's last take nor the first of the batch
	scs = append(scs, &rscenario{
		name: "reload:three-configurations",
		cfgs: []config.TracesConfig{tc(time.Second, 5*time.Second, 0, 0), tc(300*time.Millisecond, 2*time.Second, 1, 0), tc(0, 0, 0, 1)},
		ids:  ids[:1], kinds: []fx.Kind{fx.Root, fx.Child}, depth: ev.Pick(r, 6, 7), maxSpans: 2, maxReloads: ev.Pick(r, 2, 3), whilePending: true, noMerge: 3,
	})
	if only := os.Getenv("VERIF_SCENARIO"); only != "" {
		var fl []*rscenario
		for _, s := range scs {
			if strings.Contains(s.name, only) {
				fl = append(fl, s)
			}
		}
		scs = fl
	}
	for _, s := range scs {
		s := s
		t := time.Now()
		st := seqx.Explore(r, seqx.Scenario[revent]{
			Name: s.name, Enabled: s.enabled,
			Exec:     func(h []revent) (string, string, *seqx.Failure) { return s.exec(r, h) },
			MaxDepth: s.depth, Workers: 16, NoMergeDepth: s.noMerge,
		})
		var cs []string
		for _, c := range s.cfgs {
			cs = append(cs, tcString(c))
		}
		bounds[s.name] = map[string]any{"configurations": cs, "depth_bound": s.depth, "depth_completed": st.DepthCompleted, "states": st.States, "transitions": st.Transitions,
			"traces": s.ids, "kinds": fmt.Sprint(s.kinds), "max_spans_per_trace": s.maxSpans, "max_reload_events": s.maxReloads, "max_pending_reloads_before_a_take": 2,
			"events_while_notification_pending": s.whilePending, "wall_s": time.Since(t).Seconds()}
		fmt.Printf("  %-70s depth %d/%d states %d transitions %d  %.1fs\n", s.name, st.DepthCompleted, s.depth, st.States, st.Transitions, time.Since(t).Seconds())
	}
	r.Assume("reload part: a reload event = the configuration object answers the new Traces settings + InMemCollector.reloadConfigs (the monitor's reload case body) run on the exploring goroutine; take = the worker's real collect() loop consumes the notification; while a notification is pending the oracle accepts every configuration between the one at the worker's last take and the latest")
}

// ---- R2: the started worker loop

// reloadLoopPart enumerates, on a loop-mode fixture (worker, sender and monitor goroutines running, SendTicker 100 ms):
//
//	pre    in { nothing, a child span of trace P }                                  (a trace buffered across the reloads)
//	reload in { cfg1 | cfg1,cfg0 | cfg1,cfg2 } distributed while the worker is parked (1 or 2 reloads before the worker
//	         takes the notification), or { cfg1 } through Config.Reload -> monitor goroutine -> reloadConfigs
//	post   in a list of span sequences over two fresh traces A, B (root / child / child,child / child,root / two traces)
//	then   the clock moves from tick instant to tick instant until every deadline has passed by 2 ticks
//
// for pairs of configurations differing in one setting, in both directions. A and B start after the worker has taken
// the notification: their deadlines, span limit and per-tick cap are exactly those of the configuration in force (the
// last one reloaded). P is only required not to outlive every reading of its deadline by a tick.
func reloadLoopPart(r *ev.Run, bounds map[string]any) {
	det1 := func() any { return &config.DeterministicSamplerConfig{SampleRate: 1} }
	ids := cx.PickIDs(1, det1, []cx.Want{{Worker: 0, Keep: cx.Bool(true)}, {Worker: 0, Keep: cx.Bool(true)}, {Worker: 0, Keep: cx.Bool(true)}})
	tc := func(sd, tt time.Duration, sl, mx uint) config.TracesConfig {
		return config.TracesConfig{SendDelay: config.Duration(sd), TraceTimeout: config.Duration(tt), SpanLimit: sl, MaxExpiredTraces: mx, SendTicker: config.Duration(rTick)}
	}
	const ms = time.Millisecond
	base := tc(200*ms, 600*ms, 0, 0)
	type triple struct {
		name string
		c    [3]config.TracesConfig
	}
	var sets []triple
	for _, v := range []struct {
		name string
		alt  config.TracesConfig
		alt2 config.TracesConfig
	}{
		{"SendDelay", tc(400*ms, 600*ms, 0, 0), tc(300*ms, 600*ms, 0, 0)},
		{"TraceTimeout", tc(200*ms, 900*ms, 0, 0), tc(200*ms, 400*ms, 0, 0)},
		{"SpanLimit", tc(200*ms, 600*ms, 1, 0), tc(200*ms, 600*ms, 2, 0)},
		{"MaxExpiredTraces", tc(200*ms, 600*ms, 0, 1), tc(200*ms, 600*ms, 0, 2)},
	} {
		sets = append(sets, triple{v.name, [3]config.TracesConfig{base, v.alt, v.alt2}}, triple{v.name + ",reversed", [3]config.TracesConfig{v.alt, base, v.alt2}})
	}
	type sp struct {
		t int // 1 = A, 2 = B
		k fx.Kind
	}
	posts := [][]sp{
		{{1, fx.Root}}, {{1, fx.Child}}, {{1, fx.Child}, {1, fx.Child}}, {{1, fx.Child}, {1, fx.Child}, {1, fx.Child}}, {{1, fx.Child}, {1, fx.Root}},
		{{1, fx.Root}, {2, fx.Root}}, {{1, fx.Child}, {2, fx.Child}}, {{1, fx.Child}, {1, fx.Child}, {2, fx.Root}},
	}
	type pattern struct {
		name    string
		seq     []int
		monitor bool
	}
	patterns := []pattern{
		{"one reload through the monitor goroutine", []int{1}, true},
		{"one reload while the worker is busy", []int{1}, false},
		{"two reloads in a row while the worker is busy (cfg1, then back to cfg0)", []int{1, 0}, false},
		{"two reloads in a row while the worker is busy (cfg1, then cfg2)", []int{1, 2}, false},
	}
	t0 := time.Now()
	type job struct {
		set  triple
		pre  bool
		pat  pattern
		post []fx.SpanSpec
	}
	var jobs []job
	for _, set := range sets {
		for _, pre := range []bool{false, true} {
			for _, pat := range patterns {
				for _, post := range posts {
					var specs []fx.SpanSpec
					cnt := map[int]int{}
					for _, x := range post {
						cnt[x.t]++
						specs = append(specs, fx.SpanSpec{TraceID: ids[x.t], Kind: x.k, ID: fmt.Sprintf("%s.%d", ids[x.t], cnt[x.t])})
					}
					jobs = append(jobs, job{set, pre, pat, specs})
				}
			}
		}
	}
	type result struct {
		judged int64
		v      *rviol
	}
	res := make([]result, len(jobs))
	ch := make(chan int)
	var wg sync.WaitGroup
	for w := 0; w < 8; w++ {
		wg.Add(1)
		go func() {
			defer wg.Done()
			for i := range ch {
				j := jobs[i]
				res[i].judged, res[i].v = runReloadLoop(j.set.name, j.set.c, j.pre, j.pat.name, j.pat.seq, j.pat.monitor, ids, j.post)
			}
		}()
	}
	n := 0
	for i := range jobs {
		if r.Expired("reload histories on the started worker loop") {
			break
		}
		ch <- i
		n++
	}
	close(ch)
	wg.Wait()
	judged := int64(0)
	for _, x := range res { // enumeration order: the reported history of a signature does not depend on scheduling
		judged += x.judged
		if x.v != nil {
			r.Violation(x.v.sig, x.v.what, x.v.replay)
		}
	}
	r.Add("reload_loop_histories", int64(n))
	r.Add("reload_loop_traces_judged_exactly", judged)
	r.Add("transitions", int64(n))
	if judged == 0 && n > 0 {
		ev.Harness("C03 reload loop part judged no trace")
	}
	bounds["reload,started-worker-loop"] = map[string]any{"histories": n, "settings": "SendDelay 200/400/300ms, TraceTimeout 600/900/400ms, SpanLimit 0/1/2, MaxExpiredTraces 0/1/2 (one setting differs per history, both directions)",
		"reload_patterns": len(patterns), "post_reload_span_sequences": len(posts), "pre_reload_trace": []bool{false, true}, "SendTicker": rTick.String(), "wall_s": time.Since(t0).Seconds()}
	fmt.Printf("  %-70s histories %d traces judged %d  %.1fs\n", "reload,started-worker-loop", n, judged, time.Since(t0).Seconds())
}

type rviol struct {
	sig, what string
	replay    any
}

func runReloadLoop(setName string, cfgs [3]config.TracesConfig, pre bool, patName string, seq []int, viaMonitor bool, ids []string, post []fx.SpanSpec) (int64, *rviol) {
	det1 := func() any { return &config.DeterministicSamplerConfig{SampleRate: 1} }
	f := fx.New(fx.Options{Workers: 1, Loop: true, Sampler: det1, KeptSize: 16, AddRuleReasonToTrace: true, Traces: cfgs[0]})
	defer f.Close()
	desc := fmt.Sprintf("%s: cfg0={%s} cfg1={%s} cfg2={%s}; cfg0 at start", setName, tcString(cfgs[0]), tcString(cfgs[1]), tcString(cfgs[2]))
	if pre {
		f.AddSpan(f.MakeSpan(fx.SpanSpec{TraceID: ids[0], Kind: fx.Child, ID: ids[0] + ".1"}))
		desc += "; child span of " + ids[0] + " at +0"
	}
	preAt := f.Now()
	f.AdvanceLoop(rTick) // the reloads do not coincide with the start instant
	var muts []func(*config.MockConfig)
	for _, k := range seq {
		c := cfgs[k]
		muts = append(muts, func(m *config.MockConfig) { m.GetTracesConfigVal = c })
	}
	if viaMonitor {
		f.ReloadLoop(muts[0])
	} else {
		f.ReloadLoopWhileBusy(muts...)
	}
	cur := cfgs[seq[len(seq)-1]]
	desc += fmt.Sprintf("; at +%v %s, the worker then takes the notification; configuration in force {%s}", f.Now().Sub(fx.T0), patName, tcString(cur))
	replay := map[string]any{"scenario": "reload,started-worker-loop", "settings": setName, "pre": pre, "pattern": patName}
	if got := f.Conf.GetTracesConfig(); tcString(got) != tcString(cur) {
		ev.Harness("C03 reload loop: configuration object answers %s, expected %s", tcString(got), tcString(cur))
	}
	// exact model for the traces that start now
	type mt struct {
		id       string
		count    int
		hasRoot  bool
		deadline time.Time
	}
	model := map[string]*mt{}
	var order []string
	start := f.Now()
	for _, s := range post {
		f.AddSpan(f.MakeSpan(s))
		now := f.Now()
		m := model[s.TraceID]
		if m == nil {
			m = &mt{id: s.TraceID, deadline: now.Add(tcTraceTimeout(cur))}
			model[s.TraceID] = m
			order = append(order, s.TraceID)
		}
		m.count++
		lower := func(t time.Time) {
			if t.Before(m.deadline) {
				m.deadline = t
			}
		}
		if s.Kind == fx.Root {
			m.hasRoot = true
			lower(now.Add(tcSendDelay(cur)))
		}
		if cur.SpanLimit > 0 && uint(m.count) > cur.SpanLimit {
			lower(now)
		}
		desc += fmt.Sprintf("; %s span of %s at +%v", s.Kind, s.TraceID, now.Sub(fx.T0))
	}
	f.QuiesceAll()
	// the pre-reload trace: every reading of its deadline is over by then
	preHi := preAt
	if pre {
		mx := time.Duration(0)
		for _, c := range cfgs {
			mx = max(mx, tcTraceTimeout(c))
		}
		preHi = preAt.Add(mx)
	}
	last := start
	for _, m := range model {
		if m.deadline.After(last) {
			last = m.deadline
		}
	}
	if preHi.After(last) {
		last = preHi
	}
	maxExp := int(cur.MaxExpiredTraces)
	end := last.Add(time.Duration(2+len(model)) * rTick)
	cursor := f.Tx.Len()
	judged := int64(0)
	for f.Now().Before(end) {
		before := map[string]bool{}
		for _, v := range f.BufferedAll() {
			before[v.TraceID] = true
		}
		if got := f.AdvanceLoop(rTick); len(got) != 1 {
			ev.Harness("C03 reload loop: %d ticks in one SendTicker period", len(got))
		}
		f.QuiesceAll()
		f.SenderIdle()
		now := f.Now()
		still := map[string]bool{}
		for _, v := range f.BufferedAll() {
			still[v.TraceID] = true
		}
		log := f.Tx.Log(cursor)
		cursor += len(log)
		nD := 0
		for id := range before {
			if !still[id] {
				nD++
			}
		}
		if maxExp > 0 && nD > maxExp {
			return judged, &rviol{"c03:reload:loop:more-than-max-per-tick", fmt.Sprintf("%s: the tick at +%v decided %d traces, MaxExpiredTraces in force is %d", desc, now.Sub(fx.T0), nD, maxExp), replay}
		}
		capReached := maxExp > 0 && nD == maxExp
		for _, id := range order {
			m := model[id]
			if m == nil || !before[id] {
				continue
			}
			reason := collect.TraceSendExpired
			switch {
			case m.hasRoot:
				reason = collect.TraceSendGotRoot
			case cur.SpanLimit > 0 && uint(m.count) > cur.SpanLimit:
				reason = collect.TraceSendSpanLimit
			}
			if still[id] {
				if m.deadline.Before(now) && !capReached {
					return judged, &rviol{"c03:reload:loop:not-decided-at-tick:" + reason, fmt.Sprintf("%s: the tick at +%v left trace %s undecided although its deadline under the configuration in force, +%v, has passed (root=%v, %d spans; decided this tick: %d)",
						desc, now.Sub(fx.T0), id, m.deadline.Sub(fx.T0), m.hasRoot, m.count, nD), replay}
				}
				continue
			}
			if m.deadline.After(now) {
				return judged, &rviol{"c03:reload:loop:decided-before-deadline:" + reason, fmt.Sprintf("%s: the tick at +%v decided trace %s, whose deadline under the configuration in force is +%v (%v too early; root=%v, %d spans)",
					desc, now.Sub(fx.T0), id, m.deadline.Sub(fx.T0), m.deadline.Sub(now), m.hasRoot, m.count), replay}
			}
			seen := 0
			for _, s := range log {
				if s.TraceID != id {
					continue
				}
				seen++
				if got := fmt.Sprint(s.Fields["meta.refinery.send_reason"]); got != reason {
					return judged, &rviol{"c03:reload:loop:wrong-send-reason:" + reason + "-reported-as-" + got, fmt.Sprintf("%s: span %s of trace %s (root=%v, %d spans) transmitted at +%v with meta.refinery.send_reason=%s, expected %s",
						desc, s.SpanID, id, m.hasRoot, m.count, now.Sub(fx.T0), got, reason), replay}
				}
			}
			if seen == 0 {
				ev.Harness("C03 reload loop: trace %s left the buffer and nothing was transmitted (deterministic sampler rate 1)", id)
			}
			judged++
			delete(model, id)
		}
		if pre && still[ids[0]] && preHi.Before(now) && !capReached {
			return judged, &rviol{"c03:reload:loop:not-decided-at-tick:trace-buffered-across-the-reload", fmt.Sprintf("%s: the tick at +%v left trace %s undecided, TraceTimeout under every configuration of the history has passed (+%v)", desc, now.Sub(fx.T0), ids[0], preHi.Sub(fx.T0)), replay}
		}
	}
	if len(model) > 0 {
		ev.Harness("C03 reload loop: horizon too short, %d traces neither decided nor reported", len(model))
	}
	return judged, nil
}
