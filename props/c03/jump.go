package main

// "After its deadline a trace is decided at the next send tick" when the worker services that tick LATE.
//
// The BFS above runs the tick handler at the instant the harness chooses, and the loop-conformance part moves the
// fake clock from tick instant to tick instant, so in both the worker is never late. Here the real worker loop
// runs (loop mode) and the clock JUMPS over several ticker periods at once - what a worker sees after it was busy
// (a burst of spans, an ejection, a blocked send) or the process was paused: one tick is pending, due long ago,
// and it is serviced now. Every trace whose deadline has passed by now must be decided by that tick.
//
// Histories: {root span | child span} of one or two traces, then one jump of d over a grid of d around the
// deadlines (SendDelay 200 ms, TraceTimeout 600 ms, SendTicker 100 ms), then optionally a second jump.

import (
	"fmt"
	"time"

	"github.com/honeycombio/refinery/config"

	"verif/engine/ev"
	fx "verif/fix/collector"
	"verif/fix/collector/cx"
)

func jumpPart(r *ev.Run) {
	const (
		tickEvery = 100 * time.Millisecond
		sendDelay = 200 * time.Millisecond
		timeout   = 600 * time.Millisecond
	)
	det1 := func() any { return &config.DeterministicSamplerConfig{SampleRate: 1} }
	ids := cx.PickIDs(1, det1, []cx.Want{{Worker: 0, Keep: cx.Bool(true)}, {Worker: 0, Keep: cx.Bool(true)}})
	jumps := []time.Duration{150 * time.Millisecond, 250 * time.Millisecond, 350 * time.Millisecond, 650 * time.Millisecond, 1050 * time.Millisecond}
	type hist struct {
		kinds []fx.Kind // one span per trace index
		j1    time.Duration
		j2    time.Duration // 0 = none
	}
	var hs []hist
	for _, ks := range [][]fx.Kind{{fx.Root}, {fx.Child}, {fx.Root, fx.Child}, {fx.Child, fx.Root}} {
		for _, a := range jumps {
			hs = append(hs, hist{ks, a, 0})
			for _, b := range jumps[:3] {
				hs = append(hs, hist{ks, a, b})
			}
		}
	}
	n := 0
	for _, h := range hs {
		if r.Expired("late-tick histories") {
			break
		}
		n++
		f := fx.New(fx.Options{Workers: 1, Loop: true, Sampler: det1, KeptSize: 16,
			Traces: config.TracesConfig{SendDelay: config.Duration(sendDelay), TraceTimeout: config.Duration(timeout), SendTicker: config.Duration(tickEvery)}})
		deadline := map[string]time.Time{}
		for t, k := range h.kinds {
			id := ids[t]
			f.AddSpan(f.MakeSpan(fx.SpanSpec{TraceID: id, Kind: k, ID: id + ".1"}))
			d := f.Now().Add(timeout)
			if k == fx.Root {
				d = f.Now().Add(sendDelay)
			}
			deadline[id] = d
		}
		f.QuiesceAll()
		desc := fmt.Sprintf("spans %v at +0, clock jumps by %v", h.kinds, h.j1)
		for ji, j := range []time.Duration{h.j1, h.j2} {
			if j == 0 {
				continue
			}
			if ji == 1 {
				desc += fmt.Sprintf(" and again by %v", j)
			}
			f.JumpLoop(j)
			now := f.Now()
			still := map[string]bool{}
			for _, v := range f.BufferedAll() {
				still[v.TraceID] = true
			}
			for id, d := range deadline {
				if still[id] && d.Before(now) {
					r.Violation("c03:late-tick:not-decided-at-the-tick-serviced-after-the-deadline",
						fmt.Sprintf("%s: the worker serviced a send tick at +%v, trace %s has been past its deadline (+%v) for %v and is still undecided",
							desc, now.Sub(fx.T0), id, d.Sub(fx.T0), now.Sub(d)),
						map[string]any{"scenario": "late-tick", "kinds": fmt.Sprint(h.kinds), "jumps": []string{h.j1.String(), h.j2.String()}})
				}
				if !still[id] {
					if d.After(now) {
						r.Violation("c03:late-tick:decided-before-deadline", fmt.Sprintf("%s: trace %s decided at +%v, deadline +%v", desc, id, now.Sub(fx.T0), d.Sub(fx.T0)),
							map[string]any{"scenario": "late-tick", "kinds": fmt.Sprint(h.kinds), "jumps": []string{h.j1.String(), h.j2.String()}})
					}
					delete(deadline, id)
					r.Add("late_tick_traces_decided", 1)
				}
			}
		}
		f.Close()
	}
	r.Add("late_tick_histories", int64(n))
	r.Add("transitions", int64(n))
}
