package main

// Process isolation for C28.
//
// The statement forbids *panicking, terminating or hanging*. Only the first can be observed from inside the
// process that runs the code under test (recover); os.Exit, fatal runtime errors (out of memory, stack
// exhaustion, concurrent map writes) and a panic on a goroutine that the component itself started
// (dynsampler tickers, collector workers) end the process. Every case is therefore executed in a worker
// *subprocess* of this same binary. A worker stores the index of the case it is about to run in a small
// progress file; when a worker dies the orchestrator knows which case killed it, turns the crash output into
// a violation whose signature is the crash site, and starts a new worker at the next index.
//
// No wall-clock value decides a verdict: a worker that makes no progress for the (generous) harness-level
// horizon is killed with SIGQUIT (goroutine dump) and the case is re-run alone in a fresh worker; only if it
// stalls again is it reported as a hang.

import (
	"bytes"
	"encoding/binary"
	"encoding/json"
	"fmt"
	"os"
	"os/exec"
	"path/filepath"
	"regexp"
	"sort"
	"strconv"
	"strings"
	"sync"
	"syscall"
	"time"

	"verif/engine/ev"
)

// ---------------------------------------------------------------------------------------------
// result lines written by a worker (one JSON object per line, unbuffered so that a crash loses nothing)

type resLine struct {
	T      string           `json:"t"` // v=violation d=distinct c=counter deltas s=sample a=assumption end=finished
	I      int              `json:"i,omitempty"`
	Sig    string           `json:"sig,omitempty"`
	What   string           `json:"what,omitempty"`
	Replay any              `json:"replay,omitempty"`
	K      string           `json:"k,omitempty"`
	V      string           `json:"v,omitempty"`
	C      map[string]int64 `json:"c,omitempty"`
	S      any              `json:"s,omitempty"`
}

// worker is the reporting handle a family uses inside a worker subprocess.
type worker struct {
	fam           string
	shard, nshard int
	start         int
	only          bool // run just index `start`
	prog, res     *os.File
	counters      map[string]int64
	seen          map[string]struct{}
	nsamples      int
	sinceCkpt     int
	mu            sync.Mutex
}

func workDir() string {
	w := os.Getenv("VERIF_WORK")
	if w == "" {
		w = filepath.Join(ev.Root, ".work", "c28")
	}
	os.MkdirAll(w, 0o755)
	return w
}

// diagPath names a diagnostics file of the orchestrator. ./vcheck gives every invocation its own scratch directory and
// removes it on exit, so the lists meant to be read after the run (all_violations, guard_oom_cases) live in the
// check's base directory /verif/.work/c28; a run with a patched tree (./vmutate) writes <name>.mutant.<ext>.
func diagPath(name, ext string) string {
	d := filepath.Join(ev.Root, ".work", "c28")
	os.MkdirAll(d, 0o755)
	if os.Getenv("VERIF_MUTANT") != "" {
		name += ".mutant"
	}
	return filepath.Join(d, name+ext)
}

func progPath(fam string, shard int, tag string) string {
	return filepath.Join(workDir(), fmt.Sprintf("prog_%s_%d%s", fam, shard, tag))
}
func resPath(fam string, shard int, tag string) string {
	return filepath.Join(workDir(), fmt.Sprintf("res_%s_%d%s.jsonl", fam, shard, tag))
}

// childSpec parses C28_CHILD="fam shard nshard start only tag".
func childSpec() (*worker, bool) {
	s := os.Getenv("C28_CHILD")
	if s == "" {
		return nil, false
	}
	f := strings.Fields(s)
	if len(f) < 6 {
		ev.Harness("bad C28_CHILD %q", s)
	}
	w := &worker{fam: f[0], counters: map[string]int64{}, seen: map[string]struct{}{}}
	w.shard, _ = strconv.Atoi(f[1])
	w.nshard, _ = strconv.Atoi(f[2])
	w.start, _ = strconv.Atoi(f[3])
	w.only = f[4] == "1"
	tag := f[5]
	if tag == "-" {
		tag = ""
	}
	var err error
	if w.prog, err = os.OpenFile(progPath(w.fam, w.shard, tag), os.O_CREATE|os.O_WRONLY, 0o644); err != nil {
		ev.Harness("worker: %v", err)
	}
	if w.res, err = os.OpenFile(resPath(w.fam, w.shard, tag), os.O_CREATE|os.O_WRONLY|os.O_APPEND, 0o644); err != nil {
		ev.Harness("worker: %v", err)
	}
	return w, true
}

// mine reports whether case i belongs to this worker.
func (w *worker) mine(i int) bool {
	if w.only {
		return i == w.start
	}
	return i >= w.start && i%w.nshard == w.shard
}

// begin records that case i is about to run.
func (w *worker) begin(i int) {
	var b [8]byte
	binary.LittleEndian.PutUint64(b[:], uint64(i)+1)
	w.prog.WriteAt(b[:], 0)
	w.sinceCkpt++
	// counters not yet written are lost when the case kills the process: family (a) (few, heavy, crash-prone cases)
	// writes them before every case, family (b) every 64 cases
	if w.fam == "cfg" || w.sinceCkpt >= 64 {
		w.checkpoint()
	}
}

func (w *worker) emit(l resLine) {
	b, err := json.Marshal(l)
	if err != nil {
		b, _ = json.Marshal(resLine{T: l.T, I: l.I, Sig: l.Sig, What: l.What, Replay: fmt.Sprintf("%+v", l.Replay)})
	}
	w.mu.Lock()
	w.res.Write(append(b, '\n'))
	w.mu.Unlock()
}

func (w *worker) violation(i int, sig, what string, replay any) {
	w.emit(resLine{T: "v", I: i, Sig: sig, What: what, Replay: replay})
}
func (w *worker) distinct(k, v string) {
	key := k + "\x00" + v
	if _, ok := w.seen[key]; ok {
		return
	}
	w.seen[key] = struct{}{}
	w.emit(resLine{T: "d", K: k, V: v})
}
func (w *worker) add(k string, n int64) { w.counters[k] += n }
func (w *worker) sample(v any) {
	if w.nsamples < 3 {
		w.nsamples++
		w.emit(resLine{T: "s", S: v})
	}
}
func (w *worker) checkpoint() {
	w.sinceCkpt = 0
	if len(w.counters) == 0 {
		return
	}
	w.emit(resLine{T: "c", C: w.counters})
	w.counters = map[string]int64{}
}

// recycle ends this worker process after case i completed; the orchestrator continues with a fresh process.
func (w *worker) recycle(i int) {
	w.checkpoint()
	w.emit(resLine{T: "recycle", I: i})
	stopProfile()
	os.Exit(9)
}

func (w *worker) end() {
	w.checkpoint()
	w.emit(resLine{T: "end"})
	stopProfile()
	os.Exit(0)
}

// ---------------------------------------------------------------------------------------------
// crash-site extraction

var reHex = regexp.MustCompile(`0x[0-9a-fA-F]+|\b[0-9]+\b`)

func shortFn(s string) string {
	s = strings.TrimSpace(s)
	// drop the argument list "(0x…, …)" / "(...)" at the end
	if i := strings.LastIndex(s, "("); i > 0 && strings.HasSuffix(s, ")") {
		// keep method receivers like "(*Router)": only cut when the '(' follows the last '.' segment's name
		if j := strings.LastIndex(s[:i], "."); j >= 0 || !strings.Contains(s[:i], "/") {
			s = s[:i]
		}
	}
	s = strings.TrimPrefix(s, "github.com/honeycombio/refinery/")
	s = strings.TrimPrefix(s, "github.com/")
	return s
}

// frames returns the function names of the first goroutine stack found in a debug.Stack / crash dump text,
// starting below the innermost "panic(" frame when there is one.
func frames(stack string) []string {
	lines := strings.Split(stack, "\n")
	var fns []string
	started := false
	for _, ln := range lines {
		if strings.HasPrefix(ln, "goroutine ") && strings.HasSuffix(strings.TrimSpace(ln), ":") {
			if started && len(fns) > 0 {
				break // only the first goroutine
			}
			started = true
			continue
		}
		if !started || ln == "" {
			if started && ln == "" && len(fns) > 0 {
				break
			}
			continue
		}
		if strings.HasPrefix(ln, "\t") || strings.HasPrefix(ln, "created by ") || strings.HasPrefix(ln, "...") {
			continue
		}
		fns = append(fns, ln)
	}
	// cut everything up to and including the LAST panic( frame (the innermost panic is printed first, but a
	// deferred recover-and-rethrow shows the original deeper in the stack)
	last := -1
	for i, f := range fns {
		if strings.HasPrefix(f, "panic(") {
			last = i
		}
	}
	if last >= 0 {
		fns = fns[last+1:]
	}
	out := make([]string, 0, len(fns))
	for _, f := range fns {
		out = append(out, shortFn(f))
	}
	return out
}

func isRuntimeFrame(f string) bool {
	return strings.HasPrefix(f, "runtime.") || strings.HasPrefix(f, "runtime/") || strings.HasPrefix(f, "panic") ||
		strings.HasPrefix(f, "main.") || strings.HasPrefix(f, "sourcegraph/conc")
}

// site renders "frame1" or "frame1<-frame2": frame1 = innermost non-runtime function, frame2 = innermost
// function of the code under verification (refinery / honeycombio packages) when frame1 is a library.
func site(stack string) string {
	fs := frames(stack)
	f1, f2 := "", ""
	for _, f := range fs {
		if isRuntimeFrame(f) {
			continue
		}
		if f1 == "" {
			f1 = f
		}
		if isRefinery(f) {
			f2 = f
			break
		}
	}
	if f1 == "" {
		return "unknown-site"
	}
	// The fixture runs collector and transmissions on clockwork's FakeClock. Its NewTicker/NewTimer reproduce the
	// panics of their real counterparts (time.NewTicker: "non-positive interval for NewTicker", reached in production
	// through clockwork's realClock): name the crash after the real function so that the signature does not depend on
	// which clock the harness injected.
	if m := strings.TrimPrefix(f1, "jonboulle/clockwork.(*FakeClock)."); m != f1 {
		f1 = "time." + m
	}
	if f2 == "" || f2 == f1 {
		return f1
	}
	return f1 + "<-" + f2
}

func isRefinery(f string) bool {
	for _, p := range []string{"route.", "config.", "sample.", "types.", "transmit.", "collect.", "collect/", "sharder.", "internal/", "generics.", "metrics.", "logger.", "honeycombio/"} {
		if strings.HasPrefix(f, p) {
			return true
		}
	}
	return false
}

func normMsg(s string) string {
	s = strings.TrimSpace(s)
	if len(s) > 160 {
		s = s[:160]
	}
	return reHex.ReplaceAllString(s, "N")
}

// classifyCrash turns the output of a dead worker into (signature, description).
func classifyCrash(out string, exitCode int, sig syscall.Signal) (string, string) {
	kind, msg := "", ""
	for _, ln := range strings.Split(out, "\n") {
		switch {
		case strings.HasPrefix(ln, "fatal error: "):
			kind, msg = "fatal", strings.TrimPrefix(ln, "fatal error: ")
		case strings.HasPrefix(ln, "panic: "):
			kind, msg = "panic", strings.TrimPrefix(ln, "panic: ")
		case strings.HasPrefix(ln, "runtime: ") && kind == "":
			msg = ln
		}
		if kind != "" {
			break
		}
	}
	if kind != "" {
		i := strings.Index(out, "goroutine ")
		st := ""
		if i >= 0 {
			st = out[i:]
		}
		return fmt.Sprintf("process-%s@%s", kind, site(st)), fmt.Sprintf("the process died with %s: %s", kind, normMsg(msg))
	}
	// no Go crash text: os.Exit from the code under test, or a signal
	lastLog := ""
	for _, ln := range strings.Split(out, "\n") {
		if strings.HasPrefix(ln, "C28-ERRLOG ") {
			lastLog = strings.TrimPrefix(ln, "C28-ERRLOG ")
		}
	}
	if sig != 0 {
		return fmt.Sprintf("process-killed@signal-%d", int(sig)), fmt.Sprintf("the process was killed by signal %d (%s)", int(sig), sig)
	}
	return fmt.Sprintf("process-exit(%d)@%s", exitCode, normFmt(lastLog)), fmt.Sprintf("the process called os.Exit(%d); last error log: %q", exitCode, lastLog)
}

func normFmt(s string) string {
	if i := strings.Index(s, " :: "); i >= 0 {
		s = s[:i] // the format string part
	}
	if s == "" {
		return "no-log"
	}
	return s
}

// ---------------------------------------------------------------------------------------------
// orchestrator side

type pviol struct {
	Fam    string
	I      int
	Sig    string
	What   string
	Replay any
}

type famResult struct {
	viols     []pviol
	evaluated int64
	crashes   int
	stalls    int
	recycled  int
	guardOOM  int
}

const (
	stallHorizon = 60 * time.Second // harness-level deadline for ONE case; see the package comment
	maxRestarts  = 400
)

type runOut struct {
	out      string
	exitCode int
	sig      syscall.Signal
	stalled  bool
	passed   bool // spawnUntil: the run got past the case in question
}

func spawn(fam string, shard, nshard, start int, only bool, tag string, horizon time.Duration) runOut {
	return spawnUntil(fam, shard, nshard, start, only, tag, horizon, -1)
}

// spawnUntil is spawn, except that the worker is stopped as soon as it has got past case stopAfter (>= 0).
func spawnUntil(fam string, shard, nshard, start int, only bool, tag string, horizon time.Duration, stopAfter int) runOut {
	cmd := exec.Command(os.Args[0], os.Args[1:]...)
	o := "0"
	if only {
		o = "1"
	}
	t := tag
	if t == "" {
		t = "-"
	}
	cmd.Env = append(os.Environ(), fmt.Sprintf("C28_CHILD=%s %d %d %d %s %s", fam, shard, nshard, start, o, t),
		"VERIF_WORK="+workDir(), "GOTRACEBACK=all", "GOMAXPROCS=2")
	var buf limitedBuf
	cmd.Stdout, cmd.Stderr = &buf, &buf
	os.Remove(progPath(fam, shard, tag))
	if err := cmd.Start(); err != nil {
		ev.Harness("cannot start worker: %v", err)
	}
	done := make(chan error, 1)
	go func() { done <- cmd.Wait() }()
	var ro runOut
	last, lastChange := int64(-1), time.Now()
	tick := time.NewTicker(500 * time.Millisecond)
	defer tick.Stop()
	for {
		select {
		case err := <-done:
			ro.out = buf.String()
			if err != nil {
				if ee, ok := err.(*exec.ExitError); ok {
					ro.exitCode = ee.ExitCode()
					if ws, ok := ee.Sys().(syscall.WaitStatus); ok && ws.Signaled() {
						ro.sig = ws.Signal()
					}
				} else {
					ro.exitCode = -1
				}
			}
			return ro
		case <-tick.C:
			p := readProg(fam, shard, tag)
			if stopAfter >= 0 && p > int64(stopAfter) && !ro.passed {
				ro.passed = true
				cmd.Process.Kill()
			}
			if p != last {
				last, lastChange = p, time.Now()
			} else if time.Since(lastChange) > horizon && !ro.stalled {
				ro.stalled = true
				cmd.Process.Signal(syscall.SIGQUIT) // goroutine dump, exit 2
				lastChange = time.Now()
			} else if ro.stalled && time.Since(lastChange) > 20*time.Second {
				cmd.Process.Kill()
			}
		}
	}
}

func readProg(fam string, shard int, tag string) int64 {
	b, err := os.ReadFile(progPath(fam, shard, tag))
	if err != nil || len(b) < 8 {
		return -1
	}
	return int64(binary.LittleEndian.Uint64(b[:8])) - 1
}

type limitedBuf struct {
	mu   sync.Mutex
	head bytes.Buffer
	tail []byte
}

func (l *limitedBuf) Write(p []byte) (int, error) {
	l.mu.Lock()
	defer l.mu.Unlock()
	n := len(p)
	if room := 96*1024 - l.head.Len(); room > 0 {
		if len(p) <= room {
			l.head.Write(p)
			return n, nil
		}
		l.head.Write(p[:room])
		p = p[room:]
	}
	l.tail = append(l.tail, p...)
	if len(l.tail) > 32*1024 {
		l.tail = l.tail[len(l.tail)-32*1024:]
	}
	return n, nil
}
func (l *limitedBuf) String() string {
	l.mu.Lock()
	defer l.mu.Unlock()
	if len(l.tail) == 0 {
		return l.head.String()
	}
	return l.head.String() + "\n…\n" + string(l.tail)
}

// runFamily executes cases 0..ncases-1 of a family over nshard worker subprocesses and merges what they report.
func runFamily(r *ev.Run, fam string, ncases, nshard int, describe func(i int) any) famResult {
	var fr famResult
	var mu sync.Mutex
	var wg sync.WaitGroup
	if nshard > ncases {
		nshard = ncases
	}
	if nshard < 1 {
		nshard = 1
	}
	for s := 0; s < nshard; s++ {
		os.Remove(resPath(fam, s, ""))
		wg.Add(1)
		go func(s int) {
			defer wg.Done()
			start := s
			restarts := 0
			for start < ncases {
				if r.Expired(fam) {
					return
				}
				ro := spawn(fam, s, nshard, start, false, "", stallHorizon)
				if ro.exitCode == 0 && !ro.stalled {
					return // finished; "end" line checked while merging
				}
				if ro.exitCode == 9 && !ro.stalled {
					start = int(readProg(fam, s, "")) + nshard
					mu.Lock()
					fr.recycled++
					mu.Unlock()
					continue
				}
				if strings.Contains(ro.out, "HARNESS-ERROR") {
					ev.Harness("worker %s/%d: %s", fam, s, tailStr(ro.out, 3000))
				}
				at := int(readProg(fam, s, ""))
				if at < 0 {
					ev.Harness("worker %s/%d died before its first case (exit %d):\n%s", fam, s, ro.exitCode, tailStr(ro.out, 4000))
				}
				if ro.stalled {
					// reproduce alone before believing it
					tag := fmt.Sprintf("_solo%d", s)
					os.Remove(resPath(fam, s, tag))
					ro2 := spawn(fam, s, nshard, at, true, tag, stallHorizon)
					mu.Lock()
					fr.stalls++
					if ro2.stalled {
						fr.viols = append(fr.viols, pviol{fam, at, "hang@" + blockedSite(ro2.out), fmt.Sprintf("case made no progress within the %s harness horizon, twice (second time alone in a fresh process)", stallHorizon), describe(at)})
						mu.Unlock()
					} else {
						// alone it completes: does it stall again after the same predecessors? (a request that leaves
						// something behind - a lock that is never released - makes a LATER request hang)
						mu.Unlock()
						tag3 := fmt.Sprintf("_seq%d", s)
						os.Remove(resPath(fam, s, tag3))
						ro3 := spawnUntil(fam, s, nshard, start, false, tag3, stallHorizon, at)
						mu.Lock()
						if ro3.stalled && int(readProg(fam, s, tag3)) == at {
							fr.viols = append(fr.viols, pviol{fam, at, "hang-after-earlier-cases@" + blockedSite(ro3.out),
								fmt.Sprintf("case made no progress within the %s harness horizon, twice, each time after the same preceding cases of its worker (cases %d, %d, ... up to it); run alone in a fresh process it completes", stallHorizon, start, start+nshard),
								map[string]any{"case": describe(at), "first_case_of_the_sequence": start, "stride": nshard}})
						} else {
							r.Cap(fmt.Sprintf("%s case %d stalled once but completed when re-run alone and when re-run after its predecessors (not reported)", fam, at))
						}
						mu.Unlock()
					}
				} else if size, oom := oomBlock(ro.out); oom && size < 1<<40 {
					// died of the harness's own address-space guard on an allocation a large machine could satisfy: not judged
					mu.Lock()
					fr.guardOOM++
					r.Distinct("guard_oom_cases", fmt.Sprintf("%s:%d", fam, at))
					noteGuardOOM(fam, at, size, site(crashStack(ro.out)), describe(at))
					mu.Unlock()
				} else {
					sig, what := classifyCrash(ro.out, ro.exitCode, ro.sig)
					if oom {
						sig = strings.Replace(sig, "process-fatal@", "process-fatal(out-of-memory,block>=1TiB)@", 1)
						what += fmt.Sprintf(" (single allocation of %d bytes)", size)
					}
					mu.Lock()
					fr.crashes++
					fr.viols = append(fr.viols, pviol{fam, at, sig, what + "\n--- crash output (head) ---\n" + headStr(crashText(ro.out), 2500), describe(at)})
					mu.Unlock()
				}
				// next index of this shard after `at`
				start = at + nshard
				restarts++
				if restarts > maxRestarts {
					r.Cap(fmt.Sprintf("%s shard %d: more than %d worker crashes, remaining cases of the shard skipped", fam, s, maxRestarts))
					return
				}
			}
		}(s)
	}
	wg.Wait()
	// merge result files
	for s := 0; s < nshard; s++ {
		b, err := os.ReadFile(resPath(fam, s, ""))
		if err != nil {
			ev.Harness("no result file of worker %s/%d: %v", fam, s, err)
		}
		ended := false
		for _, ln := range bytes.Split(b, []byte{'\n'}) {
			if len(ln) == 0 {
				continue
			}
			var l resLine
			if err := json.Unmarshal(ln, &l); err != nil {
				ev.Harness("unparsable result line of worker %s/%d: %v: %s", fam, s, err, ln)
			}
			switch l.T {
			case "v":
				fr.viols = append(fr.viols, pviol{fam, l.I, l.Sig, l.What, l.Replay})
			case "d":
				r.Distinct(l.K, l.V)
			case "c":
				for k, v := range l.C {
					r.Add(k, v)
					if k == "evaluations" {
						fr.evaluated += v
					}
				}
			case "s":
				r.Sample(l.S)
			case "recycle":
			case "cap":
				r.Cap(l.What)
			case "end":
				ended = true
			}
		}
		if !ended && r.NViolations() == 0 && len(fr.viols) == 0 {
			r.Cap(fmt.Sprintf("%s shard %d did not run to its end", fam, s))
		}
	}
	sort.SliceStable(fr.viols, func(i, j int) bool {
		if fr.viols[i].Sig != fr.viols[j].Sig {
			return fr.viols[i].Sig < fr.viols[j].Sig
		}
		return fr.viols[i].I < fr.viols[j].I
	})
	return fr
}

var reAllocLarge = regexp.MustCompile(`allocLarge\(0x[0-9a-f]+\??, 0x([0-9a-f]+)\??`)
var reCannotAlloc = regexp.MustCompile(`cannot allocate ([0-9]+)-byte block`)

// oomBlock reports whether the worker died of memory exhaustion and, if known, the size of the block it asked for.
func oomBlock(out string) (int64, bool) {
	if !strings.Contains(out, "fatal error: out of memory") && !strings.Contains(out, "runtime: out of memory") &&
		!strings.Contains(out, "cannot allocate memory") && !strings.Contains(out, "fatal error: runtime: cannot allocate") {
		return 0, false
	}
	if m := reCannotAlloc.FindStringSubmatch(out); m != nil {
		n, _ := strconv.ParseInt(m[1], 10, 64)
		return n, true
	}
	if m := reAllocLarge.FindStringSubmatch(out); m != nil {
		n, _ := strconv.ParseUint(m[1], 16, 64)
		if n > 1<<62 {
			n = 1 << 62
		}
		return int64(n), true
	}
	return 0, true
}

// crashStack: the goroutine dump part of a crash output.
func crashStack(out string) string {
	if i := strings.Index(out, "goroutine "); i >= 0 {
		return out[i:]
	}
	return ""
}

// noteGuardOOM appends a not-judged out-of-memory case to /verif/.work/c28/guard_oom_cases.jsonl (diagnostics only).
func noteGuardOOM(fam string, at int, size int64, where string, c any) {
	f, err := os.OpenFile(diagPath("guard_oom_cases", ".jsonl"), os.O_CREATE|os.O_WRONLY|os.O_APPEND, 0o644)
	if err != nil {
		return
	}
	defer f.Close()
	b, _ := json.Marshal(map[string]any{"fam": fam, "i": at, "bytes": size, "site": where, "case": c})
	f.Write(append(b, '\n'))
}

func crashText(out string) string {
	for _, m := range []string{"fatal error: ", "panic: "} {
		if i := strings.Index(out, m); i >= 0 {
			return out[i:]
		}
	}
	return tailStr(out, 2500)
}

// blockedSite: in a SIGQUIT dump, the innermost refinery frame of the goroutine that runs the case (the one
// with main.runCase… on its stack).
func blockedSite(out string) string {
	for _, g := range strings.Split(out, "\n\ngoroutine ") {
		if strings.Contains(g, "main.(*cfgDriver).run") || strings.Contains(g, "main.(*reqDriver).run") {
			return site("goroutine " + g)
		}
	}
	return "unknown-site"
}

func tailStr(s string, n int) string {
	if len(s) > n {
		return "…" + s[len(s)-n:]
	}
	return s
}
func headStr(s string, n int) string {
	if len(s) > n {
		return s[:n] + "…"
	}
	return s
}
