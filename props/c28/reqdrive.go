package main

// Family (b) driver: one pipeline node per worker process (fresh node after every violation), every case served
// synchronously through the real mux / gRPC method handlers, then the collector step and a flush.

import (
	"bytes"
	"fmt"
	"net/http"
	"net/http/httptest"
	"os"
	"strings"

	"github.com/honeycombio/refinery/config"
	"github.com/honeycombio/refinery/metrics"
	"github.com/honeycombio/refinery/sample"

	"verif/engine/ev"
	"verif/fix/codec"
	"verif/fix/pipeline"
)

type reqDriver struct {
	w        *worker
	lg       *capLogger
	n        *pipeline.Node
	factory  *sample.SamplerFactory
	samplers []sample.Sampler
	auth     string
}

// reqConfig: default fixture configuration plus samplers whose key fields are fields of the seeds (so that the
// routers' core-field extraction decodes those values) and usage recording on (GetDataSize path).
func reqConfig() *config.MockConfig {
	c := pipeline.DefaultConfig()
	fl := []string{"name", "nested", "count", "bin", "ext", "ts", "arr", "f32", "u64", "nil", "long", "binkey", "root.name", "root.nested", "s", "http.status_code", "msg"}
	cond := func(f, op string, v any, dt string) *config.RulesBasedSamplerCondition {
		return &config.RulesBasedSamplerCondition{Field: f, Operator: op, Value: v, Datatype: dt}
	}
	c.Samplers = map[string]*config.V2SamplerChoice{
		"__default__": {DynamicSampler: &config.DynamicSamplerConfig{SampleRate: 2, FieldList: fl, UseTraceLength: true}},
		dataset: {RulesBasedSampler: &config.RulesBasedSamplerConfig{CheckNestedFields: true, Rules: []*config.RulesBasedSamplerRule{
			{Name: "r1", SampleRate: 2, Conditions: []*config.RulesBasedSamplerCondition{cond("nested.k", config.EQ, "1", ""), cond("count", config.GT, 1000000, "")}},
			{Name: "r2", SampleRate: 2, Scope: "span", Conditions: []*config.RulesBasedSamplerCondition{cond("u64", config.GT, 5, "int"), cond("f32", config.LT, 0.5, "float")}},
			{Name: "r3", SampleRate: 2, Conditions: []*config.RulesBasedSamplerCondition{cond("bin", config.Contains, "zz", ""), cond("ext", config.MatchesRegexp, "^zz", ""), cond("ts", config.In, []any{"a", "b"}, "string")}},
			{Name: "r4", SampleRate: 2, Conditions: []*config.RulesBasedSamplerCondition{cond("root.arr", config.StartsWith, "zz", ""), cond("?.NUM_DESCENDANTS", config.GT, 100, "int")}},
			{Name: "r5", Sampler: &config.RulesBasedDownstreamSampler{EMADynamicSampler: &config.EMADynamicSamplerConfig{GoalSampleRate: 2, FieldList: fl}}},
		}}},
	}
	c.GetSamplerTypeVal = nil
	c.QueryAuthToken = queryToken
	c.GetOpAmpConfigVal = config.OpAMPConfig{Enabled: true}
	return c
}

func newReqDriver(w *worker) *reqDriver {
	d := &reqDriver{w: w, lg: &capLogger{}}
	d.fresh()
	// self-test of the recovered-panic detector on the documented intentional endpoint
	d.n.Do(pipeline.Incoming, codecGet("/panic"))
	cp := d.lg.takeCaught()
	if len(cp) != 1 || site(cp[0].Stack) != "route.(*Router).panic" {
		got := "nothing"
		if len(cp) > 0 {
			got = site(cp[0].Stack)
		}
		ev.Harness("self-test failed: GET /panic must be seen as a panic recovered by panicCatcher at route.(*Router).panic, saw %s (%d entries)", got, len(cp))
	}
	return d
}

func (d *reqDriver) fresh() {
	cfg := reqConfig()
	d.n = pipeline.New(pipeline.Options{Config: cfg, Logger: d.lg})
	met := &metrics.MockMetrics{}
	met.Start()
	d.factory = &sample.SamplerFactory{Config: cfg, Logger: d.lg, Metrics: met}
	d.factory.Start()
	d.samplers = []sample.Sampler{d.factory.GetSamplerImplementationForKey(dataset), d.factory.GetSamplerImplementationForKey("test-env")}
	d.auth = ""
	d.setAuth("ok")
}

func (d *reqDriver) setAuth(mode string) {
	if mode == "" {
		mode = "ok"
	}
	if mode == d.auth {
		return
	}
	d.auth = mode
	switch mode {
	case "ok":
		d.n.Net.Respond = nil
	case "401":
		d.n.Net.Respond = func(c *pipeline.Captured) pipeline.Reply {
			if c.Path == "/1/auth" {
				return pipeline.Reply{Status: 401, Body: []byte(`{"error":"nope"}`)}
			}
			return pipeline.Reply{}
		}
	case "garbage":
		d.n.Net.Respond = func(c *pipeline.Captured) pipeline.Reply {
			if c.Path == "/1/auth" {
				return pipeline.Reply{Status: 200, Body: []byte(`{"team":[1,2],"environment":"x"`)}
			}
			return pipeline.Reply{}
		}
	}
}

func (d *reqDriver) run(i int, rc *reqCases) {
	w := d.w
	w.add("evaluations", 1)
	f := rc.materialise(i)
	w.add("req_"+f.Block, 1)
	d.setAuth(f.Auth)

	var hreq *http.Request
	if f.GRPC == "" {
		var err error
		hreq, err = http.NewRequest(f.Method, "http://refinery.test"+f.Path, bytes.NewReader(f.body))
		if err != nil {
			w.add("req_unparsable_url_not_sent", 1) // net/http's server rejects these before any handler runs
			return
		}
		hreq.RequestURI = f.Path
		hreq.RemoteAddr = "192.0.2.1:1234"
		for k, v := range f.Header {
			hreq.Header.Set(k, v)
		}
	}
	status, outcome := 0, ""
	rec := guard(func() {
		switch f.GRPC {
		case "trace":
			_, err := d.n.GRPCTraceExport(f.l, f.MD, f.body)
			outcome = grpcOutcome(err)
		case "logs":
			_, err := d.n.GRPCLogsExport(f.l, f.MD, f.body)
			outcome = grpcOutcome(err)
		default:
			rw := httptest.NewRecorder()
			d.n.ServeHTTP(f.l, rw, hreq)
			status = rw.Code
			outcome = fmt.Sprint(status)
		}
	})
	bad := false
	if rec != nil {
		bad = true
		w.violation(i, "panic@"+site(rec.Stack), fmt.Sprintf("serving the request panics and Refinery does not recover it (the process would die): %s\n%s", normMsg(rec.Msg), trimStack(rec.Stack)), f)
	}
	for _, cp := range d.lg.takeCaught() {
		bad = true
		w.violation(i, "panic@"+site(cp.Stack), fmt.Sprintf("serving the request panics (recovered by panicCatcher → HTTP %d): %s\n%s", status, normMsg(cp.Err), trimStack(cp.Stack)), f)
	}
	if !bad {
		if rec := guard(func() { collectorStep(d.n, d.samplers) }); rec != nil {
			bad = true
			w.violation(i, "panic@"+site(rec.Stack), fmt.Sprintf("the request is answered with %s, then deciding/sending the accepted span(s) panics on the collector side: %s\n%s", outcome, normMsg(rec.Msg), trimStack(rec.Stack)), f)
		}
	}
	if !bad {
		if rec := guard(func() { d.n.Flush() }); rec != nil {
			bad = true
			w.violation(i, "panic@"+site(rec.Stack), fmt.Sprintf("the request is answered with %s, then serialising/sending the accepted event(s) panics in the transmission goroutine: %s\n%s", outcome, normMsg(rec.Msg), trimStack(rec.Stack)), f)
		}
	}
	if bad {
		w.recycle(i) // objects are in an undefined state after a panic: fresh process
	}
	nsent, ncoll := len(d.n.Sent()), len(d.n.Collector.Records())
	if p := d.n.DecodeProblems(); len(p) > 0 {
		// what Refinery put on the wire must be decodable: an undecodable batch would be a different property (C20),
		// here it only shows up in the coverage
		w.add("req_wire_decode_problems", 1)
		w.distinct("wire_decode_problems", headStr(p[0], 80))
	}
	d.n.Net.Reset()
	d.n.Collector.Reset()
	cls := f.class + "|" + outcome
	w.distinct("req_outcomes", cls)
	w.distinct("distinct_nontrivial", cls+fmt.Sprintf("|sent=%v|collected=%v", nsent > 0, ncoll > 0))
	if os.Getenv("C28_TRACE") != "" {
		fmt.Fprintf(os.Stderr, "case %d %s %s -> %s sent=%d coll=%d\n", i, f.Seed, f.Mutation, outcome, nsent, ncoll)
	}
}

func grpcOutcome(err error) string {
	if err == nil {
		return "grpc-ok"
	}
	s := err.Error()
	if j := strings.Index(s, "desc ="); j > 0 {
		s = s[:j]
	}
	return "grpc-err:" + headStr(normMsg(s), 40)
}

func codecGet(path string) codec.Request { return codec.Request{Method: "GET", Path: path} }
