package main

// Shared driving code: capture logger (detects panics swallowed by route.panicCatcher), guarded calls, the
// emulation of the collector's decision step on whatever the routers handed over, node set-up.

import (
	"context"
	"fmt"
	"os"
	"runtime"
	"runtime/debug"
	"strings"
	"sync"
	"time"

	"github.com/sourcegraph/conc/panics"

	"github.com/honeycombio/refinery/config"
	"github.com/honeycombio/refinery/logger"
	"github.com/honeycombio/refinery/sample"
	"github.com/honeycombio/refinery/types"

	"verif/fix/pipeline"
)

// ---------------------------------------------------------------------------------------------
// capture logger: Error level only (production default level is "warn"; debug/info formatting is not run)

type capLogger struct {
	mu     sync.Mutex
	caught []caughtPanic // "caught panic" entries written by handlerReturnWithError for panicCatcher
	echo   bool          // print error entries to stderr (config family: identifies an os.Exit site)
	nErr   int
}

type caughtPanic struct {
	Err   string
	Stack string
}

type capEntry struct {
	l      *capLogger
	fields map[string]interface{}
}

var nullEntry = (&logger.NullLogger{}).Debug()

func (l *capLogger) Debug() logger.Entry         { return nullEntry }
func (l *capLogger) Info() logger.Entry          { return nullEntry }
func (l *capLogger) Warn() logger.Entry          { return nullEntry }
func (l *capLogger) Error() logger.Entry         { return &capEntry{l: l} }
func (l *capLogger) SetLevel(level string) error { return nil }

func (e *capEntry) WithField(key string, value interface{}) logger.Entry {
	if e.fields == nil {
		e.fields = map[string]interface{}{}
	}
	e.fields[key] = value
	return e
}
func (e *capEntry) WithString(key string, value string) logger.Entry { return e.WithField(key, value) }
func (e *capEntry) WithFields(fields map[string]interface{}) logger.Entry {
	for k, v := range fields {
		e.WithField(k, v)
	}
	return e
}
func (e *capEntry) Logf(f string, args ...interface{}) {
	msg := fmt.Sprintf(f, args...) // real loggers format error entries
	e.l.mu.Lock()
	e.l.nErr++
	if e.fields["error.msg"] == "caught panic" {
		st, _ := e.fields["error.stack_trace"].(string)
		er, _ := e.fields["error.err"].(string)
		e.l.caught = append(e.l.caught, caughtPanic{Err: er, Stack: st})
	}
	echo := e.l.echo
	e.l.mu.Unlock()
	if echo {
		fmt.Fprintf(os.Stderr, "C28-ERRLOG %s :: %s\n", f, headStr(msg, 200))
	}
}

func (l *capLogger) takeCaught() []caughtPanic {
	l.mu.Lock()
	defer l.mu.Unlock()
	c := l.caught
	l.caught = nil
	return c
}

// ---------------------------------------------------------------------------------------------
// guarded execution

type recovered struct {
	Msg   string
	Stack string
}

// guard runs fn and returns a description of the panic it raised (nil if none). Panics re-thrown by
// conc's pool.Wait carry the stack of the goroutine that really panicked.
func guard(fn func()) (rec *recovered) {
	defer func() {
		if v := recover(); v != nil {
			st := string(debug.Stack())
			if rp, ok := v.(*panics.Recovered); ok {
				st = string(rp.Stack)
				v = rp.Value
			}
			rec = &recovered{Msg: fmt.Sprint(v), Stack: st}
		}
	}()
	fn()
	return nil
}

func trimStack(s string) string {
	// keep the part from the innermost panic( frame on, at most 12 frames
	lines := strings.Split(s, "\n")
	start := 0
	for i, ln := range lines {
		if strings.HasPrefix(ln, "panic(") {
			start = i
		}
	}
	end := start + 26
	if end > len(lines) {
		end = len(lines)
	}
	return strings.Join(lines[start:end], "\n")
}

// settle yields until the number of goroutines is back to at most base (all goroutines started by the case
// have ended — or have crashed the process). Not time based; gives up after a fixed number of yields.
func settle(base int) bool {
	for i := 0; i < 200000; i++ {
		if runtime.NumGoroutine() <= base {
			return true
		}
		runtime.Gosched()
		if i > 1000 && i%1000 == 0 {
			time.Sleep(50 * time.Microsecond) // let timers/netpoll goroutines run; does not decide anything
		}
	}
	return false
}

// ---------------------------------------------------------------------------------------------
// decision step of collect/collector_worker.go makeDecision, on a set of spans forming one trace

func decide(s sample.Sampler, tr *types.Trace) (rate uint, keep bool, reason string) {
	allFields, nonRootFields := s.GetKeyFields()
	for _, sp := range tr.GetSpans() {
		if sp.IsRoot {
			sp.Data.MemoizeFields(allFields...)
		} else {
			sp.Data.MemoizeFields(nonRootFields...)
		}
	}
	rate, keep, reason, _ = s.GetSampleRate(tr)
	return
}

func traceOf(spans []*types.Span) *types.Trace {
	tr := &types.Trace{}
	for _, sp := range spans {
		if tr.TraceID == "" {
			tr.TraceID, tr.APIHost, tr.APIKey, tr.Dataset = sp.TraceID, sp.APIHost, sp.APIKey, sp.Dataset
		}
		if sp.IsRoot && tr.RootSpan == nil {
			tr.RootSpan = sp
		}
		tr.AddSpan(sp)
	}
	return tr
}

// collectorStep plays the collector for the spans the routers handed over in one case: group by trace ID,
// decide with every given sampler, then hand every span to the upstream transmission (as a kept trace's spans
// are) so that the real serialisation runs on the next flush.
func collectorStep(n *pipeline.Node, samplers []sample.Sampler) {
	recs := n.Collector.Records()
	if len(recs) == 0 {
		return
	}
	byTrace := map[string][]*types.Span{}
	var order []string
	for _, r := range recs {
		if r.Span == nil || r.Span.Event == nil {
			continue
		}
		if _, ok := byTrace[r.TraceID]; !ok {
			order = append(order, r.TraceID)
		}
		byTrace[r.TraceID] = append(byTrace[r.TraceID], r.Span)
	}
	for _, id := range order {
		tr := traceOf(byTrace[id])
		for _, s := range samplers {
			if s != nil {
				decide(s, tr)
			}
		}
		for _, sp := range tr.GetSpans() {
			// what the collector adds before sending a kept span
			sp.Data.Set(types.MetaRefineryReason, "c28")
			sp.APIHost = n.Upstream
			n.UpTx.EnqueueSpan(sp)
		}
	}
}

// mockFrom copies every setting the fixture's constructor reads out of a loaded configuration.
func mockFrom(c config.Config) *config.MockConfig {
	m := pipeline.DefaultConfig()
	m.GetAccessKeyConfigVal = c.GetAccessKeyConfig()
	m.GetCollectionConfigVal = c.GetCollectionConfig()
	m.GetTracesConfigVal = c.GetTracesConfig()
	m.GetHoneycombAPIVal = c.GetHoneycombAPI()
	m.GetCompressPeerCommunicationsVal = c.GetCompressPeerCommunication()
	m.AdditionalHeaders = c.GetAdditionalHeaders()
	m.TraceIdFieldNames = c.GetTraceIdFieldNames()
	m.ParentIdFieldNames = c.GetParentIdFieldNames()
	m.EnvironmentCacheTTL = c.GetEnvironmentCacheTTL()
	m.DatasetPrefix = c.GetDatasetPrefix()
	m.QueryAuthToken = c.GetQueryAuthToken()
	m.AdditionalErrorFields = c.GetAdditionalErrorFields()
	m.GetOpAmpConfigVal = c.GetOpAMPConfig()
	m.GetHTTPIdleTimeoutVal = c.GetHTTPIdleTimeout()
	m.GetGRPCServerParameters = c.GetGRPCConfig()
	m.SampleCache = c.GetSampleCacheConfig()
	m.StressRelief = c.GetStressReliefConfig()
	m.AdditionalAttributes = c.GetAdditionalAttributes()
	if r := c.GetAllSamplerRules(); r != nil {
		m.Samplers = r.Samplers
	}
	return m
}

var bgCtx = context.Background()
