// C28: no accepted configuration or request input can crash Refinery.
//
// Engine E2 (enumx), bounded-exhaustive, two families:
//
//	(a) configurations — a grammar of rules files and main configuration files (every sampler type, every rule
//	    construct, every field of the configuration metadata, each at the boundary values of its type) is loaded
//	    with the real loader/validator; every ACCEPTED configuration is then driven (samplers built by the real
//	    SamplerFactory decide a fixed set of traces; a fixed workload goes through every endpoint of a pipeline
//	    node running on the loaded configuration; main-file deviations also start a real InMemCollector).
//	(b) requests — for every HTTP endpoint × content type × content encoding: every prefix and every
//	    single-offset substitution (alphabet 00 ff 7f c1 80 '{') of a set of well-formed seed messages, the header
//	    product, and OTLP/gRPC exports with absent/empty nested messages, on both listeners.
//
// Oracle: nothing panics (recovered by the harness, by route.panicCatcher, or fatal to the process), the process
// does not exit, every handler returns. Every case runs in a worker subprocess (see proc.go).
package main

import (
	"fmt"
	"os"
	"regexp"
	"runtime/pprof"
	"strconv"
	"syscall"
	"time"

	"verif/engine/enumx"
	"verif/engine/ev"
)

var stopProfile = func() {}

// cfgFilter (diagnostics only, env C28_CFG_FILTER = regexp on "<group>:<name>"): run just the matching cases of
// family (a); the run is then reported as capped, never as exhaustive.
var cfgFilter = func() *regexp.Regexp {
	if s := os.Getenv("C28_CFG_FILTER"); s != "" {
		return regexp.MustCompile(s)
	}
	return nil
}()

const memGuard = 3 << 30 // RLIMIT_AS of a worker subprocess: protects the sandbox, see r.Assume below

func main() {
	if w, ok := childSpec(); ok {
		childMain(w)
		return
	}
	r := ev.New("C28", "exploration")
	start := time.Now()
	budget := ev.Pick(r, 8*time.Minute, 40*time.Minute)
	if s := os.Getenv("VERIF_BUDGET_S"); s != "" {
		if n, err := strconv.Atoi(s); err == nil {
			budget = time.Duration(n) * time.Second
		}
	}
	os.Setenv("VERIF_DEADLINE_UNIX", strconv.FormatInt(start.Add(budget).Unix(), 10))
	thorough := r.Thorough()
	nshard := 16

	r.Set("rule", "for every generated configuration that the real loader accepts and for every generated request: no panic "+
		"(harness recover, route.panicCatcher log entry, or process death), no os.Exit, every handler returns; crash site = signature")
	r.Assume("'passes validation' = config.NewConfig returns a non-nil Config (warnings allowed), exactly the condition under which cmd/refinery continues to start")
	r.Assume("a panic inside the loader/validator on an input that was never accepted is outside the statement: counted (loader_panics_on_unaccepted_input), not a violation")
	r.Assume("panics converted to HTTP 500 by route.panicCatcher are violations (statement: 'without panicking'); detected from the error.stack_trace log entry that handlerReturnWithError writes, not from the status code; GET /panic is the documented intentional endpoint and is used only as a self-test of that detector")
	r.Assume("'a status is written' is read as 'the handler returns' (net/http answers 200 for a handler that returns without writing, which is how /1/events reports success)")
	r.Assume(fmt.Sprintf("worker subprocesses run under RLIMIT_AS=%d GiB; a runtime out-of-memory death is a violation only when the single block requested is ≥ 1 TiB (no deployment can satisfy it, so the outcome does not depend on the guard); smaller ones are counted as guard_oom_cases and not judged", memGuard>>30))
	r.Assume("hang = no progress of one case within a 60 s harness horizon, reproduced a second time (alone in a fresh process, or - if it completes alone - in a fresh process after the same preceding cases); a single stall is never reported")
	r.Assume("byte strings are bounded to every prefix and every single-offset substitution from {00,ff,7f,c1,80,'{'} of the listed seeds (applied to the plain body, and to the gzip/zstd stream), plus the header product; collector-side processing of accepted spans is the decision step of makeDecision replayed on the captured spans with a rules-based and a dynamic sampler, followed by the real DirectTransmission serialisation")

	if cfgFilter != nil {
		r.Cap("diagnostic run: C28_CFG_FILTER restricts family (a) to cases matching " + cfgFilter.String())
	}
	os.Remove(diagPath("guard_oom_cases", ".jsonl"))
	var all []pviol
	// ---- family (a)
	if os.Getenv("C28_ONLY_REQ") == "" {
		cases := genCfgCases(thorough)
		r.Set("cfg_cases_generated", len(cases))
		fa := runFamily(r, "cfg", len(cases), nshard, func(i int) any { return cases[i] })
		all = append(all, fa.viols...)
		r.Set("cfg_worker_crashes", fa.crashes)
		r.Set("cfg_worker_recycles", fa.recycled)
	}

	// ---- family (b)
	if os.Getenv("C28_ONLY_CFG") == "" {
		reqs := genReqCases(thorough)
		r.Set("req_cases_generated", reqs.n())
		fb := runFamily(r, "req", reqs.n(), nshard, func(i int) any { return reqs.describe(i) })
		all = append(all, fb.viols...)
		r.Set("req_worker_crashes", fb.crashes)
		r.Set("req_worker_recycles", fb.recycled)
	}

	dumpAll(all)
	// one violation per signature: the lowest case index (deterministic irrespective of worker timing)
	seen := map[string]bool{}
	for _, v := range all {
		if seen[v.Sig] {
			continue
		}
		seen[v.Sig] = true
		r.Violation(v.Sig, v.What, map[string]any{"family": v.Fam, "index": v.I, "case": v.Replay})
	}
	r.Finish()
}

// childMain runs the cases of one shard of one family.
func childMain(w *worker) {
	lim := syscall.Rlimit{Cur: memGuard, Max: memGuard}
	syscall.Setrlimit(syscall.RLIMIT_AS, &lim)
	if pf := os.Getenv("C28_PPROF"); pf != "" {
		f, _ := os.Create(pf)
		pprof.StartCPUProfile(f)
		stopProfile = pprof.StopCPUProfile
	}
	cr := ev.New("C28", "exploration") // only for tier + deadline; never finished
	thorough := cr.Thorough()
	switch w.fam {
	case "cfg":
		cases := genCfgCases(thorough)
		d := newCfgDriver(w)
		enumx.Each(cr, "cfg", []int{len(cases)}, 1, func(idx []int) {
			i := idx[0]
			if !w.mine(i) {
				return
			}
			if cfgFilter != nil && !cfgFilter.MatchString(cases[i].Group+":"+cases[i].Name) {
				w.add("cfg_filtered_out", 1)
				return
			}
			w.begin(i)
			d.run(i, cases[i])
		})
	case "req":
		reqs := genReqCases(thorough)
		d := newReqDriver(w)
		enumx.Each(cr, "req", []int{reqs.n()}, 1, func(idx []int) {
			i := idx[0]
			if !w.mine(i) {
				return
			}
			w.begin(i)
			d.run(i, reqs)
		})
	default:
		ev.Harness("unknown family %q", w.fam)
	}
	if cr.Expired(w.fam) {
		w.emit(resLine{T: "cap", What: "internal deadline reached in family " + w.fam})
	}
	w.end()
}

// dumpAll writes every (signature, case) pair of this run to /verif/.work/c28/all_violations.jsonl (diagnostics for
// FINDING.md: the full list of inputs behind each signature; the evidence file keeps only the lowest index).
func dumpAll(all []pviol) {
	f, err := os.Create(diagPath("all_violations", ".jsonl"))
	if err != nil {
		return
	}
	defer f.Close()
	last := ""
	for _, v := range all {
		name := ""
		switch c := v.Replay.(type) {
		case cfgCase:
			name = c.Name
		case *finalReq:
			name = c.Seed + " | " + c.Listener + " | " + c.Mode + " | " + c.Mutation
		case map[string]any:
			if n, ok := c["name"].(string); ok {
				name = n
			} else {
				name = fmt.Sprintf("%v | %v | %v | %v", c["seed"], c["listener"], c["mode"], c["mutation"])
			}
		}
		key := fmt.Sprintf("%s\x00%s\x00%d", v.Sig, v.Fam, v.I)
		if key == last {
			continue
		}
		last = key
		fmt.Fprintf(f, "{\"sig\":%q,\"fam\":%q,\"i\":%d,\"name\":%q}\n", v.Sig, v.Fam, v.I, name)
	}
}
