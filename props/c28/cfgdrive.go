package main

// Family (a) driver: load one generated configuration with the real loader/validator; if it is accepted,
// build every configured sampler through the real SamplerFactory and decide a fixed set of traces, push a
// fixed workload through every endpoint of a pipeline node that uses the loaded configuration, and (for
// deviations of the main file) start a real InMemCollector with it and let it decide and send.

import (
	"fmt"
	"os"
	"path/filepath"
	"runtime"
	"sort"
	"strings"
	"time"

	"github.com/jonboulle/clockwork"

	"github.com/honeycombio/refinery/collect"
	"github.com/honeycombio/refinery/config"
	"github.com/honeycombio/refinery/metrics"
	"github.com/honeycombio/refinery/sample"
	"github.com/honeycombio/refinery/types"

	"verif/fix/codec"
	"verif/fix/pipeline"
)

const (
	classicKey = "0123456789abcdef0123456789abcdef" // 32 hex: sampler key = dataset
	envKey     = "abcdefghij0123456789ab"           // 22 alnum: sampler key = environment ("test-env" from the fake /1/auth)
	dataset    = "ds"
)

var t0 = time.Date(2031, 7, 9, 23, 59, 58, 123456789, time.UTC)

type cfgDriver struct {
	w              *worker
	dir            string
	selfID, peerID string
	lg             *capLogger
	wl             []wlReq
	wlTok          string
}

func newCfgDriver(w *worker) *cfgDriver {
	d := &cfgDriver{w: w, lg: &capLogger{echo: true}}
	d.dir = filepath.Join(workDir(), fmt.Sprintf("cfg_%d_%v", w.shard, w.only))
	os.MkdirAll(d.dir, 0o755)
	n := pipeline.New(pipeline.Options{})
	d.selfID = n.TraceIDs(n.Self, 1, "c28-trace-")[0]
	d.peerID = n.TraceIDs(n.Peers[0], 1, "c28-trace-")[0]
	n.Close()
	return d
}

func toValue(v any) codec.Value {
	switch x := v.(type) {
	case nil:
		return codec.Nil()
	case string:
		return codec.Str(x)
	case int:
		return codec.Int(int64(x))
	case int64:
		return codec.Int(x)
	case uint64:
		return codec.Uint(x)
	case float64:
		return codec.F64(x)
	case bool:
		return codec.Bool(x)
	case []any:
		var vs []codec.Value
		for _, e := range x {
			vs = append(vs, toValue(e))
		}
		return codec.Arr(vs...)
	case map[string]any:
		return toMapValue(x)
	}
	panic(fmt.Sprintf("C28: toValue %T", v))
}

func toMapValue(m map[string]any) codec.Value {
	var ks []string
	for k := range m {
		ks = append(ks, k)
	}
	sort.Strings(ks)
	var kvs []codec.KV
	for _, k := range ks {
		kvs = append(kvs, codec.E(k, toValue(m[k])))
	}
	return codec.Map(kvs...)
}

func cloneMap(m map[string]any) map[string]any {
	out := make(map[string]any, len(m))
	for k, v := range m {
		out[k] = v
	}
	return out
}

// mkSpan builds a span the way the routers do: payload from a decoded map (JSON single event path) or from
// raw msgpack bytes (every other path), metadata extracted.
func mkSpan(cfg config.Config, traceID string, isRoot bool, fields map[string]any, asMsgpack bool) *types.Span {
	var p types.Payload
	if asMsgpack {
		p = types.NewPayload(cfg, nil)
		if err := p.UnmarshalMsgpack(codec.Encode(toMapValue(fields))); err != nil {
			panic("C28: fixed span does not decode: " + err.Error())
		}
	} else {
		p = types.NewPayload(cfg, cloneMap(fields))
		p.ExtractMetadata()
	}
	e := &types.Event{Context: bgCtx, APIHost: "http://api.hny.test", APIKey: classicKey, Dataset: dataset, SampleRate: 1, Timestamp: t0, Data: p}
	return &types.Span{Event: e, TraceID: traceID, IsRoot: isRoot}
}

type fieldSet struct {
	name        string
	root, child map[string]any
}

var fieldSets = []fieldSet{
	{"scalars", map[string]any{"a": "x", "b": int64(1), "c": 1.5, "d": true}, map[string]any{"a": "y", "b": int64(2), "trace.parent_id": "p"}},
	{"odd-types", map[string]any{"a": []any{int64(1), "x"}, "b": map[string]any{"k": int64(1)}, "c": nil, "u": uint64(1<<64 - 1)},
		map[string]any{"a": 2.5, "b": true, "trace.parent_id": "p"}},
	// the same non-scalar type on consecutive spans of one trace (values that Go cannot compare with ==)
	{"odd-types-on-every-span", map[string]any{"a": []any{int64(1), "x"}, "b": map[string]any{"k": int64(1)}, "c": []any{}},
		map[string]any{"a": []any{int64(2)}, "b": map[string]any{"k": int64(2)}, "c": []any{}, "trace.parent_id": "p"}},
	{"absent", map[string]any{"z": "1"}, map[string]any{"z": int64(2), "trace.parent_id": "p"}},
	{"strings", map[string]any{"a": "", "b": "9223372036854775808", "c": "true"}, map[string]any{"a": strings.Repeat("x", 300), "b": "1.5e3", "trace.parent_id": "p"}},
}

var layouts = []string{"root-only", "root+child", "child-only"}

func fixedTraces(cfg config.Config) []*types.Trace {
	var out []*types.Trace
	k := 0
	for _, fs := range fieldSets {
		for _, lay := range layouts {
			for _, mp := range []bool{false, true} {
				id := fmt.Sprintf("c28-fixed-%d", k)
				k++
				var spans []*types.Span
				if lay != "child-only" {
					spans = append(spans, mkSpan(cfg, id, true, fs.root, mp))
				}
				if lay != "root-only" {
					spans = append(spans, mkSpan(cfg, id, false, fs.child, mp))
				}
				out = append(out, traceOf(spans))
			}
		}
	}
	return out
}

// ---- the fixed 6-event workload -----------------------------------------------------------------------

func (d *cfgDriver) events() []codec.Event {
	mk := func(fs ...codec.Field) codec.Event {
		tv := codec.Time(t0, 0)
		return codec.Event{TimeText: t0.Format(time.RFC3339Nano), TimeVal: &tv, SampleRate: 3, Data: fs}
	}
	return []codec.Event{
		mk(codec.F("trace.trace_id", codec.Str(d.selfID)), codec.F("a", codec.Str("x")), codec.F("b", codec.Int(1)), codec.F("c", codec.F64(1.5)), codec.F("name", codec.Str("root"))),
		mk(codec.F("trace.trace_id", codec.Str(d.selfID)), codec.F("trace.parent_id", codec.Str("p1")), codec.F("a", codec.Str("y"))),
		mk(codec.F("trace.trace_id", codec.Str(d.peerID)), codec.F("a", codec.Str("x"))),
		mk(codec.F("a", codec.Str("x")), codec.F("msg", codec.Str("hello"))),
		mk(codec.F("trace.trace_id", codec.Str(d.selfID)), codec.F("meta.signal_type", codec.Str("log")), codec.F("a", codec.Str("l"))),
		mk(codec.F("traceId", codec.Str(d.selfID)), codec.F("z", codec.Map(codec.E("k", codec.Arr(codec.Int(1), codec.Int(2))))), codec.F("n", codec.Nil())),
	}
}

type wlReq struct {
	name string
	l    pipeline.Listener
	req  *codec.Request // HTTP
	grpc string         // "trace" | "logs"
	md   map[string]string
	body []byte
}

func tid16(s string) []byte {
	b := make([]byte, 16)
	copy(b, s)
	return b
}

func (d *cfgDriver) workload(cfg config.Config) []wlReq {
	tok0 := cfg.GetQueryAuthToken()
	if d.wl != nil && d.wlTok == tok0 {
		return d.wl
	}
	d.wlTok = tok0
	d.wl = d.buildWorkload(cfg)
	return d.wl
}

func (d *cfgDriver) buildWorkload(cfg config.Config) []wlReq {
	evs := d.events()
	var out []wlReq
	addHTTP := func(name string, l pipeline.Listener, r codec.Request) {
		rr := r
		out = append(out, wlReq{name: name, l: l, req: &rr})
	}
	spans := []codec.OTLPSpan{
		{TraceID: tid16("c28-otlp-trace-1"), SpanID: []byte("span0001"), Name: "root", Start: t0, End: t0.Add(time.Second),
			Attrs: []codec.Field{codec.F("a", codec.Str("x")), codec.F("b", codec.Int(1)), codec.F("c", codec.F64(1.5)), codec.F("d", codec.Bool(true))}},
		{TraceID: tid16("c28-otlp-trace-1"), SpanID: []byte("span0002"), ParentSpanID: []byte("span0001"), Name: "child", Start: t0, End: t0.Add(time.Millisecond),
			Attrs: []codec.Field{codec.F("a", codec.Str("y"))}},
	}
	tmsg := codec.OTLPTraceMessage([]codec.Field{codec.F("service.name", codec.Str("svc"))}, spans...)
	lmsg := codec.OTLPLogsMessage([]codec.Field{codec.F("service.name", codec.Str("svc"))},
		codec.OTLPLog{TraceID: tid16("c28-otlp-trace-1"), SpanID: []byte("span0001"), Time: t0, Body: "hello", Attrs: []codec.Field{codec.F("a", codec.Str("x"))}})
	for _, l := range []pipeline.Listener{pipeline.Incoming, pipeline.Peer} {
		for i, e := range evs {
			addHTTP(fmt.Sprintf("event-json-%d", i), l, codec.SingleEvent(dataset, classicKey, codec.CTJSON, e))
			addHTTP(fmt.Sprintf("event-msgpack-%d", i), l, codec.SingleEvent(dataset, classicKey, codec.CTMsgpack, e))
		}
		addHTTP("batch-json", l, codec.Batch(dataset, classicKey, codec.CTJSON, evs...))
		addHTTP("batch-msgpack", l, codec.Batch(dataset, classicKey, codec.CTMsgpack, evs...).Compressed("zstd"))
		addHTTP("batch-json-envkey", l, codec.Batch(dataset, envKey, codec.CTJSON, evs...).Compressed("gzip"))
		addHTTP("otlp-traces-proto", l, codec.OTLPHTTP("/v1/traces", classicKey, dataset, codec.CTProto, tmsg))
		addHTTP("otlp-traces-json", l, codec.OTLPHTTP("/v1/traces", envKey, "", codec.CTJSON, tmsg))
		addHTTP("otlp-logs-proto", l, codec.OTLPHTTP("/v1/logs", classicKey, dataset, codec.CTProto, lmsg))
		addHTTP("otlp-logs-json", l, codec.OTLPHTTP("/v1/logs", envKey, "", codec.CTJSON, lmsg))
		out = append(out, wlReq{name: "grpc-traces", l: l, grpc: "trace", md: map[string]string{"x-honeycomb-team": classicKey, "x-honeycomb-dataset": dataset}, body: codec.OTLPProto(tmsg)})
		out = append(out, wlReq{name: "grpc-logs", l: l, grpc: "logs", md: map[string]string{"x-honeycomb-team": envKey}, body: codec.OTLPProto(lmsg)})
	}
	tok := cfg.GetQueryAuthToken()
	get := func(p string) codec.Request {
		return codec.Request{Method: "GET", Path: p, Header: map[string]string{"X-Honeycomb-Refinery-Query": tok}}
	}
	for _, p := range []string{"/alive", "/ready", "/version", "/query/trace/" + d.selfID, "/query/allrules/json", "/query/allrules/yaml", "/query/allrules/toml",
		"/query/rules/json/ds", "/query/rules/yaml/test-env", "/query/rules/toml/nonesuch", "/query/configmetadata", "/1/markers/ds"} {
		addHTTP("GET "+p, pipeline.Incoming, get(p))
	}
	return out
}

// ---- one case ----------------------------------------------------------------------------------------------

func (d *cfgDriver) run(i int, c cfgCase) {
	w := d.w
	w.add("evaluations", 1)
	w.add("cfg_cases", 1)
	if os.Getenv("C28_TIMING") != "" {
		t := time.Now()
		defer func() {
			w.add("us_"+c.Group, time.Since(t).Microseconds())
			w.add("n_"+c.Group, 1)
			if time.Since(t) > 60*time.Millisecond {
				fmt.Fprintf(os.Stderr, "SLOW %v %s %s\n", time.Since(t), c.Group, c.Name)
			}
		}()
	}
	ext := c.CfgExt
	if ext == "" {
		ext = ".yaml"
	}
	cpath, rpath := filepath.Join(d.dir, "config"+ext), filepath.Join(d.dir, "rules.yaml")
	for _, e := range []string{".yaml", ".json", ".toml", ".txt"} {
		os.Remove(filepath.Join(d.dir, "config"+e))
	}
	if err := os.WriteFile(cpath, []byte(c.Config), 0o644); err != nil {
		panic(err)
	}
	if err := os.WriteFile(rpath, []byte(c.Rules), 0o644); err != nil {
		panic(err)
	}
	base := runtime.NumGoroutine()
	tim := os.Getenv("C28_TIMING") != ""
	tp := time.Now()
	lap := func(name string) {
		if tim {
			w.add("us_phase_"+name, time.Since(tp).Microseconds())
			w.add("n_phase_"+name, 1)
			tp = time.Now()
		}
	}

	var cfg config.Config
	var lerr error
	if rec := guard(func() {
		cfg, lerr = config.NewConfig(&config.CmdEnv{ConfigLocations: []string{cpath}, RulesLocations: []string{rpath}})
	}); rec != nil {
		// not covered by the statement (the configuration was never accepted): counted, never a violation
		w.add("loader_panics_on_unaccepted_input", 1)
		w.distinct("loader_panic_sites", site(rec.Stack)+" :: "+normMsg(rec.Msg))
		w.emit(resLine{T: "s", S: map[string]any{"loader_panic": site(rec.Stack), "msg": normMsg(rec.Msg), "case": c}})
		return
	}
	if cfg == nil {
		w.add("cfg_rejected", 1)
		w.distinct("cfg_outcomes", c.Group+"|rejected")
		return
	}
	_ = lerr // warnings only
	lap("load")
	w.add("cfg_accepted", 1)
	w.distinct("cfg_outcomes", c.Group+"|accepted")
	w.distinct("distinct_nontrivial", "accepted:"+c.Group+":"+c.Name)

	failed := false // after the first panic the objects involved are in an undefined state (e.g. a mutex left locked): stop using them
	report := func(phase string, rec *recovered) {
		failed = true
		w.distinct("cfg_outcomes", c.Group+"|accepted|panic")
		w.violation(i, "panic@"+site(rec.Stack),
			fmt.Sprintf("configuration passes validation, then %s panics: %s\n%s", phase, normMsg(rec.Msg), trimStack(rec.Stack)), c)
	}
	d.lg.takeCaught()

	// ---- phase S: every configured sampler, via the real factory, decides the fixed traces
	met := &metrics.MockMetrics{}
	met.Start()
	factory := &sample.SamplerFactory{Config: cfg, Logger: d.lg, Metrics: met}
	factory.Start()
	keys := []string{dataset, "test-env", "no-such-target"}
	if r := cfg.GetAllSamplerRules(); r != nil {
		for k := range r.Samplers {
			keys = append(keys, k)
		}
	}
	sort.Strings(keys)
	var samplers []sample.Sampler
	seenKey := map[string]bool{}
	for _, k := range keys {
		if seenKey[k] {
			continue
		}
		seenKey[k] = true
		var s sample.Sampler
		if rec := guard(func() { s = factory.GetSamplerImplementationForKey(k) }); rec != nil {
			report("building the sampler for target "+fmt.Sprintf("%q", k)+" (SamplerFactory.GetSamplerImplementationForKey)", rec)
			continue
		}
		if s == nil {
			// the collector would call GetKeyFields on a nil interface: report as what it is
			if rec := guard(func() { decide(s, traceOf(nil)) }); rec != nil {
				w.violation(i, "nil-sampler@sample.(*SamplerFactory).createSampler",
					"configuration passes validation, SamplerFactory returns a nil sampler for target "+k+"; makeDecision dereferences it: "+normMsg(rec.Msg), c)
			}
			continue
		}
		samplers = append(samplers, s)
		for _, tr := range fixedTraces(cfg) {
			tr := tr
			var reason string
			if rec := guard(func() { _, _, reason = decide(s, tr) }); rec != nil {
				report(fmt.Sprintf("deciding a trace (%d spans, root=%v) with the sampler for target %q (GetKeyFields+MemoizeFields+GetSampleRate)", len(tr.GetSpans()), tr.RootSpan != nil, k), rec)
				break
			}
			if j := strings.IndexAny(reason, ":/"); j > 0 {
				reason = reason[:j]
			}
			w.distinct("decision_reasons", reason)
		}
	}

	lap("S")
	// ---- phase P: the fixed workload through every endpoint of a node that runs on this configuration
	var n *pipeline.Node
	if rec := guard(func() {
		n = pipeline.New(pipeline.Options{Config: mockFrom(cfg), Logger: d.lg, MaxBatchSize: int(cfg.GetTracesConfig().GetMaxBatchSize())})
	}); rec != nil {
		report("starting routers/transmissions with it", rec)
	}
	if n != nil {
		for _, r := range n.Routers {
			r.Config = cfg // handlers read the REAL loaded configuration (getters of fileConfig), not the copy
		}
		lap("P_new")
		for _, q := range d.workload(cfg) {
			q := q
			status := 0
			tq := time.Now()
			rec := guard(func() {
				switch q.grpc {
				case "trace":
					n.GRPCTraceExport(q.l, q.md, q.body)
				case "logs":
					n.GRPCLogsExport(q.l, q.md, q.body)
				default:
					status = n.Do(q.l, *q.req).Status
				}
			})
			if rec != nil {
				report("serving "+q.name+" on the "+q.l.String()+" listener (panic not recovered by Refinery)", rec)
			}
			for _, cp := range d.lg.takeCaught() {
				failed = true
				w.violation(i, "panic@"+site(cp.Stack),
					fmt.Sprintf("configuration passes validation, then serving %s on the %s listener panics (recovered by panicCatcher → HTTP %d): %s\n%s", q.name, q.l, status, normMsg(cp.Err), trimStack(cp.Stack)), c)
			}
			w.distinct("cfg_workload_status", fmt.Sprintf("%s:%d", strings.SplitN(q.name, "-", 2)[0], status))
			if tim {
				w.add("us_req_"+q.name, time.Since(tq).Microseconds())
				w.add("n_req_"+q.name, 1)
			}
			if failed {
				break
			}
		}
		lap("P_reqs")
		if !failed {
			if rec := guard(func() { collectorStep(n, samplers) }); rec != nil {
				report("deciding/sending the spans the routers accepted", rec)
			}
		}
		if !failed {
			if rec := guard(func() { n.Flush() }); rec != nil {
				report("serialising and sending the accepted events (DirectTransmission.sendBatch)", rec)
			}
		}
		lap("P_flush")
	}

	lap("P")
	// ---- phase C (deviations of the main file): a real InMemCollector started with this configuration
	if c.Main && n != nil && !failed {
		d.collectorPhase(i, c, cfg, n, factory, met, report)
	}
	if n != nil && !failed {
		if rec := guard(func() { n.Close() }); rec != nil {
			report("stopping routers/transmissions", rec)
		}
	}
	if failed {
		w.recycle(i) // fresh process for the next case
	}
	lap("C")
	guard(func() { sample.VerifC28StopDynsamplers(factory) }) // harness hygiene, before the factory forgets them
	guard(func() { factory.Stop() })
	ok := settle(base)
	lap("settle")
	if tim && !ok {
		buf := make([]byte, 1<<20)
		fmt.Fprintf(os.Stderr, "LEFTOVER base=%d now=%d\n%s\n", base, runtime.NumGoroutine(), buf[:runtime.Stack(buf, true)])
	}
	if !ok {
		// something the case started is still running: finish this worker process, the orchestrator starts a
		// fresh one at the next index (a leftover goroutine must never be blamed on, or disturb, a later case)
		w.add("cfg_cases_with_leftover_goroutines", 1)
		w.recycle(i)
	}
}

func (d *cfgDriver) collectorPhase(i int, c cfgCase, cfg config.Config, n *pipeline.Node, factory *sample.SamplerFactory, met *metrics.MockMetrics, report func(string, *recovered)) {
	clk := clockwork.NewFakeClockAt(t0)
	sr := &collect.StressRelief{RefineryMetrics: met, Config: cfg, Logger: d.lg, Clock: clk}
	var coll *collect.InMemCollector
	started := false
	if rec := guard(func() {
		coll, _ = collect.VerifNewCollector(collect.VerifParams{Config: cfg, Clock: clk, Transmission: n.UpTx, PeerTransmission: n.PeerTx,
			Metrics: met, SamplerFactory: factory, StressRelief: sr, Logger: d.lg})
		if err := coll.Start(); err != nil {
			d.w.distinct("collector_start", "error")
			return
		}
		started = true
		coll.VerifEnterHandlerMode() // the real Start() ran; now drive the real handlers from this goroutine
	}); rec != nil {
		report("InMemCollector.Start", rec)
		return
	}
	if !started {
		return
	}
	d.w.distinct("collector_start", "ok")
	if rec := guard(func() {
		sr.GetSampleRate(d.selfID)
		sr.Stressed()
		for _, tr := range fixedTraces(cfg)[:6] {
			for _, sp := range tr.GetSpans() {
				coll.VerifProcessSpan(coll.VerifWorkerFor(sp.TraceID), sp)
			}
		}
		tc := cfg.GetTracesConfig()
		clk.Advance(tc.GetTraceTimeout() + tc.GetSendDelay() + time.Hour)
		for wk := 0; wk < coll.VerifNumWorkers(); wk++ {
			coll.VerifTick(wk, clk.Now())
		}
		for k := 0; k < 100 && coll.VerifSendTracesStep(); k++ {
		}
		coll.ProcessSpanImmediately(mkSpan(cfg, d.selfID, true, fieldSets[0].root, true))
	}); rec != nil {
		report("the collector processing/deciding/sending spans", rec)
		return
	}
	if rec := guard(func() { coll.Stop() }); rec != nil {
		report("InMemCollector.Stop", rec)
		return
	}
	if rec := guard(func() { n.Flush() }); rec != nil {
		report("sending what the collector kept", rec)
	}
}
