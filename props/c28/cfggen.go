package main

// Family (a): the configuration grammar. Everything is emitted as flow-style YAML text (so that nulls, wrong
// scalar kinds, duplicate keys and empty collections can be written exactly), one deviation (or one declared
// product of deviations) from a nominal file per case. The enumeration is a pure function of the tier, so
// every worker subprocess regenerates the identical list and cases are addressed by index.

import (
	"fmt"
	"sort"
	"strings"

	"github.com/honeycombio/refinery/config"
)

type cfgCase struct {
	Group  string `json:"group"` // grammar production that generated it
	Name   string `json:"name"`
	Config string `json:"config"` // main config file text
	Rules  string `json:"rules"`  // rules file text
	CfgExt string `json:"cfg_ext,omitempty"`
	Main   bool   `json:"main,omitempty"` // deviation is in the main config: also start a real collector with it
}

const nominalConfig = `{General: {ConfigurationVersion: 2}, Network: {HoneycombAPI: "http://api.hny.test"}}`
const nominalRules = `{RulesVersion: 2, Samplers: {__default__: {DeterministicSampler: {SampleRate: 1}}}}`

// ---- boundary value sets (raw YAML snippets) ------------------------------------------------------------

var (
	intB = []string{"0", "1", "2", "-1", "2147483647", "2147483648", "4294967295", "4294967296", "4294967297", "8589934592",
		"9223372036854775807", "9223372036854775808", `"5"`, "1.5", "null", "[]"}
	intSmallB  = []string{"0", "1", "-1", "2147483648", "4294967296", "9223372036854775807"}
	durB       = []string{"0s", "1ns", "-1s", "-1ns", "1ms", "1s", "30s", "2562047h", `"abc"`, "5", `""`, "null"}
	floatB     = []string{"0", "1", "-1", "0.5", "-0.1", "1.1", "1e-300", "1e308", ".nan", ".inf", `"x"`, "null"}
	boolB      = []string{"true", "false", `"true"`, "1", "null"}
	fieldListB = []string{`[]`, `[""]`, `["a"]`, `["a", ""]`, `["", "a"]`, `["a", "a"]`, `["a", "b"]`, `["root.a"]`, `["root."]`, `["root"]`, `["r"]`,
		`["root.a", "a"]`, `["root.root.a"]`, `["?.NUM_DESCENDANTS"]`, `["?."]`, `["?"]`, `["?.NUM_DESCENDANTS", "a"]`, `[null]`, `[1]`, `"a"`, `null`,
		`["meta.trace_id"]`, `["meta.refinery.root"]`}
)

type param struct {
	name    string
	vals    []string
	nominal string // "" = omitted in the nominal sampler
}

type samplerT struct {
	name   string
	params []param
}

var samplerTypes = []samplerT{
	{"DeterministicSampler", []param{{"SampleRate", intB, "2"}}},
	{"DynamicSampler", []param{{"SampleRate", intB, "2"}, {"ClearFrequency", durB, ""}, {"MaxKeys", intSmallB, ""}, {"UseTraceLength", boolB, ""},
		{"FieldList", fieldListB, `["a"]`}}},
	{"EMADynamicSampler", []param{{"GoalSampleRate", intB, "2"}, {"AdjustmentInterval", durB, ""}, {"Weight", floatB, ""}, {"AgeOutValue", floatB, ""},
		{"BurstMultiple", floatB, ""}, {"BurstDetectionDelay", intSmallB, ""}, {"MaxKeys", intSmallB, ""}, {"UseTraceLength", boolB, ""},
		{"FieldList", fieldListB, `["a"]`}}},
	{"EMAThroughputSampler", []param{{"GoalThroughputPerSec", intB, "10"}, {"UseClusterSize", boolB, ""}, {"InitialSampleRate", intB, ""},
		{"AdjustmentInterval", durB, ""}, {"Weight", floatB, ""}, {"AgeOutValue", floatB, ""}, {"BurstMultiple", floatB, ""},
		{"BurstDetectionDelay", intSmallB, ""}, {"MaxKeys", intSmallB, ""}, {"UseTraceLength", boolB, ""}, {"FieldList", fieldListB, `["a"]`}}},
	{"WindowedThroughputSampler", []param{{"GoalThroughputPerSec", intB, "10"}, {"UseClusterSize", boolB, ""}, {"UpdateFrequency", durB, ""},
		{"LookbackFrequency", durB, ""}, {"MaxKeys", intSmallB, ""}, {"UseTraceLength", boolB, ""}, {"FieldList", fieldListB, `["a"]`}}},
	{"TotalThroughputSampler", []param{{"GoalThroughputPerSec", intB, "10"}, {"UseClusterSize", boolB, ""}, {"ClearFrequency", durB, ""},
		{"MaxKeys", intSmallB, ""}, {"UseTraceLength", boolB, ""}, {"FieldList", fieldListB, `["a"]`}}},
}

// samplerBody renders one sampler's parameter map with the given overrides (nil value "\x00" = omit).
func samplerBody(t samplerT, over map[string]string) string {
	var parts []string
	for _, p := range t.params {
		v, ok := over[p.name]
		if !ok {
			v = p.nominal
		}
		if v == "" || v == "\x00" {
			continue
		}
		parts = append(parts, p.name+": "+v)
	}
	return "{" + strings.Join(parts, ", ") + "}"
}

func rulesWith(sampler string) string {
	return "{RulesVersion: 2, Samplers: {__default__: " + sampler + "}}"
}

// ---- rules-based sampler pieces ----------------------------------------------------------------------------

var (
	operators = []string{`"="`, `"!="`, `">"`, `"<"`, `">="`, `"<="`, `contains`, `does-not-contain`, `starts-with`, `exists`, `not-exists`,
		`has-root-span`, `matches`, `in`, `not-in`, `""`, `bogus`, "\x00"}
	condValues = []string{"\x00", "null", `""`, `"x"`, "0", "1", "-1", "2147483648", "9223372036854775807", "9223372036854775808", "1.5", "true",
		"[]", `[""]`, `["a", "b"]`, "[1, 2]", `[1, "a"]`, "[[1]]", "{a: 1}", `"("`, `"[a-"`, `"^x+$"`, "[null]", "[true]"}
	datatypes  = []string{"\x00", `""`, "string", "int", "float", "bool", "bogus"}
	condFields = []string{`Field: a`, `Field: root.a`, `Field: "root."`, `Field: ""`, `Field: "?.NUM_DESCENDANTS"`, `Field: "?.BOGUS"`, `Field: "?."`,
		`Fields: [a, root.b]`, `Fields: []`, `Fields: [""]`, `Fields: [null]`, `Field: a, Fields: [b]`, ``, `Field: null`, `Fields: null`, `Fields: a`}
	scopes = []string{"\x00", "span", "trace", `""`, "bogus", "null"}
)

func kv(k, v string) string {
	if v == "\x00" {
		return ""
	}
	return k + ": " + v
}

func join(parts ...string) string {
	var out []string
	for _, p := range parts {
		if p != "" {
			out = append(out, p)
		}
	}
	return strings.Join(out, ", ")
}

func cond(field, op, val, dt string) string {
	return "{" + join(field, kv("Operator", op), kv("Value", val), kv("Datatype", dt)) + "}"
}

func rule(name, scope, conds, rest string) string {
	return "{" + join(kv("Name", name), kv("Scope", scope), kv("Conditions", conds), rest) + "}"
}

func rulesSampler(rules string, nested bool) string {
	s := "{RulesBasedSampler: {Rules: " + rules
	if nested {
		s += ", CheckNestedFields: true"
	}
	return s + "}}"
}

// ---- main-config boundary sets per metadata type -----------------------------------------------------------

var mainTypeB = map[string][]string{
	"int":           {"0", "1", "-1", "2", "100", "1000", "2147483647", "2147483648", "4294967296", "9223372036854775807", "9223372036854775808", `"7"`, "1.5", "null", "[]"},
	"percentage":    {"0", "1", "10", "100", "101", "-1", "null"},
	"duration":      {"0s", "1ns", "-1s", "1ms", "100ms", "1s", "15m", "2562047h", `"abc"`, "5", `""`, "null"},
	"memorysize":    {"0", "1", `"1"`, "1Kb", "1MB", "1GiB", "16EiB", `"-1"`, "1XB", `""`, "9223372036854775807", "18446744073709551616", "null"},
	"bool":          {"true", "false", `"true"`, "1", "null"},
	"defaulttrue":   {"true", "false", `"t"`, `"f"`, `"x"`, "0", "null"},
	"string":        {`""`, "a", `" "`, `"${C28_UNSET_ENV}"`, `"%s%n%d"`, "5", "null", "[a]"},
	"stringarray":   {"[]", `[""]`, "[a]", "[a, a]", `[a, ""]`, "[null]", "a", "[1]", "null", `["root.a"]`, `["meta.trace_id"]`},
	"map":           {"{}", `{"": x}`, `{a: ""}`, "{a: 1}", "{a: null}", "null", "[]", `{X-Honeycomb-Team: x}`, `{Content-Type: x}`, `{"a b": "c\nd"}`},
	"url":           {`""`, "http://h", "https://h:1/p", "h", `"http://"`, "ftp://h", `"http://[::1"`, "http://h:99999", "http://h/%zz", "null", "5"},
	"hostport":      {`""`, "h:1", `":1"`, "h", `"h:"`, `"[::1]:1"`, "h:99999", `"h:-1"`, "null", "5"},
	"float":         {"0", "-1", "1e308", "0.5", `"x"`, "null", ".nan"},
	"sliceorscalar": {"1"},
}

// choice-like string fields get their documented values plus a bogus one
var mainChoices = map[string][]string{
	"AccessKeys.SendKeyMode":  {"none", "all", "nonblank", "listedonly", "unlisted", "missingonly", "bogus", `""`},
	"Logger.Type":             {"stdout", "honeycomb", "none", "bogus"},
	"Logger.Level":            {"debug", "info", "warn", "error", "panic", "bogus"},
	"PeerManagement.Type":     {"file", "redis", "bogus"},
	"StressRelief.Mode":       {"never", "monitor", "always", "bogus", `""`},
	"OTelMetrics.Compression": {"gzip", "none", "bogus"},
}

// fields whose deviation is combined with a second one because they are only read together
var mainCompanions = map[string]string{
	"AccessKeys.ReceiveKeys":                 "AcceptOnlyListedKeys: true",
	"AccessKeys.ReceiveKeyIDs":               "AcceptOnlyListedKeys: true",
	"AccessKeys.SendKey":                     "SendKeyMode: all",
	"AccessKeys.SendKeyMode":                 "SendKey: abcdef0123456789abcdef0123456789",
	"Collection.MaxMemoryPercentage":         "AvailableMemory: 1GiB",
	"StressRelief.ActivationLevel":           "Mode: monitor",
	"StressRelief.DeactivationLevel":         "Mode: monitor",
	"StressRelief.SamplingRate":              "Mode: always",
	"StressRelief.MinimumActivationDuration": "Mode: always",
}

func mainWith(group, body string) string {
	g := map[string]string{"General": "ConfigurationVersion: 2", "Network": `HoneycombAPI: "http://api.hny.test"`}
	if cur, ok := g[group]; ok {
		// a deviation of a nominal field replaces it (no duplicate key)
		name := strings.SplitN(body, ":", 2)[0]
		if strings.HasPrefix(cur, name+":") {
			g[group] = body
		} else {
			g[group] = cur + ", " + body
		}
	} else {
		g[group] = body
	}
	var ks []string
	for k := range g {
		ks = append(ks, k)
	}
	sort.Strings(ks)
	var parts []string
	for _, k := range ks {
		parts = append(parts, k+": {"+g[k]+"}")
	}
	return "{" + strings.Join(parts, ", ") + "}"
}

// ---- the enumeration -----------------------------------------------------------------------------------------

func genCfgCases(thorough bool) []cfgCase {
	var out []cfgCase
	add := func(group, name, cfg, rules string) {
		out = append(out, cfgCase{Group: group, Name: name, Config: cfg, Rules: rules})
	}

	// G1: file-level structure of the rules file
	for _, s := range []struct{ n, r string }{
		{"nominal", nominalRules},
		{"empty-file", ``}, {"null-doc", `null`}, {"list-doc", `[]`}, {"scalar-doc", `5`},
		{"no-version", `{Samplers: {__default__: {DeterministicSampler: {SampleRate: 1}}}}`},
		{"version-1", `{RulesVersion: 1, Samplers: {__default__: {DeterministicSampler: {SampleRate: 1}}}}`},
		{"version-3", `{RulesVersion: 3, Samplers: {__default__: {DeterministicSampler: {SampleRate: 1}}}}`},
		{"version-string", `{RulesVersion: "2", Samplers: {__default__: {DeterministicSampler: {SampleRate: 1}}}}`},
		{"version-null", `{RulesVersion: null, Samplers: {__default__: {DeterministicSampler: {SampleRate: 1}}}}`},
		{"no-samplers", `{RulesVersion: 2}`},
		{"samplers-null", `{RulesVersion: 2, Samplers: null}`},
		{"samplers-empty", `{RulesVersion: 2, Samplers: {}}`},
		{"samplers-list", `{RulesVersion: 2, Samplers: []}`},
		{"default-null", `{RulesVersion: 2, Samplers: {__default__: null}}`},
		{"default-empty", `{RulesVersion: 2, Samplers: {__default__: {}}}`},
		{"default-scalar", `{RulesVersion: 2, Samplers: {__default__: 5}}`},
		{"default-list", `{RulesVersion: 2, Samplers: {__default__: []}}`},
		{"default-two-samplers", `{RulesVersion: 2, Samplers: {__default__: {DeterministicSampler: {SampleRate: 1}, DynamicSampler: {SampleRate: 2, FieldList: [a]}}}}`},
		{"default-unknown-sampler", `{RulesVersion: 2, Samplers: {__default__: {BogusSampler: {SampleRate: 1}}}}`},
		{"no-default", `{RulesVersion: 2, Samplers: {ds: {DeterministicSampler: {SampleRate: 1}}}}`},
		{"sampler-body-null", `{RulesVersion: 2, Samplers: {__default__: {DeterministicSampler: null}}}`},
		{"sampler-body-empty", `{RulesVersion: 2, Samplers: {__default__: {DeterministicSampler: {}}}}`},
		{"sampler-body-list", `{RulesVersion: 2, Samplers: {__default__: {DeterministicSampler: []}}}`},
		{"sampler-body-scalar", `{RulesVersion: 2, Samplers: {__default__: {DeterministicSampler: 5}}}`},
		{"dyn-body-null", `{RulesVersion: 2, Samplers: {__default__: {DynamicSampler: null}}}`},
		{"dyn-body-empty", `{RulesVersion: 2, Samplers: {__default__: {DynamicSampler: {}}}}`},
		{"rules-body-null", `{RulesVersion: 2, Samplers: {__default__: {RulesBasedSampler: null}}}`},
		{"rules-body-empty", `{RulesVersion: 2, Samplers: {__default__: {RulesBasedSampler: {}}}}`},
		{"duplicate-default", "RulesVersion: 2\nSamplers:\n  __default__:\n    DeterministicSampler:\n      SampleRate: 1\n  __default__:\n    DeterministicSampler:\n      SampleRate: 2\n"},
		{"duplicate-field", "RulesVersion: 2\nSamplers:\n  __default__:\n    DeterministicSampler:\n      SampleRate: 1\n      SampleRate: 4294967296\n"},
		{"duplicate-sampler", "RulesVersion: 2\nSamplers:\n  __default__:\n    DeterministicSampler:\n      SampleRate: 1\n    DeterministicSampler:\n      SampleRate: 0\n"},
		{"unknown-top-key", `{RulesVersion: 2, Samplers: {__default__: {DeterministicSampler: {SampleRate: 1}}}, Bogus: 1}`},
		{"unknown-field", `{RulesVersion: 2, Samplers: {__default__: {DeterministicSampler: {SampleRate: 1, Bogus: 1}}}}`},
		{"named-empty-key", `{RulesVersion: 2, Samplers: {__default__: {DeterministicSampler: {SampleRate: 1}}, "": {DynamicSampler: {SampleRate: 2, FieldList: [a]}}}}`},
		{"named-ds-env", `{RulesVersion: 2, Samplers: {__default__: {DeterministicSampler: {SampleRate: 1}}, ds: {DynamicSampler: {SampleRate: 2, FieldList: [a, root.b]}}, test-env: {RulesBasedSampler: {Rules: [{Name: r, SampleRate: 2, Conditions: [{Field: a, Operator: exists}]}]}}}}`},
		{"named-null", `{RulesVersion: 2, Samplers: {__default__: {DeterministicSampler: {SampleRate: 1}}, ds: null}}`},
		{"named-empty", `{RulesVersion: 2, Samplers: {__default__: {DeterministicSampler: {SampleRate: 1}}, ds: {}}}`},
		{"anchors", "RulesVersion: 2\nSamplers:\n  __default__: &d\n    DeterministicSampler:\n      SampleRate: 1\n  ds: *d\n"},
		{"tab-garbage", "RulesVersion: 2\n\tSamplers: {"},
	} {
		add("rules-structure", s.n, nominalConfig, s.r)
	}

	// G2: every sampler type, every parameter at every boundary value (one deviation); thorough: crossed with every FieldList shape
	for _, t := range samplerTypes {
		for _, p := range t.params {
			for _, v := range append([]string{"\x00"}, p.vals...) {
				add("sampler-param", t.name+"."+p.name+"="+show(v), nominalConfig, rulesWith("{"+t.name+": "+samplerBody(t, map[string]string{p.name: v})+"}"))
				if thorough && p.name != "FieldList" && len(t.params) > 1 {
					for _, fl := range fieldListB {
						add("sampler-param-x-fieldlist", t.name+"."+p.name+"="+show(v)+",FieldList="+fl, nominalConfig,
							rulesWith("{"+t.name+": "+samplerBody(t, map[string]string{p.name: v, "FieldList": fl})+"}"))
					}
				}
			}
		}
	}
	// G2b: the two interacting durations of the windowed sampler, full product
	for _, u := range durB {
		for _, l := range durB {
			add("windowed-durations", "Update="+u+",Lookback="+l, nominalConfig,
				rulesWith("{WindowedThroughputSampler: "+samplerBody(samplerTypes[4], map[string]string{"UpdateFrequency": u, "LookbackFrequency": l})+"}"))
		}
	}

	// G3: rules — structure of the Rules list and of one rule
	okCond := `[{Field: a, Operator: exists}]`
	for _, s := range []struct{ n, r string }{
		{"rules-absent", `{RulesBasedSampler: {CheckNestedFields: true}}`},
		{"rules-null", rulesSampler("null", false)}, {"rules-empty", rulesSampler("[]", false)}, {"rules-scalar", rulesSampler("5", false)},
		{"rules-map", rulesSampler("{}", false)}, {"rule-null", rulesSampler("[null]", false)}, {"rule-empty", rulesSampler("[{}]", false)},
		{"rule-scalar", rulesSampler("[5]", false)}, {"rule-list", rulesSampler("[[]]", false)},
		{"rule-null-then-ok", rulesSampler("[null, {Name: r, SampleRate: 1}]", false)},
		{"conds-null", rulesSampler(`[{Name: r, SampleRate: 1, Conditions: null}]`, false)},
		{"conds-empty", rulesSampler(`[{Name: r, SampleRate: 1, Conditions: []}]`, false)},
		{"cond-null", rulesSampler(`[{Name: r, SampleRate: 1, Conditions: [null]}]`, false)},
		{"cond-empty", rulesSampler(`[{Name: r, SampleRate: 1, Conditions: [{}]}]`, false)},
		{"cond-scalar", rulesSampler(`[{Name: r, SampleRate: 1, Conditions: [5]}]`, false)},
		{"conds-map", rulesSampler(`[{Name: r, SampleRate: 1, Conditions: {}}]`, false)},
		{"cond-null-span-scope", rulesSampler(`[{Name: r, SampleRate: 1, Scope: span, Conditions: [null]}]`, false)},
		{"two-rules-same-name", rulesSampler(`[{Name: r, SampleRate: 2, Conditions: `+okCond+`}, {Name: r, SampleRate: 3}]`, false)},
		{"cond-unknown-key", rulesSampler(`[{Name: r, SampleRate: 1, Conditions: [{Field: a, Operator: exists, Bogus: 1}]}]`, false)},
		{"rule-unknown-key", rulesSampler(`[{Name: r, SampleRate: 1, Bogus: 1}]`, false)},
		{"nested-on", rulesSampler(`[{Name: r, SampleRate: 1, Conditions: [{Field: a.b, Operator: "=", Value: 1}]}]`, true)},
		{"nested-on-odd-paths", rulesSampler(`[{Name: r, SampleRate: 1, Conditions: [{Fields: ["#", "a.#", "a.*", "@this", "a|@reverse", "..", "a.-1", "\\"], Operator: exists}]}]`, true)},
	} {
		add("rules-list-structure", s.n, nominalConfig, rulesWith(s.r))
	}
	// rule-level scalars
	for _, sr := range append([]string{"\x00"}, intB...) {
		for _, drop := range []string{"\x00", "true", "false"} {
			add("rule-rate-drop", "SampleRate="+show(sr)+",Drop="+show(drop), nominalConfig,
				rulesWith(rulesSampler("["+rule("r", "\x00", okCond, join(kv("SampleRate", sr), kv("Drop", drop)))+"]", false)))
		}
	}
	for _, sc := range scopes {
		for _, name := range []string{"\x00", `""`, "r", "null", "5"} {
			add("rule-scope-name", "Scope="+show(sc)+",Name="+show(name), nominalConfig,
				rulesWith(rulesSampler("["+rule(name, sc, okCond, "SampleRate: 2")+"]", false)))
		}
	}
	// downstream samplers inside a rule
	for _, ds := range []string{"null", "{}", "5", "[]",
		`{DynamicSampler: {SampleRate: 2, FieldList: [a]}}`, `{DynamicSampler: {SampleRate: 2, FieldList: [""]}}`, `{DynamicSampler: {SampleRate: 2, FieldList: []}}`,
		`{DynamicSampler: {}}`, `{DynamicSampler: null}`,
		`{EMADynamicSampler: {GoalSampleRate: 2, FieldList: [root.a]}}`, `{EMAThroughputSampler: {GoalThroughputPerSec: 10, FieldList: [a]}}`,
		`{WindowedThroughputSampler: {GoalThroughputPerSec: 10, FieldList: [a]}}`, `{TotalThroughputSampler: {GoalThroughputPerSec: 10, FieldList: [a]}}`,
		`{TotalThroughputSampler: {GoalThroughputPerSec: 10, FieldList: [a], ClearFrequency: -1s}}`,
		`{DeterministicSampler: {SampleRate: 2}}`, `{DeterministicSampler: {SampleRate: 0}}`, `{DeterministicSampler: {SampleRate: 4294967296}}`, `{DeterministicSampler: {}}`,
		`{DeterministicSampler: {SampleRate: 2}, DynamicSampler: {SampleRate: 2, FieldList: [a]}}`,
		`{RulesBasedSampler: {Rules: []}}`, `{BogusSampler: {}}`} {
		for _, sc := range []string{"\x00", "span"} {
			add("rule-downstream", "Sampler="+ds+",Scope="+show(sc), nominalConfig,
				rulesWith(rulesSampler("["+rule("r", sc, okCond, "Sampler: "+ds)+", "+rule("r2", sc, "\x00", "Sampler: "+ds)+"]", false)))
		}
	}

	// G4: conditions — operator × value × datatype (field a), and field shapes × operator
	fieldsFor := condFields[:1]
	if thorough {
		fieldsFor = condFields
	}
	for _, f := range fieldsFor {
		for _, op := range operators {
			for _, v := range condValues {
				for _, dt := range datatypes {
					add("condition", join(f, "op="+show(op), "val="+show(v), "dt="+show(dt)), nominalConfig,
						rulesWith(rulesSampler("["+rule("r", "\x00", "["+cond(f, op, v, dt)+"]", "SampleRate: 2")+", "+
							rule("s", "span", "["+cond(f, op, v, dt)+"]", "SampleRate: 3")+"]", false)))
				}
			}
		}
	}
	if !thorough {
		for _, f := range condFields[1:] {
			for _, op := range operators {
				for _, v := range []string{"\x00", `"x"`, "1", `["a", "b"]`} {
					add("condition-fields", join(f, "op="+show(op), "val="+show(v)), nominalConfig,
						rulesWith(rulesSampler("["+rule("r", "\x00", "["+cond(f, op, v, "\x00")+"]", "SampleRate: 2")+", "+
							rule("s", "span", "["+cond(f, op, v, "\x00")+"]", "SampleRate: 3")+"]", true)))
				}
			}
		}
	}

	// G5: the main configuration file — structure
	for _, s := range []struct{ n, c, ext string }{
		{"empty-file", ``, ""}, {"null-doc", `null`, ""}, {"list-doc", `[]`, ""}, {"scalar-doc", `5`, ""},
		{"unknown-group", `{General: {ConfigurationVersion: 2}, Bogus: {A: 1}}`, ""},
		{"group-scalar", `{General: {ConfigurationVersion: 2}, Network: 5}`, ""},
		{"group-null", `{General: {ConfigurationVersion: 2}, Network: null}`, ""},
		{"group-list", `{General: {ConfigurationVersion: 2}, Network: []}`, ""},
		{"group-empty", `{General: {ConfigurationVersion: 2}, Network: {}, Traces: {}, Collection: {}, IDFields: {}}`, ""},
		{"no-general", `{Network: {HoneycombAPI: "http://api.hny.test"}}`, ""},
		{"version-1", `{General: {ConfigurationVersion: 1}}`, ""}, {"version-3", `{General: {ConfigurationVersion: 3}}`, ""},
		{"duplicate-group", "General:\n  ConfigurationVersion: 2\nNetwork:\n  HoneycombAPI: http://a.test\nNetwork:\n  HoneycombAPI: http://b.test\n", ""},
		{"duplicate-field", "General:\n  ConfigurationVersion: 2\nTraces:\n  MaxBatchSize: 500\n  MaxBatchSize: 0\n", ""},
		{"json", `{"General": {"ConfigurationVersion": 2}, "Network": {"HoneycombAPI": "http://api.hny.test"}}`, ".json"},
		{"toml", "[General]\nConfigurationVersion = 2\n[Network]\nHoneycombAPI = \"http://api.hny.test\"\n", ".toml"},
		{"toml-garbage", "[General\nConfigurationVersion = ", ".toml"},
		{"json-garbage", `{"General": `, ".json"},
		{"unknown-ext", nominalConfig, ".txt"},
	} {
		out = append(out, cfgCase{Group: "main-structure", Name: s.n, Config: s.c, Rules: nominalRules, CfgExt: s.ext, Main: true})
	}

	// G6: every (non-deprecated) field of the configuration metadata at every boundary value of its type
	md, err := config.LoadConfigMetadata()
	if err != nil {
		panic(fmt.Sprintf("C28: cannot load config metadata: %v", err))
	}
	for _, g := range md.Groups {
		if g.LastVersion != "" {
			continue
		}
		for _, f := range g.Fields {
			if f.LastVersion != "" {
				continue
			}
			full := g.Name + "." + f.Name
			vals := mainTypeB[f.Type]
			if c, ok := mainChoices[full]; ok {
				vals = c
			}
			if vals == nil {
				panic("C28: no boundary set for config type " + f.Type + " (" + full + ")")
			}
			for _, v := range vals {
				body := f.Name + ": " + v
				if comp, ok := mainCompanions[full]; ok {
					body += ", " + comp
				}
				out = append(out, cfgCase{Group: "main-field", Name: full + "=" + v, Config: mainWith(g.Name, body), Rules: nominalRules, Main: true})
			}
		}
	}
	// G6b: ID field lists and key lists combined with a rules file that uses the same names (they meet in extractCriticalFieldsFromBytes)
	for _, ids := range []string{`[a]`, `[""]`, `[a, a]`, `[meta.trace_id]`, `[trace.parent_id]`} {
		for _, which := range []string{"TraceNames", "ParentNames"} {
			out = append(out, cfgCase{Group: "main-idfields-x-keys", Name: which + "=" + ids, Config: mainWith("IDFields", which+": "+ids),
				Rules: rulesWith(`{DynamicSampler: {SampleRate: 2, FieldList: [a, trace.parent_id, root.a]}}`), Main: true})
		}
	}
	return out
}

func show(v string) string {
	if v == "\x00" {
		return "(absent)"
	}
	return v
}
