package main

// Family (b): the request space. A case is addressed by a flat index into a list of blocks:
//   mutation blocks  seed × listener × mode: every prefix (truncation point) and every single-offset substitution
//                    from the alphabet of the seed's body (modes: plain body; body mutated then gzip/zstd compressed;
//                    the gzip/zstd stream itself mutated)
//   header blocks    endpoint × the product of header shapes
//   struct blocks    OTLP messages with absent/empty nested messages × transports × metadata shapes × listener
//   path blocks      method × path shapes × listener
// Everything is a pure function of the tier.

import (
	"bytes"
	"compress/gzip"
	"encoding/hex"
	"encoding/json"
	"fmt"
	"net/http"
	"sort"
	"strings"
	"time"

	collectorlogs "go.opentelemetry.io/proto/otlp/collector/logs/v1"
	collectortrace "go.opentelemetry.io/proto/otlp/collector/trace/v1"
	common "go.opentelemetry.io/proto/otlp/common/v1"
	logs "go.opentelemetry.io/proto/otlp/logs/v1"
	resource "go.opentelemetry.io/proto/otlp/resource/v1"
	trace "go.opentelemetry.io/proto/otlp/trace/v1"
	"google.golang.org/protobuf/proto"

	"verif/fix/codec"
	"verif/fix/pipeline"
)

// fastGzip: one reused BestSpeed writer (codec.Gzip builds a new default-level writer per call, ~3 ms).
var gzBuf bytes.Buffer
var gzW, _ = gzip.NewWriterLevel(&gzBuf, gzip.BestSpeed)

func fastGzip(b []byte) []byte {
	gzBuf.Reset()
	gzW.Reset(&gzBuf)
	gzW.Write(b)
	gzW.Close()
	return append([]byte{}, gzBuf.Bytes()...)
}

var alphabet = []byte{0x00, 0xff, 0x7f, 0xc1, 0x80, '{'}

const (
	modePlain = iota
	modeGzipInner
	modeZstdInner
	modeGzipOuter
	modeZstdOuter
	nModes
)

var modeNames = []string{"plain", "gzip(mutated body)", "zstd(mutated body)", "mutated gzip stream", "mutated zstd stream"}

type seed struct {
	Name   string
	GRPC   string // "" (HTTP) | "trace" | "logs"
	Method string
	Path   string
	Header map[string]string
	MD     map[string]string
	Body   []byte
	gz, zs []byte // compressed forms of Body
}

type block struct {
	kind     string // "mut" | "hdr" | "struct" | "path"
	seed     int
	listener pipeline.Listener
	mode     int
	n        int
	dims     []int // hdr
	endpoint int   // hdr
	off      int
}

type reqCases struct {
	seeds   []seed
	structs []seed // struct block payloads (already complete requests)
	paths   []pathCase
	blocks  []block
	total   int
}

type pathCase struct{ Method, Path string }

// finalReq is a fully materialised case.
type finalReq struct {
	Block    string            `json:"block"`
	Seed     string            `json:"seed"`
	Listener string            `json:"listener"`
	Mode     string            `json:"mode,omitempty"`
	Mutation string            `json:"mutation,omitempty"`
	GRPC     string            `json:"grpc,omitempty"`
	Method   string            `json:"method,omitempty"`
	Path     string            `json:"path,omitempty"`
	Header   map[string]string `json:"header,omitempty"`
	MD       map[string]string `json:"metadata,omitempty"`
	BodyHex  string            `json:"body_hex"`
	BodyLen  int               `json:"body_len"`
	Auth     string            `json:"auth_lookup,omitempty"`
	body     []byte
	l        pipeline.Listener
	class    string // outcome-class prefix
}

func (r *reqCases) n() int { return r.total }

func (r *reqCases) describe(i int) any {
	f := r.materialise(i)
	return f
}

// ---- seeds ---------------------------------------------------------------------------------------------------

const selfTrace = "c28-trace-self" // ownership does not matter for crash freedom; both routes are exercised by other seeds
var longStr = strings.Repeat("long-", 60)

func seedEventFields(traceID string) []codec.Field {
	return []codec.Field{
		codec.F("trace.trace_id", codec.Str(traceID)),
		codec.F("trace.parent_id", codec.Str("p1")),
		codec.F("name", codec.Str("GET /x")),
		codec.F("count", codec.Int(41)),
		codec.F("duration_ms", codec.F64(12.5)),
		codec.F("error", codec.Bool(true)),
		codec.F("nil", codec.Nil()),
		codec.F("nested", codec.Map(codec.E("k", codec.Arr(codec.Int(1), codec.Str("two"), codec.Map(codec.E("d", codec.Int(3))))))),
		codec.F("meta.signal_type", codec.Str("trace")),
		codec.F("meta.refinery.probe", codec.Bool(false)),
		codec.F("meta.span_count", codec.Int(7)),
		codec.F("s", codec.Str("aé\"\\")),
	}
}

func seedMsgpackFields(traceID string) []codec.Field {
	fs := []codec.Field{
		codec.F("trace.trace_id", codec.StrAs(traceID, codec.Str8)),
		codec.F("trace.parent_id", codec.Str("p1")),
		codec.F("name", codec.StrAs("GET /x", codec.Str16)),
		codec.F("i8", codec.IntAs(-5, codec.Int8)),
		codec.F("i64", codec.IntAs(-5, codec.Int64)),
		codec.F("u64", codec.UintAs(1<<64-1, codec.Uint64)),
		codec.F("f32", codec.F32(1.5)),
		codec.F("f64", codec.F64(12.5)),
		codec.F("bin", codec.Bin("\x00\x01\x02")),
		codec.F("nil", codec.Nil()),
		codec.F("error", codec.Bool(true)),
		codec.F("arr", codec.Value{Kind: codec.KArr, Lead: codec.Arr16, Arr: []codec.Value{codec.Int(1), codec.Str("two")}}),
		codec.F("nested", codec.Value{Kind: codec.KMap, Lead: codec.Map16, Map: []codec.KV{codec.E("k", codec.Arr(codec.Int(1), codec.Map(codec.E("d", codec.Int(3)))))}}),
		codec.F("ts", codec.Time(t0, codec.TS96)),
		codec.F("ext", codec.Ext(5, "abcd")),
		codec.F("long", codec.StrAs(longStr, codec.Str32)),
		codec.F("meta.signal_type", codec.Str("trace")),
		codec.F("meta.refinery.probe", codec.Bool(false)),
		codec.F("meta.span_count", codec.IntAs(7, codec.Uint8)),
		codec.F("meta.refinery.incoming_user_agent", codec.Bin("ua")),
	}
	fs = append(fs, codec.Field{Key: "binkey", KeyBin: true, Val: codec.Int(1)})
	return fs
}

func wideMsgpackBatch(evs ...codec.Event) []byte {
	b := codec.AppendArrayHeader(nil, len(evs), codec.Arr32)
	for _, e := range evs {
		data := e.DataValue()
		data.Lead = codec.Map32
		m := codec.Value{Kind: codec.KMap, Lead: codec.Map16, Map: []codec.KV{
			{K: codec.StrAs("time", codec.Str8), V: *e.TimeVal},
			{K: codec.StrAs("samplerate", codec.Str16), V: codec.IntAs(e.SampleRate, codec.Int32)},
			{K: codec.StrAs("data", codec.Str32), V: data},
			{K: codec.Str("unknown-member"), V: codec.Arr(codec.Int(1))},
		}}
		b = codec.Append(b, m)
	}
	return b
}

func anyStr(s string) *common.AnyValue {
	return &common.AnyValue{Value: &common.AnyValue_StringValue{StringValue: s}}
}
func kvs(k string, v *common.AnyValue) *common.KeyValue { return &common.KeyValue{Key: k, Value: v} }

func richAttrs() []*common.KeyValue {
	return []*common.KeyValue{
		kvs("s", anyStr("x")),
		kvs("i", &common.AnyValue{Value: &common.AnyValue_IntValue{IntValue: -41}}),
		kvs("d", &common.AnyValue{Value: &common.AnyValue_DoubleValue{DoubleValue: 12.5}}),
		kvs("b", &common.AnyValue{Value: &common.AnyValue_BoolValue{BoolValue: true}}),
		kvs("y", &common.AnyValue{Value: &common.AnyValue_BytesValue{BytesValue: []byte{0, 1, 2}}}),
		kvs("a", &common.AnyValue{Value: &common.AnyValue_ArrayValue{ArrayValue: &common.ArrayValue{Values: []*common.AnyValue{anyStr("e"), {Value: &common.AnyValue_IntValue{IntValue: 1}}}}}}),
		kvs("m", &common.AnyValue{Value: &common.AnyValue_KvlistValue{KvlistValue: &common.KeyValueList{Values: []*common.KeyValue{kvs("k", anyStr("v"))}}}}),
		kvs("name", anyStr("shadow")),
	}
}

func richTraceMsg() *collectortrace.ExportTraceServiceRequest {
	tid := tid16("c28-otlp-trace-1")
	sp := func(id, parent string, name string) *trace.Span {
		s := &trace.Span{TraceId: tid, SpanId: []byte(id), Name: name, Kind: trace.Span_SPAN_KIND_SERVER, TraceState: "a=b",
			StartTimeUnixNano: uint64(t0.UnixNano()), EndTimeUnixNano: uint64(t0.Add(time.Second).UnixNano()), Attributes: richAttrs(),
			DroppedAttributesCount: 1,
			Events: []*trace.Span_Event{{TimeUnixNano: uint64(t0.UnixNano()), Name: "ev", Attributes: []*common.KeyValue{kvs("e", anyStr("1"))}},
				{Name: "exception", Attributes: []*common.KeyValue{kvs("exception.message", anyStr("boom")), kvs("exception.type", anyStr("T"))}}},
			Links:  []*trace.Span_Link{{TraceId: tid16("c28-otlp-trace-2"), SpanId: []byte("span0009"), TraceState: "x=y", Attributes: []*common.KeyValue{kvs("l", anyStr("1"))}}},
			Status: &trace.Status{Code: trace.Status_STATUS_CODE_ERROR, Message: "bad"}}
		if parent != "" {
			s.ParentSpanId = []byte(parent)
		}
		return s
	}
	return &collectortrace.ExportTraceServiceRequest{ResourceSpans: []*trace.ResourceSpans{{
		Resource:  &resource.Resource{Attributes: []*common.KeyValue{kvs("service.name", anyStr("svc")), kvs("r", anyStr("1"))}},
		SchemaUrl: "https://example.test/schema",
		ScopeSpans: []*trace.ScopeSpans{{Scope: &common.InstrumentationScope{Name: "lib", Version: "1.0", Attributes: []*common.KeyValue{kvs("sc", anyStr("1"))}},
			Spans: []*trace.Span{sp("span0001", "", "root"), sp("span0002", "span0001", "child")}}},
	}}}
}

func richLogsMsg() *collectorlogs.ExportLogsServiceRequest {
	return &collectorlogs.ExportLogsServiceRequest{ResourceLogs: []*logs.ResourceLogs{{
		Resource: &resource.Resource{Attributes: []*common.KeyValue{kvs("service.name", anyStr("svc"))}},
		ScopeLogs: []*logs.ScopeLogs{{Scope: &common.InstrumentationScope{Name: "lib"},
			LogRecords: []*logs.LogRecord{
				{TimeUnixNano: uint64(t0.UnixNano()), ObservedTimeUnixNano: uint64(t0.UnixNano()), SeverityNumber: logs.SeverityNumber_SEVERITY_NUMBER_ERROR, SeverityText: "ERROR",
					Body: anyStr("hello"), Attributes: richAttrs(), TraceId: tid16("c28-otlp-trace-1"), SpanId: []byte("span0001"), Flags: 1},
				{Body: &common.AnyValue{Value: &common.AnyValue_KvlistValue{KvlistValue: &common.KeyValueList{Values: []*common.KeyValue{kvs("k", anyStr("v"))}}}}},
			}}},
	}}}
}

// stableJSON returns the request body with insignificant white space removed when it is JSON. protojson.Marshal
// deliberately varies its white space with the *binary* (detrand), so an OTLP/JSON seed would otherwise have a
// different length - and the mutation blocks a different number of cases and different indexes - in every build
// (unchanged tree vs. a patched one). Compacting makes the case list a function of the tier only.
func stableJSON(r codec.Request) []byte {
	if !strings.HasPrefix(r.Header["Content-Type"], "application/json") {
		return r.Body
	}
	var b bytes.Buffer
	if err := json.Compact(&b, r.Body); err != nil {
		panic("C28: JSON seed is not valid JSON: " + err.Error())
	}
	return b.Bytes()
}

func buildSeeds(thorough bool) []seed {
	tv := codec.Time(t0, codec.TS64)
	tv32 := codec.Time(time.Unix(2000000000, 0).UTC(), codec.TS32)
	evJSON := codec.Event{TimeText: t0.Format(time.RFC3339Nano), SampleRate: 7, Data: seedEventFields(selfTrace)}
	evMP := codec.Event{TimeText: t0.Format(time.RFC3339Nano), TimeVal: &tv, SampleRate: 7, Data: seedMsgpackFields(selfTrace)}
	ev2 := codec.Event{TimeVal: &tv32, TimeText: "1893456000", SampleRate: 1, Data: []codec.Field{codec.F("msg", codec.Str("no trace")), codec.F("count", codec.Int(1))}}
	ev3 := codec.Event{Data: []codec.Field{codec.F("traceId", codec.Str("c28-trace-other")), codec.F("name", codec.Str("x"))}} // no time, no rate

	var out []seed
	add := func(name string, r codec.Request) {
		out = append(out, seed{Name: name, Method: r.Method, Path: r.Path, Header: r.Header, Body: stableJSON(r)})
	}
	add("event-json", codec.SingleEvent(dataset, classicKey, codec.CTJSON, evJSON))
	add("event-msgpack", codec.SingleEvent(dataset, classicKey, codec.CTMsgpack, evMP))
	add("batch-json", codec.Batch(dataset, classicKey, codec.CTJSON, evJSON, ev2, ev3))
	add("batch-msgpack", codec.Batch(dataset, classicKey, codec.CTMsgpack, evMP, ev2, ev3))
	wide := codec.Batch(dataset, classicKey, codec.CTMsgpack, evMP)
	wide.Body = wideMsgpackBatch(evMP, ev2)
	add("batch-msgpack-wide-headers", wide)
	add("otlp-traces-proto", codec.OTLPHTTP("/v1/traces", classicKey, dataset, codec.CTProto, richTraceMsg()))
	add("otlp-traces-json", codec.OTLPHTTP("/v1/traces", classicKey, dataset, codec.CTJSON, richTraceMsg()))
	add("otlp-logs-proto", codec.OTLPHTTP("/v1/logs", classicKey, dataset, codec.CTProto, richLogsMsg()))
	add("otlp-logs-json", codec.OTLPHTTP("/v1/logs", classicKey, dataset, codec.CTJSON, richLogsMsg()))
	add("proxy-post-marker", codec.Request{Method: "POST", Path: "/1/markers/ds", Header: map[string]string{"Content-Type": "application/json", "X-Honeycomb-Team": classicKey},
		Body: []byte(`{"message":"deploy","type":"deploy"}`)})
	md := map[string]string{"x-honeycomb-team": classicKey, "x-honeycomb-dataset": dataset, "content-type": "application/grpc"}
	out = append(out, seed{Name: "grpc-traces", GRPC: "trace", MD: md, Body: codec.OTLPProto(richTraceMsg())})
	out = append(out, seed{Name: "grpc-logs", GRPC: "logs", MD: md, Body: codec.OTLPProto(richLogsMsg())})
	for i := range out {
		out[i].gz = fastGzip(out[i].Body)
		out[i].zs = codec.Zstd(out[i].Body)
	}
	return out
}

// ---- header product ------------------------------------------------------------------------------------------

var (
	hdrEndpoints = []string{"event", "batch", "traces", "logs"}
	hdrCT        = []string{"application/json", "application/msgpack", "application/x-msgpack", "application/protobuf", "application/x-protobuf", "\x00", "text/plain",
		"application/json; charset=utf-8", "APPLICATION/JSON"}
	hdrCE  = []string{"\x00", "gzip", "zstd", "deflate", "GZIP", "gzip, zstd", "identity"} // header only; the body is NOT compressed (mismatch) except index 1/2 where it is
	hdrKey = []string{classicKey, "\x00", "", "hcaik_" + strings.Repeat("a1", 29), envKey, strings.Repeat("k", 64), "short:" + classicKey, strings.Repeat("K", 9000), "kéy"}
	hdrDS  = []string{"ds", "\x00", "%2F", "a%20b", "%zz", "ds/extra"}
	hdrSR  = []string{"\x00", "", "0", "1", "-1", "2147483648", "4294967296", "9223372036854775807", "9223372036854775808", "abc", "1.5", " 7", "0x10"}
	hdrET  = []string{"\x00", "", "0", "-1", "1893456000", "1893456000123", "1893456000123456", "1893456000123456789", "18934560001234567890123", "1e400", "NaN", "Inf",
		"abc", "2031-07-09T23:59:58.123456789Z", "0000-01-01T00:00:00Z", "9999-12-31T23:59:59.999999999+14:00", "1535589382.641", "0x10", "-1893456000123", "１２３４５６７８９０"}
	hdrAuth = []string{"ok", "401", "garbage"} // what the fake /1/auth answers for non-classic keys
)

func hdrDims(endpoint int, thorough bool) [][]int {
	// returns a list of products (each a dims vector over ct, ce, key, ds, sr, et, auth) to enumerate fully
	full := []int{len(hdrCT), len(hdrCE), len(hdrKey), len(hdrDS), 1, 1, len(hdrAuth)}
	if endpoint != 0 {
		return [][]int{full}
	}
	if thorough {
		return [][]int{{len(hdrCT), len(hdrCE), len(hdrKey), len(hdrDS), len(hdrSR), len(hdrET), 1}, {2, 1, len(hdrKey), 1, 1, 1, len(hdrAuth)}}
	}
	return [][]int{full, {2, 3, 1, 1, len(hdrSR), len(hdrET), 1}}
}

// ---- OTLP structural variants ----------------------------------------------------------------------------------

type structVariant struct {
	name string
	msg  proto.Message
	logs bool
}

func structVariants() []structVariant {
	tid := tid16("c28-otlp-trace-1")
	sid := []byte("span0001")
	tr := func(name string, rs ...*trace.ResourceSpans) structVariant {
		return structVariant{name: name, msg: &collectortrace.ExportTraceServiceRequest{ResourceSpans: rs}}
	}
	one := func(name string, s *trace.Span) structVariant {
		return tr(name, &trace.ResourceSpans{Resource: &resource.Resource{}, ScopeSpans: []*trace.ScopeSpans{{Spans: []*trace.Span{s}}}})
	}
	deep := anyStr("leaf")
	for i := 0; i < 40; i++ {
		deep = &common.AnyValue{Value: &common.AnyValue_ArrayValue{ArrayValue: &common.ArrayValue{Values: []*common.AnyValue{deep}}}}
	}
	deepKV := anyStr("leaf")
	for i := 0; i < 40; i++ {
		deepKV = &common.AnyValue{Value: &common.AnyValue_KvlistValue{KvlistValue: &common.KeyValueList{Values: []*common.KeyValue{kvs("k", deepKV)}}}}
	}
	vs := []structVariant{
		tr("empty-request"),
		tr("resourcespans-empty", &trace.ResourceSpans{}),
		tr("resource-empty", &trace.ResourceSpans{Resource: &resource.Resource{}}),
		tr("resource-attr-empty-kv", &trace.ResourceSpans{Resource: &resource.Resource{Attributes: []*common.KeyValue{{}}}, ScopeSpans: []*trace.ScopeSpans{{Spans: []*trace.Span{{TraceId: tid, SpanId: sid}}}}}),
		tr("resource-attr-no-value", &trace.ResourceSpans{Resource: &resource.Resource{Attributes: []*common.KeyValue{{Key: "service.name"}}}, ScopeSpans: []*trace.ScopeSpans{{Spans: []*trace.Span{{TraceId: tid, SpanId: sid}}}}}),
		tr("resource-attr-empty-anyvalue", &trace.ResourceSpans{Resource: &resource.Resource{Attributes: []*common.KeyValue{{Key: "service.name", Value: &common.AnyValue{}}}}, ScopeSpans: []*trace.ScopeSpans{{Spans: []*trace.Span{{TraceId: tid, SpanId: sid}}}}}),
		tr("service-name-non-string", &trace.ResourceSpans{Resource: &resource.Resource{Attributes: []*common.KeyValue{kvs("service.name", &common.AnyValue{Value: &common.AnyValue_IntValue{IntValue: 5}})}}, ScopeSpans: []*trace.ScopeSpans{{Spans: []*trace.Span{{TraceId: tid, SpanId: sid}}}}}),
		tr("scopespans-empty", &trace.ResourceSpans{ScopeSpans: []*trace.ScopeSpans{{}}}),
		tr("scope-empty", &trace.ResourceSpans{ScopeSpans: []*trace.ScopeSpans{{Scope: &common.InstrumentationScope{}, Spans: []*trace.Span{{TraceId: tid, SpanId: sid}}}}}),
		tr("no-resource-no-scope", &trace.ResourceSpans{ScopeSpans: []*trace.ScopeSpans{{Spans: []*trace.Span{{TraceId: tid, SpanId: sid}}}}}),
		one("span-empty", &trace.Span{}),
		one("span-traceid-only", &trace.Span{TraceId: tid}),
		one("span-traceid-8", &trace.Span{TraceId: tid[:8], SpanId: sid}),
		one("span-traceid-15", &trace.Span{TraceId: tid[:15], SpanId: sid}),
		one("span-traceid-17", &trace.Span{TraceId: append(append([]byte{}, tid...), 1), SpanId: sid}),
		one("span-traceid-0", &trace.Span{TraceId: []byte{}, SpanId: sid}),
		one("span-traceid-zeros", &trace.Span{TraceId: make([]byte, 16), SpanId: make([]byte, 8)}),
		one("span-spanid-7", &trace.Span{TraceId: tid, SpanId: sid[:7]}),
		one("span-spanid-9", &trace.Span{TraceId: tid, SpanId: append(append([]byte{}, sid...), 1)}),
		one("span-parent-1", &trace.Span{TraceId: tid, SpanId: sid, ParentSpanId: []byte{1}}),
		one("span-times-max", &trace.Span{TraceId: tid, SpanId: sid, StartTimeUnixNano: 1<<64 - 1, EndTimeUnixNano: 0}),
		one("span-times-end-before-start", &trace.Span{TraceId: tid, SpanId: sid, StartTimeUnixNano: 1 << 62, EndTimeUnixNano: 1}),
		one("span-kind-99", &trace.Span{TraceId: tid, SpanId: sid, Kind: trace.Span_SpanKind(99)}),
		one("span-kind-negative", &trace.Span{TraceId: tid, SpanId: sid, Kind: trace.Span_SpanKind(-1)}),
		one("span-status-empty", &trace.Span{TraceId: tid, SpanId: sid, Status: &trace.Status{}}),
		one("span-status-code-99", &trace.Span{TraceId: tid, SpanId: sid, Status: &trace.Status{Code: trace.Status_StatusCode(99)}}),
		one("span-event-empty", &trace.Span{TraceId: tid, SpanId: sid, Events: []*trace.Span_Event{{}}}),
		one("span-event-attr-empty", &trace.Span{TraceId: tid, SpanId: sid, Events: []*trace.Span_Event{{Name: "exception", Attributes: []*common.KeyValue{{}, {Key: "exception.message"}}}}}),
		one("span-link-empty", &trace.Span{TraceId: tid, SpanId: sid, Links: []*trace.Span_Link{{}}}),
		one("span-link-short-ids", &trace.Span{TraceId: tid, SpanId: sid, Links: []*trace.Span_Link{{TraceId: []byte{1}, SpanId: []byte{2}}}}),
		one("span-attr-empty-kv", &trace.Span{TraceId: tid, SpanId: sid, Attributes: []*common.KeyValue{{}}}),
		one("span-attr-no-value", &trace.Span{TraceId: tid, SpanId: sid, Attributes: []*common.KeyValue{{Key: "k"}}}),
		one("span-attr-empty-anyvalue", &trace.Span{TraceId: tid, SpanId: sid, Attributes: []*common.KeyValue{{Key: "k", Value: &common.AnyValue{}}}}),
		one("span-attr-empty-array", &trace.Span{TraceId: tid, SpanId: sid, Attributes: []*common.KeyValue{kvs("k", &common.AnyValue{Value: &common.AnyValue_ArrayValue{ArrayValue: &common.ArrayValue{}}})}}),
		one("span-attr-array-of-empty", &trace.Span{TraceId: tid, SpanId: sid, Attributes: []*common.KeyValue{kvs("k", &common.AnyValue{Value: &common.AnyValue_ArrayValue{ArrayValue: &common.ArrayValue{Values: []*common.AnyValue{{}, {}}}}})}}),
		one("span-attr-nil-arrayvalue", &trace.Span{TraceId: tid, SpanId: sid, Attributes: []*common.KeyValue{kvs("k", &common.AnyValue{Value: &common.AnyValue_ArrayValue{}})}}),
		one("span-attr-nil-kvlist", &trace.Span{TraceId: tid, SpanId: sid, Attributes: []*common.KeyValue{kvs("k", &common.AnyValue{Value: &common.AnyValue_KvlistValue{}})}}),
		one("span-attr-kvlist-of-empty", &trace.Span{TraceId: tid, SpanId: sid, Attributes: []*common.KeyValue{kvs("k", &common.AnyValue{Value: &common.AnyValue_KvlistValue{KvlistValue: &common.KeyValueList{Values: []*common.KeyValue{{}, {Key: "x"}}}}})}}),
		one("span-attr-deep-array", &trace.Span{TraceId: tid, SpanId: sid, Attributes: []*common.KeyValue{kvs("k", deep)}}),
		one("span-attr-deep-kvlist", &trace.Span{TraceId: tid, SpanId: sid, Attributes: []*common.KeyValue{kvs("k", deepKV)}}),
		one("span-attr-duplicate-keys", &trace.Span{TraceId: tid, SpanId: sid, Attributes: []*common.KeyValue{kvs("k", anyStr("1")), kvs("k", anyStr("2")), kvs("", anyStr("3"))}}),
		one("span-attr-reserved-names", &trace.Span{TraceId: tid, SpanId: sid, Attributes: []*common.KeyValue{kvs("trace.trace_id", anyStr("x")), kvs("meta.refinery.probe", &common.AnyValue{Value: &common.AnyValue_BoolValue{BoolValue: true}}), kvs("meta.signal_type", anyStr("log")), kvs("meta.span_count", anyStr("NaN")), kvs("sampleRate", anyStr("-5"))}}),
		one("span-samplerate-attr-huge", &trace.Span{TraceId: tid, SpanId: sid, Attributes: []*common.KeyValue{kvs("sampleRate", &common.AnyValue{Value: &common.AnyValue_IntValue{IntValue: 1<<63 - 1}})}}),
	}
	lg := func(name string, rl ...*logs.ResourceLogs) structVariant {
		return structVariant{name: "logs-" + name, logs: true, msg: &collectorlogs.ExportLogsServiceRequest{ResourceLogs: rl}}
	}
	onel := func(name string, r *logs.LogRecord) structVariant {
		return lg(name, &logs.ResourceLogs{ScopeLogs: []*logs.ScopeLogs{{LogRecords: []*logs.LogRecord{r}}}})
	}
	vs = append(vs,
		lg("empty-request"), lg("resourcelogs-empty", &logs.ResourceLogs{}), lg("scopelogs-empty", &logs.ResourceLogs{ScopeLogs: []*logs.ScopeLogs{{}}}),
		lg("resource-attr-empty", &logs.ResourceLogs{Resource: &resource.Resource{Attributes: []*common.KeyValue{{}}}, ScopeLogs: []*logs.ScopeLogs{{LogRecords: []*logs.LogRecord{{}}}}}),
		onel("record-empty", &logs.LogRecord{}),
		onel("body-empty-anyvalue", &logs.LogRecord{Body: &common.AnyValue{}}),
		onel("body-nil-kvlist", &logs.LogRecord{Body: &common.AnyValue{Value: &common.AnyValue_KvlistValue{}}}),
		onel("body-kvlist-of-empty", &logs.LogRecord{Body: &common.AnyValue{Value: &common.AnyValue_KvlistValue{KvlistValue: &common.KeyValueList{Values: []*common.KeyValue{{}}}}}}),
		onel("body-deep", &logs.LogRecord{Body: deepKV}),
		onel("body-bytes", &logs.LogRecord{Body: &common.AnyValue{Value: &common.AnyValue_BytesValue{BytesValue: []byte{0xff, 0xfe}}}}),
		onel("severity-99", &logs.LogRecord{SeverityNumber: logs.SeverityNumber(99), Body: anyStr("x")}),
		onel("severity-negative", &logs.LogRecord{SeverityNumber: logs.SeverityNumber(-1), Body: anyStr("x")}),
		onel("traceid-1", &logs.LogRecord{TraceId: []byte{1}, SpanId: []byte{2}, Body: anyStr("x")}),
		onel("traceid-17", &logs.LogRecord{TraceId: append(append([]byte{}, tid...), 1), SpanId: sid, Body: anyStr("x")}),
		onel("times-max", &logs.LogRecord{TimeUnixNano: 1<<64 - 1, ObservedTimeUnixNano: 1<<64 - 1, Body: anyStr("x")}),
		onel("attr-empty-kv", &logs.LogRecord{Attributes: []*common.KeyValue{{}, {Key: "k"}, {Key: "v", Value: &common.AnyValue{}}}, Body: anyStr("x")}),
	)
	return vs
}

var mdVariants = []map[string]string{
	{"x-honeycomb-team": classicKey, "x-honeycomb-dataset": dataset},
	{"x-honeycomb-team": classicKey},
	{"x-honeycomb-team": envKey},
	{"x-honeycomb-team": ""},
	{},
	{"x-hny-team": classicKey, "x-honeycomb-dataset": "%zz", "user-agent": "ua/1"},
}

// ---- paths -------------------------------------------------------------------------------------------------

func pathCases() []pathCase {
	paths := []string{"/", "/1/events/", "/1/events", "/1/events/a/b", "/1/events/%2F", "/1/events/%00", "/1/events/a%20b", "/1/events/%C3%BC", "/1/events/ds?x=%zz",
		"/1/batch/", "/1/batch", "/1/batch/ds/extra", "/1/batch/%2F%2F", "/v1/traces/", "/v1/traces/x", "/v1/logs/", "/v1/metrics", "/v1/",
		"/query/", "/query/trace/", "/query/trace/a%2Fb", "/query/trace/%00", "/query/rules/json/", "/query/rules//ds", "/query/rules/JSON/ds", "/query/rules/xml/ds",
		"/query/allrules/", "/query/allrules/xml", "/query/allrules/toml", "/query/configmetadata", "/query/configmetadata/x",
		"/alive", "/alive/", "/ready?x=1", "/version", "/debug/pprof/", "/1/auth", "/1/markers/ds", "//1//events//ds", "/1/events/" + strings.Repeat("d", 8000),
		"/%2e%2e/1/events/ds", "/1/../1/events/ds"}
	var out []pathCase
	for _, m := range []string{"GET", "POST", "PUT", "DELETE", "OPTIONS", "HEAD", "PATCH"} {
		for _, p := range paths {
			if _, err := http.NewRequest(m, "http://refinery.test"+p, nil); err != nil {
				continue
			}
			out = append(out, pathCase{m, p})
		}
	}
	return out
}

// ---- assembling the case list -----------------------------------------------------------------------------------

func genReqCases(thorough bool) *reqCases {
	r := &reqCases{seeds: buildSeeds(thorough)}
	listeners := []pipeline.Listener{pipeline.Incoming, pipeline.Peer}
	addBlock := func(b block) {
		if b.n <= 0 {
			return
		}
		b.off = r.total
		r.total += b.n
		r.blocks = append(r.blocks, b)
	}
	for si, s := range r.seeds {
		for _, l := range listeners {
			for m := 0; m < nModes; m++ {
				if s.GRPC != "" && m != modePlain {
					continue // the gRPC decoder hands the handler the already decompressed message
				}
				if !thorough && l == pipeline.Peer && m != modePlain {
					continue // quick: compressed modes on the incoming listener only (same handler code on both)
				}
				base := r.base(si, m)
				addBlock(block{kind: "mut", seed: si, listener: l, mode: m, n: (len(base) + 1) + len(base)*len(alphabet)})
			}
		}
	}
	for e := range hdrEndpoints {
		for _, l := range listeners {
			for _, dims := range hdrDims(e, thorough) {
				n := 1
				for _, d := range dims {
					n *= d
				}
				addBlock(block{kind: "hdr", endpoint: e, listener: l, dims: dims, n: n})
			}
		}
	}
	// structural variants → complete requests
	for _, v := range structVariants() {
		path := "/v1/traces"
		g := "trace"
		if v.logs {
			path, g = "/v1/logs", "logs"
		}
		for _, md := range mdVariants {
			r.structs = append(r.structs, seed{Name: v.name + "/grpc", GRPC: g, MD: md, Body: codec.OTLPProto(v.msg)})
		}
		for _, ct := range []string{codec.CTProto, codec.CTJSON} {
			q := codec.OTLPHTTP(path, classicKey, dataset, ct, v.msg)
			r.structs = append(r.structs, seed{Name: v.name + "/http-" + ct, Method: q.Method, Path: q.Path, Header: q.Header, Body: stableJSON(q)})
		}
	}
	for _, l := range listeners {
		addBlock(block{kind: "struct", listener: l, n: len(r.structs)})
	}
	r.paths = pathCases()
	for _, l := range listeners {
		addBlock(block{kind: "path", listener: l, n: len(r.paths)})
	}
	return r
}

func (r *reqCases) base(si, mode int) []byte {
	s := r.seeds[si]
	switch mode {
	case modeGzipOuter:
		return s.gz
	case modeZstdOuter:
		return s.zs
	}
	return s.Body
}

func mutate(base []byte, k int) ([]byte, string) {
	if k <= len(base) {
		return append([]byte{}, base[:k]...), fmt.Sprintf("prefix of length %d of %d", k, len(base))
	}
	k -= len(base) + 1
	off, a := k/len(alphabet), alphabet[k%len(alphabet)]
	out := append([]byte{}, base...)
	out[off] = a
	return out, fmt.Sprintf("byte at offset %d (was %#02x) replaced by %#02x", off, base[off], a)
}

func cloneHdr(h map[string]string) map[string]string {
	out := map[string]string{}
	for k, v := range h {
		out[k] = v
	}
	return out
}

func (r *reqCases) materialise(i int) *finalReq {
	bi := sort.Search(len(r.blocks), func(k int) bool { return r.blocks[k].off+r.blocks[k].n > i })
	b := r.blocks[bi]
	k := i - b.off
	f := &finalReq{Block: b.kind, Listener: b.listener.String(), l: b.listener}
	switch b.kind {
	case "mut":
		s := r.seeds[b.seed]
		f.Seed, f.Mode, f.GRPC, f.Method, f.Path, f.MD = s.Name, modeNames[b.mode], s.GRPC, s.Method, s.Path, s.MD
		f.Header = cloneHdr(s.Header)
		body, what := mutate(r.base(b.seed, b.mode), k)
		f.Mutation = what
		switch b.mode {
		case modeGzipInner:
			body = fastGzip(body)
			f.Header["Content-Encoding"] = "gzip"
		case modeZstdInner:
			body = codec.Zstd(body)
			f.Header["Content-Encoding"] = "zstd"
		case modeGzipOuter:
			f.Header["Content-Encoding"] = "gzip"
		case modeZstdOuter:
			f.Header["Content-Encoding"] = "zstd"
		}
		f.body = body
		f.class = s.Name + "|" + modeNames[b.mode]
	case "hdr":
		idx := make([]int, len(b.dims))
		x := k
		for d := len(b.dims) - 1; d >= 0; d-- {
			idx[d] = x % b.dims[d]
			x /= b.dims[d]
		}
		ep := hdrEndpoints[b.endpoint]
		f.Seed = "headers/" + ep
		var s seed
		switch ep {
		case "event":
			s = r.seeds[0]
			if idx[0] == 1 || idx[0] == 2 {
				s = r.seeds[1]
			}
		case "batch":
			s = r.seeds[2]
			if idx[0] == 1 || idx[0] == 2 {
				s = r.seeds[3]
			}
		case "traces":
			s = r.seeds[5]
			if idx[0] == 0 || idx[0] >= 7 {
				s = r.seeds[6]
			}
		case "logs":
			s = r.seeds[7]
			if idx[0] == 0 || idx[0] >= 7 {
				s = r.seeds[8]
			}
		}
		f.Method, f.Path = s.Method, s.Path
		h := map[string]string{}
		set := func(name, v string) {
			if v != "\x00" {
				h[name] = v
			}
		}
		set("Content-Type", hdrCT[idx[0]])
		ce := hdrCE[idx[1]]
		set("Content-Encoding", ce)
		body := s.Body
		switch ce {
		case "gzip":
			body = s.gz
		case "zstd":
			body = s.zs
		}
		key := hdrKey[idx[2]]
		if strings.HasPrefix(key, "short:") {
			h["X-Hny-Team"] = strings.TrimPrefix(key, "short:")
		} else {
			set("X-Honeycomb-Team", key)
		}
		ds := hdrDS[idx[3]]
		if ep == "event" || ep == "batch" {
			if ds == "\x00" {
				ds = ""
			}
			f.Path = "/1/" + map[string]string{"event": "events", "batch": "batch"}[ep] + "/" + ds
		} else {
			set("X-Honeycomb-Dataset", ds)
		}
		set("X-Honeycomb-Samplerate", hdrSR[idx[4]])
		set("X-Honeycomb-Event-Time", hdrET[idx[5]])
		f.Auth = hdrAuth[idx[6]]
		f.Header, f.body = h, body
		f.class = "headers/" + ep
	case "struct":
		s := r.structs[k]
		f.Seed, f.GRPC, f.Method, f.Path, f.MD, f.Header, f.body = s.Name, s.GRPC, s.Method, s.Path, s.MD, cloneHdr(s.Header), s.Body
		f.class = "struct"
	case "path":
		p := r.paths[k]
		f.Seed, f.Method, f.Path = "path", p.Method, p.Path
		f.Header = map[string]string{"X-Honeycomb-Team": classicKey, "X-Honeycomb-Refinery-Query": queryToken, "Content-Type": "application/json"}
		if p.Method != "GET" && p.Method != "HEAD" {
			f.body = []byte(`{"a":1}`)
		}
		f.class = "path"
	}
	f.BodyLen = len(f.body)
	if len(f.body) <= 1200 {
		f.BodyHex = hex.EncodeToString(f.body)
	} else {
		f.BodyHex = hex.EncodeToString(f.body[:1200]) + "…"
	}
	return f
}

const queryToken = "c28-query-token"
