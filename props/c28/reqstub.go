package main

type reqCases struct{}

func genReqCases(thorough bool) *reqCases   { return &reqCases{} }
func (r *reqCases) n() int                  { return 0 }
func (r *reqCases) describe(i int) any      { return nil }

type reqDriver struct{}

func newReqDriver(w *worker) *reqDriver     { return &reqDriver{} }
func (d *reqDriver) run(i int, r *reqCases) {}
