// C32: TTL sets and maps agree on membership at every instant.
// Engine E1 (seqx): BFS over add/remove/advance histories on the real SetWithTTL / MapWithTTL under a
// fake clock that lands exactly on expiry-1ns, expiry, expiry+1ns; after every event every query is
// evaluated (in two different orders on two replicas) and must agree with each other (self-consistency,
// all instants) and with the TTL reference model (all instants except the expiry instant itself, where
// the statement's wording leaves the convention open).
package main

import (
	"fmt"
	"sort"
	"strings"
	"time"

	"github.com/honeycombio/refinery/generics"
	"github.com/jonboulle/clockwork"

	"verif/engine/ev"
	"verif/engine/seqx"
)

const ttl = time.Second

type event struct {
	Op string // add, remove, adv
	K  string
	D  time.Duration
}

func (e event) String() string {
	if e.Op == "adv" {
		return "adv(" + e.D.String() + ")"
	}
	return e.Op + "(" + e.K + ")"
}

var t0 = time.Date(2024, 1, 1, 0, 0, 0, 0, time.UTC)

// uniform view over the two structures
type subject interface {
	add(k string)
	remove(k string)
	// queries: name -> set of keys it claims present (sorted, joined)
	queries(order int, keys []string) map[string]string
	phys(now time.Time) string
}

type setSubj struct {
	s *generics.SetWithTTL[string]
}

func (s setSubj) add(k string)    { s.s.Add(k) }
func (s setSubj) remove(k string) { s.s.Remove(k) }
func (s setSubj) queries(order int, keys []string) map[string]string {
	out := map[string]string{}
	contains := func() {
		var in []string
		for _, k := range keys {
			if s.s.Contains(k) {
				in = append(in, k)
			}
		}
		out["Contains"] = strings.Join(in, ",")
	}
	members := func() { out["Members"] = strings.Join(s.s.Members(), ",") }
	length := func() { out["Length#"] = fmt.Sprint(s.s.Length()) }
	fs := []func(){contains, members, length}
	fs = append(fs[order%len(fs):], fs[:order%len(fs)]...) // replica i asks query i FIRST (before any query that cleans up)
	for _, f := range fs {
		f()
	}
	return out
}
func (s setSubj) phys(now time.Time) string {
	var p []string
	for k, e := range s.s.Items {
		p = append(p, fmt.Sprintf("%s:%d", k, clip(e.Sub(now))))
	}
	sort.Strings(p)
	return strings.Join(p, ";")
}

type mapSubj struct {
	m *generics.MapWithTTL[string, int]
	n *int
}

func (s mapSubj) add(k string)    { *s.n++; s.m.Set(k, *s.n) }
func (s mapSubj) remove(k string) { s.m.Delete(k) }
func (s mapSubj) queries(order int, keys []string) map[string]string {
	out := map[string]string{}
	get := func() {
		var in []string
		for _, k := range keys {
			if _, ok := s.m.Get(k); ok {
				in = append(in, k)
			}
		}
		out["Get"] = strings.Join(in, ",")
	}
	ks := func() { k := s.m.Keys(); sort.Strings(k); out["Keys"] = strings.Join(k, ",") }
	sk := func() { out["SortedKeys"] = strings.Join(s.m.SortedKeys(), ",") }
	vals := func() { out["Values#"] = fmt.Sprint(len(s.m.Values())) }
	svals := func() { out["SortedValues#"] = fmt.Sprint(len(s.m.SortedValues())) }
	length := func() { out["Length#"] = fmt.Sprint(s.m.Length()) }
	fs := []func(){get, ks, sk, vals, svals, length}
	fs = append(fs[order%len(fs):], fs[:order%len(fs)]...) // replica i asks query i FIRST (before any query that cleans up)
	for _, f := range fs {
		f()
	}
	return out
}
func (s mapSubj) phys(now time.Time) string {
	var p []string
	for k, e := range s.m.Items {
		p = append(p, fmt.Sprintf("%s:%d", k, clip(e.Expiration.Sub(now))))
	}
	sort.Strings(p)
	return strings.Join(p, ";")
}

func clip(d time.Duration) int64 {
	if d < -2 {
		return -2
	}
	return int64(d)
}

func build(kind string, clk clockwork.Clock) subject {
	if kind == "set" {
		s := generics.NewSetWithTTL[string](ttl)
		s.Clock = clk
		return setSubj{s}
	}
	m := generics.NewMapWithTTL[string, int](ttl, nil)
	m.Clock = clk
	n := 0
	return mapSubj{m, &n}
}

var keys = []string{"a", "b"}

func exec(kind string, h []event) (string, string, *seqx.Failure) {
	clk := clockwork.NewFakeClockAt(t0)
	// one replica per query: same history, and after every event replica i asks query i first, so that each
	// query is also evaluated on a structure no other query has cleaned up since the clock moved
	nrep := 3
	if kind == "map" {
		nrep = 6
	}
	var subj []subject
	for i := 0; i < nrep; i++ {
		subj = append(subj, build(kind, clk))
	}
	model := map[string]time.Time{} // key -> expiry
	var last string
	for step, e := range h {
		switch e.Op {
		case "add":
			for _, s := range subj {
				s.add(e.K)
			}
			model[e.K] = clk.Now().Add(ttl)
		case "remove":
			for _, s := range subj {
				s.remove(e.K)
			}
			delete(model, e.K)
		case "adv":
			clk.Advance(e.D)
		}
		now := clk.Now()
		// model answer: definitely present (now < exp), definitely absent (now > exp or missing), open (now == exp)
		var must, may []string
		for _, k := range keys {
			exp, ok := model[k]
			if !ok {
				continue
			}
			if now.Before(exp) {
				must = append(must, k)
				may = append(may, k)
			} else if now.Equal(exp) {
				may = append(may, k)
			}
		}
		atInstant := len(may) != len(must)
		var answers []string
		for oi, s := range subj {
			q := s.queries(oi, keys)
			// normalise count queries against the listing of the same replica
			var names []string
			for n := range q {
				names = append(names, n)
			}
			sort.Strings(names)
			var ref, refName string
			for _, n := range names {
				v := q[n]
				isCount := strings.HasSuffix(n, "#")
				if ref == "" && !isCount {
					ref, refName = v, n
				}
				_ = refName
			}
			for _, n := range names {
				v := q[n]
				if strings.HasSuffix(n, "#") {
					want := 0
					if ref != "" {
						want = len(strings.Split(ref, ","))
					}
					if v != fmt.Sprint(want) {
						return "", "", &seqx.Failure{Sig: fmt.Sprintf("%s:self-inconsistent:%s-vs-%s%s", kind, n, refName, instTag(atInstant)),
							What: fmt.Sprintf("step %d %v: %s=%s but %s=%q (queries of one instant disagree)", step, e, n, v, refName, ref)}
					}
				} else if v != ref {
					return "", "", &seqx.Failure{Sig: fmt.Sprintf("%s:self-inconsistent:%s-vs-%s%s", kind, n, refName, instTag(atInstant)),
						What: fmt.Sprintf("step %d %v: %s=%q but %s=%q at the same instant", step, e, n, v, refName, ref)}
				}
			}
			answers = append(answers, ref)
		}
		for i := 1; i < len(answers); i++ {
			if answers[0] != answers[i] {
				return "", "", &seqx.Failure{Sig: kind + ":query-order-dependent" + instTag(atInstant),
					What: fmt.Sprintf("step %d %v: answers depend on query order: %q (replica 0) vs %q (replica %d)", step, e, answers[0], answers[i], i)}
			}
		}
		got := answers[0]
		if got != strings.Join(must, ",") && got != strings.Join(may, ",") {
			return "", "", &seqx.Failure{Sig: kind + ":disagrees-with-ttl-model",
				What: fmt.Sprintf("step %d %v: present=%q, model requires %q (or %q at the expiry instant)", step, e, got, strings.Join(must, ","), strings.Join(may, ","))}
		}
		last = got
		if atInstant {
			last += "@instant"
		}
		if step == len(h)-1 {
			if f := sparseReplicas(kind, h, nrep, must, may, atInstant); f != nil {
				return "", "", f
			}
		}
	}
	now := clk.Now()
	var ms []string
	for k, e := range model {
		ms = append(ms, fmt.Sprintf("%s:%d", k, clip(e.Sub(now))))
	}
	sort.Strings(ms)
	canon := kind + "|" + strings.Join(ms, ";")
	for _, sj := range subj {
		canon += "|" + sj.phys(now)
	}
	return canon, last, nil
}

// sparseReplicas: the replicas above are asked after EVERY event, so an answer remembered from an earlier query
// (a cached listing) is always refreshed one event later. Here replica j is asked only after event j (j = -1:
// never) and after the last event: whatever it remembered at j must not show at the end, whatever happened in
// between. Every prefix of h is a history of its own in the search, so only the final answers are judged here.
func sparseReplicas(kind string, h []event, nrep int, must, may []string, atInstant bool) *seqx.Failure {
	for j := -1; j < len(h)-1; j++ {
		clk := clockwork.NewFakeClockAt(t0)
		s := build(kind, clk)
		order := (j + 1) % nrep
		for step, e := range h {
			switch e.Op {
			case "add":
				s.add(e.K)
			case "remove":
				s.remove(e.K)
			case "adv":
				clk.Advance(e.D)
			}
			if step == j {
				s.queries(order, keys)
			}
		}
		q := s.queries(order, keys)
		var names []string
		for n := range q {
			names = append(names, n)
		}
		sort.Strings(names)
		when := "never before"
		if j >= 0 {
			when = fmt.Sprintf("only after step %d %v", j, h[j])
		}
		for _, n := range names {
			v := q[n]
			okv := v == strings.Join(must, ",") || v == strings.Join(may, ",")
			if strings.HasSuffix(n, "#") {
				okv = v == fmt.Sprint(len(must)) || v == fmt.Sprint(len(may))
			}
			if !okv {
				return &seqx.Failure{Sig: fmt.Sprintf("%s:stale-answer-from-an-earlier-query:%s%s", kind, n, instTag(atInstant)),
					What: fmt.Sprintf("after %v, a structure that was queried %s answers %s=%q; the TTL model requires %q (or %q at the expiry instant)", h, when, n, v, strings.Join(must, ","), strings.Join(may, ","))}
			}
		}
	}
	return nil
}

func instTag(b bool) string {
	if b {
		return "@expiry-instant"
	}
	return ""
}

func main() {
	r := ev.New("C32", "model_checking")
	alphabet := []event{{Op: "add", K: "a"}, {Op: "add", K: "b"}, {Op: "adv", D: 1}, {Op: "adv", D: ttl - 1}, {Op: "adv", D: ttl},
		{Op: "remove", K: "a"}, {Op: "remove", K: "b"}, {Op: "adv", D: ttl / 2}}
	depth := ev.Pick(r, 8, 11)
	for _, kind := range []string{"set", "map"} {
		k := kind
		seqx.Explore(r, seqx.Scenario[event]{
			Name:     k,
			Enabled:  func(h []event) []event { return alphabet },
			Exec:     func(h []event) (string, string, *seqx.Failure) { return exec(k, h) },
			MaxDepth: depth, Workers: 16,
			// every history of length <= 5 (8^5) is executed whatever the canonical key says
			NoMergeDepth: 4,
		})
	}
	concurrentPart(r)
	// every explored history IS an execution of the implementation (no separate model to conform):
	r.Set("traces_validated_against_impl", r.Count("transitions"))
	r.Set("bounds", map[string]any{"keys": keys, "ttl": ttl.String(), "alphabet": fmt.Sprint(alphabet), "depth": depth})
	r.Assume("canonical state = (model expiry offsets, physical Items offsets of both replicas), offsets below -2ns clipped: all queries depend only on sign of (expiry-now), and clipped offsets only decrease")
	r.Finish()
}
