// C32, concurrent part (engine E3): the TTL structures are shared between goroutines (the peer table is written by
// pubsub listeners and read by every sharder lookup). Two operations on the same key run concurrently from each of
// the states {key absent, key live, key expired but not yet cleaned up}; the structure's mutex operations are
// scheduling points; all schedules up to the preemption bound. Oracle: linearizability by brute force — the pair of
// return values together with the membership seen by every query afterwards equals that of one of the two sequential
// orders, computed on fresh instances of the real structure.
package main

import (
	"fmt"
	"sort"
	"strings"
	"time"

	"github.com/honeycombio/refinery/generics"
	"github.com/jonboulle/clockwork"

	"verif/engine/ev"
	"verif/engine/vsched"
)

type cop struct {
	name string
	mapf func(m *generics.MapWithTTL[string, int]) string
	setf func(s *generics.SetWithTTL[string]) string
}

var cops = []cop{
	{"get", func(m *generics.MapWithTTL[string, int]) string { v, ok := m.Get("a"); return fmt.Sprint(v, ok) },
		func(s *generics.SetWithTTL[string]) string { return fmt.Sprint(s.Contains("a")) }},
	{"add", func(m *generics.MapWithTTL[string, int]) string { m.Set("a", 2); return "" },
		func(s *generics.SetWithTTL[string]) string { s.Add("a"); return "" }},
	{"remove", func(m *generics.MapWithTTL[string, int]) string { m.Delete("a"); return "" },
		func(s *generics.SetWithTTL[string]) string { s.Remove("a"); return "" }},
	{"list", func(m *generics.MapWithTTL[string, int]) string { return strings.Join(m.SortedKeys(), ",") },
		func(s *generics.SetWithTTL[string]) string {
			m := s.Members()
			sort.Strings(m)
			return strings.Join(m, ",")
		}},
	{"length", func(m *generics.MapWithTTL[string, int]) string { return fmt.Sprint(m.Length()) },
		func(s *generics.SetWithTTL[string]) string { return fmt.Sprint(s.Length()) }},
}

type csubject struct {
	m *generics.MapWithTTL[string, int]
	s *generics.SetWithTTL[string]
}

func cbuild(kind, state string) csubject {
	clk := clockwork.NewFakeClockAt(t0)
	var c csubject
	if kind == "map" {
		c.m = generics.NewMapWithTTL[string, int](ttl, nil)
		c.m.Clock = clk
	} else {
		c.s = generics.NewSetWithTTL[string](ttl)
		c.s.Clock = clk
	}
	if state != "absent" {
		if c.m != nil {
			c.m.Set("a", 1)
			c.m.Set("b", 1)
		} else {
			c.s.Add("a", "b")
		}
	}
	if state == "expired" {
		clk.Advance(ttl + time.Second) // nothing has been asked since: the dead entries are still stored
	}
	return c
}

func (c csubject) run(o cop) string {
	if c.m != nil {
		return o.mapf(c.m)
	}
	return o.setf(c.s)
}

// after: what every query says once both operations have returned
func (c csubject) after() string {
	var out []string
	for _, o := range cops {
		if o.name == "get" || o.name == "list" || o.name == "length" {
			out = append(out, o.name+"="+c.run(o))
		}
	}
	return strings.Join(out, " ")
}

func concurrentPart(r *ev.Run) {
	bound := ev.Pick(r, 2, 3)
	execs := 0
	for _, kind := range []string{"map", "set"} {
		for _, state := range []string{"absent", "live", "expired"} {
			for i, a := range cops {
				for _, b := range cops[i:] {
					// the two sequential orders on fresh instances
					allowed := map[string]bool{}
					for _, order := range [][2]cop{{a, b}, {b, a}} {
						c := cbuild(kind, state)
						x, y := c.run(order[0]), c.run(order[1])
						if order[0].name != a.name {
							x, y = y, x
						}
						allowed[fmt.Sprintf("%s->%q %s->%q | %s", a.name, x, b.name, y, c.after())] = true
					}
					var c csubject
					var ra, rb string
					e := &vsched.Explorer{Bound: bound, Stop: func() bool { return r.Expired("c32 concurrent") }, Setup: func() {
						c = cbuild(kind, state)
						ra, rb = "(none)", "(none)"
						vsched.Go("A."+a.name, func() { ra = c.run(a) })
						vsched.Go("B."+b.name, func() { rb = c.run(b) })
					}, Check: func(x *vsched.Exec) string {
						got := fmt.Sprintf("%s->%q %s->%q | %s", a.name, ra, b.name, rb, c.after())
						if !allowed[got] {
							var al []string
							for k := range allowed {
								al = append(al, k)
							}
							sort.Strings(al)
							return fmt.Sprintf("not-linearizable: %s with key a %s: %s(a) || %s(a) gave {%s}; the two sequential orders give {%s}", kind, state, a.name, b.name, got, strings.Join(al, "} or {"))
						}
						r.Distinct("distinct_outcomes", "conc:"+kind+":"+state+":"+got)
						return ""
					}}
					ok := e.Explore()
					execs += e.Stats.Executions
					if !ok {
						r.Violation(fmt.Sprintf("concurrent:%s:not-linearizable:%s||%s:key-%s", kind, a.name, b.name, state), e.Failure,
							map[string]any{"kind": kind, "state": state, "ops": []string{a.name, b.name}, "schedule": e.FailExec.Choices})
					}
				}
			}
		}
	}
	r.Set("concurrent_executions", execs)
	r.Set("concurrent_preemption_bound_completed", bound)
	r.Set("concurrent_bounds", map[string]any{"ops": []string{"get/contains", "add/set", "remove/delete", "list", "length"}, "states": []string{"absent", "live", "expired-not-cleaned"}, "pairs": "every unordered pair incl. an operation with itself"})
}
