package main

// The oracle of C26, written from the property statement only. It sees what an outside observer sees: the
// requests that reach the network (decoded from the bytes on the wire), the answers the harness gave, the fake
// clock and the queued-items / error metrics. It never predicts HOW the transmission batches, only judges
// what it did:
//
//	R1  every request is a decodable batch whose members are events that were handed in, unaltered;
//	R2  every member's own (API host, API key, dataset) is the request's (URL host, X-Honeycomb-Team, dataset);
//	R3  uncompressed body ≤ 5 000 000 bytes, ≤ MaxBatchSize members, no member larger than 1 000 000 bytes;
//	R4  an event is a member of one batch only (a batch = the set of events of a request); the same batch may
//	    be requested a second time only after a 429 / 503 / time-out answer, never a third time;
//	R5  an event that serializes to ≤ 1 MB is first requested at most 1.25 × BatchTimeout after it was handed
//	    in (it is the first event of its batch or younger than it), and at the latest when Stop() returns;
//	R6  once every event has an outcome (nothing on the wire, nobody in a retry sleep, every sendable event's
//	    batch answered, every oversize event's dispatch deadline passed or Stop() returned) the queued-items
//	    gauge is 0 and at least one error was counted per oversize event.

import (
	"fmt"
	"sort"
	"strings"
	"time"

	"verif/engine/ev"
)

const dispatchDeadline = batchTimeout + batchTimeout/4 // 1.25 × BatchTimeout

func sortedKey(ids []string) string {
	s := append([]string(nil), ids...)
	sort.Strings(s)
	return strings.Join(s, ",")
}

func (q *request) String() string {
	return fmt.Sprintf("request#%d{%s key=%s dataset=%q events=%v body=%dB}", q.Seq, q.Host, q.Key, q.Dataset, q.ids(), q.BodyLen)
}

func (w *world) checkRequest(q *request) {
	w.trace = append(w.trace, fmt.Sprintf("@%v   -> %v", w.now(), q))
	if q.Problem != "" {
		w.failf("malformed-request", "%v is not a decodable batch: %s", q, q.Problem)
		return
	}
	n := len(q.Events)
	if n > w.m {
		w.failf("batch-exceeds-MaxBatchSize", "%v holds %d events, MaxBatchSize is %d", q, n, w.m)
	}
	if q.BodyLen > maxBodySize {
		w.failf("body-exceeds-5MB", "%v: uncompressed body is %d bytes", q, q.BodyLen)
	}
	seen := map[string]bool{}
	for _, we := range q.Events {
		s := w.events[we.ID]
		if s == nil {
			w.failf("unknown-event-on-wire", "%v carries a member %q that was never enqueued", q, we.ID)
			return
		}
		if seen[we.ID] {
			w.failf("event-twice-in-one-request", "%v carries %s twice", q, we.ID)
		}
		seen[we.ID] = true
		if we.Problem != "" {
			w.failf("event-malformed", "%v member %s: %s", q, we.ID, we.Problem)
		} else if we.PadLen != s.PadLen || !we.Time.Equal(s.TS) || we.SampleRate != int64(s.Rate) || we.Dest != s.Dest.Name {
			w.failf("event-altered", "%v member %s arrived as {pad %d, time %v, samplerate %d, dest %s}, enqueued as {pad %d, time %v, samplerate %d, dest %s}",
				q, we.ID, we.PadLen, we.Time, we.SampleRate, we.Dest, s.PadLen, s.TS, s.Rate, s.Dest.Name)
		}
		switch {
		case q.Dataset != s.Dest.Dataset:
			w.failf("wrong-destination:dataset", "%s (for %s: %s key=%s dataset=%q) was sent in %v", we.ID, s.Dest.Name, s.Dest.Host, s.Dest.Key, s.Dest.Dataset, q)
		case q.Host != s.Dest.Host:
			w.failf("wrong-destination:host", "%s (for %s: %s key=%s dataset=%q) was sent in %v", we.ID, s.Dest.Name, s.Dest.Host, s.Dest.Key, s.Dest.Dataset, q)
		case q.Key != s.Dest.Key:
			w.failf("wrong-destination:key", "%s (for %s: %s key=%s dataset=%q) was sent in %v", we.ID, s.Dest.Name, s.Dest.Host, s.Dest.Key, s.Dest.Dataset, q)
		}
		if we.WireSize > maxEventSize {
			w.failf("oversize-event-sent", "%v: member %s occupies %d bytes (> 1 MB) and was sent instead of dropped", q, we.ID, we.WireSize)
		}
		if memberOverhead > 0 && s.Size >= 0 && we.WireSize != s.Size && we.Problem == "" && we.PadLen == s.PadLen {
			ev.Harness("size model is off: %s serialized to %d bytes, harness expected %d", we.ID, we.WireSize, s.Size)
		}
	}
	if n == 0 {
		return // an empty batch carries nobody's event; the statement does not speak about it
	}
	key := sortedKey(q.ids())
	if b := w.batches[key]; b != nil {
		last := b.Attempts[len(b.Attempts)-1]
		switch {
		case last == nil:
			w.failf("same-batch-in-flight-twice", "%v repeats a batch whose previous request has not been answered yet", q)
		case !last.retryable():
			w.failf("resend-after:"+last.Kind, "%v repeats a batch that had already been answered with %v", q, *last)
		case len(b.Attempts) >= 2:
			w.failf("more-than-two-attempts", "%v is attempt %d of this batch (answers so far: %v)", q, len(b.Attempts)+1, b.answers())
		}
		b.Attempts = append(b.Attempts, nil)
		return
	}
	b := &batch{IDs: q.ids(), key: key, Dest: w.events[q.Events[0].ID].Dest.Name, Attempts: []*answer{nil}, First: w.now()}
	for _, id := range b.IDs {
		if o := w.inBatch[id]; o != nil {
			w.failf("event-in-two-batches", "%s was sent in batch %v and again in the different batch %v (%v)", id, o.IDs, b.IDs, q)
		}
		w.inBatch[id] = b
		if age := w.now() - w.events[id].Enq; age > dispatchDeadline {
			w.failf("late-dispatch", "%s was enqueued at %v and first requested at %v: %v later, limit 1.25 x BatchTimeout = %v", id, w.events[id].Enq, w.now(), age, dispatchDeadline)
		}
	}
	w.batches[key] = b
	w.blist = append(w.blist, b)
}

func (b *batch) answers() []string {
	var out []string
	for _, a := range b.Attempts {
		if a == nil {
			out = append(out, "?")
		} else {
			out = append(out, a.String())
		}
	}
	return out
}

func (w *world) noteAnswer(q *request, a answer) {
	w.trace = append(w.trace, fmt.Sprintf("@%v   <- %v for request#%d", w.now(), a, q.Seq))
	if len(q.Events) == 0 || q.Problem != "" {
		return
	}
	if b := w.batches[sortedKey(q.ids())]; b != nil {
		for i := range b.Attempts {
			if b.Attempts[i] == nil {
				x := a
				b.Attempts[i] = &x
				break
			}
		}
	}
}

func (w *world) stopReturned() bool {
	if w.stopDone == nil {
		return false
	}
	select {
	case <-w.stopDone:
		return true
	default:
		return false
	}
}

// idle: nothing handed in is still owed anything, as far as an observer can tell.
func (w *world) idle() bool {
	if w.clk.sleepers() > 0 || w.gauge() != 0 {
		return false
	}
	for _, id := range w.order {
		if b := w.inBatch[id]; b == nil && !w.events[id].Big {
			return false
		} else if b != nil && b.Attempts[len(b.Attempts)-1] == nil {
			return false
		}
	}
	return true
}

// checkQuiescent is evaluated at every quiescent instant with no parked round trip.
func (w *world) checkQuiescent() {
	now := w.now()
	stopped := w.stopReturned()
	all := w.clk.sleepers() == 0
	big := 0
	for _, id := range w.order {
		s := w.events[id]
		b := w.inBatch[id]
		if s.Big {
			big++
			if !(stopped || now-s.Enq >= dispatchDeadline) {
				all = false
			}
			continue
		}
		if b == nil {
			all = false
			if now-s.Enq >= dispatchDeadline {
				w.failf("not-dispatched-by-deadline", "%s (-> %s) was enqueued at %v; at %v (%v later, limit 1.25 x BatchTimeout = %v) it has still not been put in any request",
					id, s.Dest.Name, s.Enq, now, now-s.Enq, dispatchDeadline)
			}
			if stopped {
				w.failf("pending-not-sent-at-stop", "Stop() returned but %s (-> %s, enqueued at %v) was never put in any request", id, s.Dest.Name, s.Enq)
			}
		} else if b.Attempts[len(b.Attempts)-1] == nil {
			all = false
		}
	}
	if all {
		if g := w.gauge(); g != 0 {
			w.failf("gauge-nonzero-after-all-outcomes", "every one of the %d events has an outcome (%d oversize) but %s_queued_items = %d", len(w.order), big, metricPrefix, g)
		}
		if e := w.errorCount(); e < int64(big) {
			w.failf("oversize-drop-not-counted", "%d oversize events were dropped but only %d errors were counted", big, e)
		}
	}
}

// label is the abstract outcome of an execution (for the distinct-outcome census).
func (w *world) label() string {
	var parts []string
	for _, b := range w.blist {
		first := w.events[b.IDs[0]].Enq
		for _, id := range b.IDs {
			if e := w.events[id].Enq; e < first {
				first = e
			}
		}
		sz := ""
		for _, id := range b.IDs {
			if w.events[id].Size >= 0 {
				sz += "L"
			} else {
				sz += "s"
			}
		}
		parts = append(parts, fmt.Sprintf("%s:%s+%d%v", b.Dest, sz, int((b.First-first)/halfTick), b.answers()))
	}
	unsent, big := 0, 0
	for _, id := range w.order {
		if w.events[id].Big {
			big++
		} else if w.inBatch[id] == nil {
			unsent++
		}
	}
	st := ""
	if w.stopped {
		st = " stopped"
	}
	slept := append([]string(nil), w.clk.slept...) // order of concurrent Sleep calls is the scheduler's: sort
	sort.Strings(slept)
	return fmt.Sprintf("m=%d %s unsent=%d oversize=%d sleeps=%v%s", w.m, strings.Join(parts, " "), unsent, big, slept, st)
}

var _ = time.Second
