package main

// The oracle of C26, written from the property statement only. It sees what an outside observer sees: the
// requests that reach the network (decoded from the bytes on the wire), the answers the harness gave, the fake
// clock and the queued-items / error metrics. It never predicts HOW the transmission batches, only judges
// what it did:
//
//	R1  every request is a decodable batch whose members are events that were handed in, unaltered;
//	R2  every member's own (API host, API key, dataset) is the request's (URL host, X-Honeycomb-Team, dataset);
//	R3  uncompressed body ≤ 5 000 000 bytes, ≤ MaxBatchSize members, no member larger than 1 000 000 bytes;
//	R4  an event is a member of one batch only (a batch = the set of events of a request); the same batch may
//	    be requested a second time only after a 429 / 503 / time-out answer, never a third time;
//	R5  an event that serializes to ≤ 1 MB is first requested at most 1.25 × BatchTimeout after it was handed
//	    in (it is the first event of its batch or younger than it), and at the latest when Stop() returns;
//	    time during which an earlier request to the SAME destination sits in its Retry-After back-off is not
//	    counted (see backoff());
//	R6  once every event has an outcome (nothing on the wire, nobody in a retry sleep, every sendable event's
//	    batch answered, every oversize event's dispatch deadline passed or Stop() returned) the queued-items
//	    gauge is 0 and at least one error was counted per oversize event.

import (
	"fmt"
	"sort"
	"strings"
	"time"

	"verif/engine/ev"
)

const dispatchDeadline = batchTimeout + batchTimeout/4 // 1.25 × BatchTimeout

func sortedKey(ids []string) string {
	s := append([]string(nil), ids...)
	sort.Strings(s)
	return strings.Join(s, ",")
}

func (q *request) String() string {
	return fmt.Sprintf("request#%d{%s key=%s dataset=%q events=%v body=%dB}", q.Seq, q.Host, q.Key, q.Dataset, q.ids(), q.BodyLen)
}

func (w *world) checkRequest(q *request) {
	w.trace = append(w.trace, fmt.Sprintf("@%v   -> %v", w.now(), q))
	if q.Problem != "" {
		w.failf("malformed-request", "%v is not a decodable batch: %s", q, q.Problem)
		return
	}
	n := len(q.Events)
	if n > w.m {
		w.failf("batch-exceeds-MaxBatchSize", "%v holds %d events, MaxBatchSize is %d", q, n, w.m)
	}
	if q.BodyLen > maxBodySize {
		w.failf("body-exceeds-5MB", "%v: uncompressed body is %d bytes (%d on the wire)", q, q.BodyLen, q.RawLen)
	}
	switch {
	case n == w.m:
		w.note("d_requests_with_exactly_MaxBatchSize_events", 1)
	case n < w.m:
		w.note("d_requests_with_fewer_than_MaxBatchSize_events", 1)
	}
	if q.BodyLen > 4_000_000 {
		w.note(fmt.Sprintf("c_requests_with_body_over_4MB:bytes=%d", q.BodyLen), 1)
	}
	seen := map[string]bool{}
	for _, we := range q.Events {
		s := w.events[we.ID]
		if s == nil {
			w.failf("unknown-event-on-wire", "%v carries a member %q that was never enqueued", q, we.ID)
			return
		}
		if seen[we.ID] {
			w.failf("event-twice-in-one-request", "%v carries %s twice", q, we.ID)
		}
		seen[we.ID] = true
		if we.Problem != "" {
			w.failf("event-malformed", "%v member %s: %s", q, we.ID, we.Problem)
		} else if we.PadLen != s.PadLen || !we.Time.Equal(s.TS) || we.SampleRate != int64(s.Rate) || we.Dest != s.Dest.Name {
			w.failf("event-altered", "%v member %s arrived as {pad %d, time %v, samplerate %d, dest %s}, enqueued as {pad %d, time %v, samplerate %d, dest %s}",
				q, we.ID, we.PadLen, we.Time, we.SampleRate, we.Dest, s.PadLen, s.TS, s.Rate, s.Dest.Name)
		}
		switch {
		case q.Dataset != s.Dest.Dataset:
			w.failf("wrong-destination:dataset", "%s (for %s: %s key=%s dataset=%q) was sent in %v", we.ID, s.Dest.Name, s.Dest.Host, s.Dest.Key, s.Dest.Dataset, q)
		case q.Host != s.Dest.Host:
			w.failf("wrong-destination:host", "%s (for %s: %s key=%s dataset=%q) was sent in %v", we.ID, s.Dest.Name, s.Dest.Host, s.Dest.Key, s.Dest.Dataset, q)
		case q.Key != s.Dest.Key:
			w.failf("wrong-destination:key", "%s (for %s: %s key=%s dataset=%q) was sent in %v", we.ID, s.Dest.Name, s.Dest.Host, s.Dest.Key, s.Dest.Dataset, q)
		}
		if we.WireSize > maxEventSize {
			w.failf("oversize-event-sent", "%v: member %s occupies %d bytes (> 1 MB) and was sent instead of dropped", q, we.ID, we.WireSize)
		}
		if calibrated && s.Size >= 0 && we.WireSize != s.Size && we.Problem == "" && we.PadLen == s.PadLen {
			ev.Harness("size model is off: %s serialized to %d bytes, harness expected %d", we.ID, we.WireSize, s.Size)
		}
	}
	if n == 0 {
		return // an empty batch carries nobody's event; the statement does not speak about it
	}
	key := sortedKey(q.ids())
	if b := w.batches[key]; b != nil {
		last := b.Attempts[len(b.Attempts)-1]
		switch {
		case last == nil:
			w.failf("same-batch-in-flight-twice", "%v repeats a batch whose previous request has not been answered yet", q)
		case !last.retryable():
			w.failf("resend-after:"+last.Kind, "%v repeats a batch that had already been answered with %v", q, *last)
		case len(b.Attempts) >= 2:
			w.failf("more-than-two-attempts", "%v is attempt %d of this batch (answers so far: %v)", q, len(b.Attempts)+1, b.answers())
		}
		b.Attempts = append(b.Attempts, nil)
		b.ReqAt = append(b.ReqAt, w.now())
		return
	}
	b := &batch{IDs: q.ids(), key: key, Dest: w.events[q.Events[0].ID].Dest.Name, Attempts: []*answer{nil}, First: w.now(), ReqAt: []time.Duration{w.now()}, AtStop: w.stopping}
	for _, id := range b.IDs {
		if o := w.inBatch[id]; o != nil {
			w.failf("event-in-two-batches", "%s was sent in batch %v and again in the different batch %v (%v)", id, o.IDs, b.IDs, q)
		}
		w.inBatch[id] = b
		s := w.events[id]
		raw := w.now() - s.Enq
		if age := raw - w.backoff(s.Dest.Name, s.Enq, w.now()); age > dispatchDeadline {
			w.failf(w.uselessSleep(s.Dest.Name, s.Enq)+"late-dispatch"+sizeClass(s), "%s was enqueued at %v and first requested at %v: %v later (%v of it behind a Retry-After back-off of the same destination%s), limit 1.25 x BatchTimeout = %v",
				id, s.Enq, w.now(), raw, raw-age, w.uselessSleepText(s.Dest.Name, s.Enq), dispatchDeadline)
		}
		if w.stopping {
			w.note("g_events_first_requested_during_Stop", 1)
		}
	}
	w.batches[key] = b
	w.blist = append(w.blist, b)
}

// sizeClass refines a signature for events of explicit size (the 1 MB boundary classes), so that "a small event is
// late" and "an event of exactly 1 MB never leaves" are different signatures.
func sizeClass(s *sentEvent) string {
	switch {
	case s.Size < 0:
		return ""
	case s.Size == maxEventSize:
		return ":event-of-exactly-1MB"
	case s.Size < maxEventSize:
		return ":event-just-under-1MB"
	}
	return ":event-over-1MB"
}

// finalSleeper finds a batch of destination d whose SECOND (= last permitted) attempt was answered 429/503 at or
// after `since` and after whose answer the sender went to sleep on the clock: a Retry-After sleep that no further
// attempt can follow. Such a sleep is not a back-off before a retry, so backoff() does not excuse it.
func (w *world) finalSleeper(d string, since time.Duration) (*batch, time.Duration) {
	for _, b := range w.blist {
		if b.Dest != d || len(b.Attempts) != 2 || len(b.AnsAt) != 2 || b.Attempts[1] == nil || b.AnsAt[1] < since {
			continue
		}
		if k := b.Attempts[1].Kind; k != "429" && k != "503" {
			continue
		}
		var longest time.Duration
		for _, n := range w.clk.napsAt(t0.Add(b.AnsAt[1])) {
			if n.Dur > longest {
				longest = n.Dur
			}
		}
		if longest > 0 {
			return b, longest
		}
	}
	return nil, 0
}

// uselessSleep is the signature prefix of the failure class "an event waits behind a sleep that follows the final
// attempt of an earlier request to the same destination".
func (w *world) uselessSleep(d string, since time.Duration) string {
	if b, _ := w.finalSleeper(d, since); b != nil {
		return "sleep-after-final-attempt:"
	}
	return ""
}

func (w *world) uselessSleepText(d string, since time.Duration) string {
	if b, dur := w.finalSleeper(d, since); b != nil {
		return fmt.Sprintf("; batch %v of the same destination had its second and last attempt answered %v at %v and the sender then slept %v although no further attempt follows", b.IDs, *b.Attempts[1], b.AnsAt[1], dur)
	}
	return ""
}

// backoff returns how much of [from, to] some batch of destination d spent between a 429/503 answer to its first
// attempt and its second attempt (or until now, while somebody still sleeps on the clock). The transmission sends
// the requests of one oversized internal batch one after the other, so a request that waits out a Retry-After
// delays the remaining events of the same destination; the statement's 1.25 x BatchTimeout speaks about
// dispatching, not about the server's back-pressure, hence that time is not held against those events.
func (w *world) backoff(d string, from, to time.Duration) time.Duration {
	type iv struct{ a, b time.Duration }
	var ivs []iv
	for _, b := range w.blist {
		if b.Dest != d || len(b.AnsAt) == 0 || b.Attempts[0] == nil || (b.Attempts[0].Kind != "429" && b.Attempts[0].Kind != "503") {
			continue
		}
		x := iv{b.AnsAt[0], b.AnsAt[0]}
		if len(b.ReqAt) > 1 {
			x.b = b.ReqAt[1]
		} else if w.clk.sleepers() > 0 {
			x.b = w.now()
		}
		if x.a < from {
			x.a = from
		}
		if x.b > to {
			x.b = to
		}
		if x.b > x.a {
			ivs = append(ivs, x)
		}
	}
	sort.Slice(ivs, func(i, j int) bool { return ivs[i].a < ivs[j].a })
	var sum, end time.Duration
	end = -1
	for _, x := range ivs {
		if x.a < end {
			x.a = end
		}
		if x.b > x.a {
			sum += x.b - x.a
			end = x.b
		}
	}
	return sum
}

func (b *batch) answers() []string {
	var out []string
	for _, a := range b.Attempts {
		if a == nil {
			out = append(out, "?")
		} else {
			out = append(out, a.String())
		}
	}
	return out
}

func (w *world) noteAnswer(q *request, a answer) {
	w.trace = append(w.trace, fmt.Sprintf("@%v   <- %v for request#%d", w.now(), a, q.Seq))
	if len(q.Events) == 0 || q.Problem != "" {
		return
	}
	if b := w.batches[sortedKey(q.ids())]; b != nil {
		for i := range b.Attempts {
			if b.Attempts[i] == nil {
				x := a
				b.Attempts[i] = &x
				b.AnsAt = append(b.AnsAt, w.now())
				break
			}
		}
	}
}

func (w *world) stopReturned() bool {
	if w.stopDone == nil {
		return false
	}
	select {
	case <-w.stopDone:
		return true
	default:
		return false
	}
}

// idle: nothing handed in is still owed anything, as far as an observer can tell.
func (w *world) idle() bool {
	if w.clk.sleepers() > 0 || w.gauge() != 0 {
		return false
	}
	for _, id := range w.order {
		if b := w.inBatch[id]; b == nil && !w.events[id].Big {
			return false
		} else if b != nil && b.Attempts[len(b.Attempts)-1] == nil {
			return false
		}
	}
	return true
}

// checkQuiescent is evaluated at every quiescent instant with no parked round trip.
func (w *world) checkQuiescent() {
	now := w.now()
	stopped := w.stopReturned()
	all := w.clk.sleepers() == 0
	big := 0
	for _, id := range w.order {
		s := w.events[id]
		b := w.inBatch[id]
		if s.Big {
			big++
			if !(stopped || now-s.Enq >= dispatchDeadline) {
				all = false
			}
			continue
		}
		if b == nil {
			all = false
			if stopped {
				w.failf("pending-not-sent-at-stop"+sizeClass(s), "Stop() returned but %s (-> %s, enqueued at %v) was never put in any request", id, s.Dest.Name, s.Enq)
			}
			if bo := w.backoff(s.Dest.Name, s.Enq, now); now-s.Enq-bo >= dispatchDeadline {
				w.failf(w.uselessSleep(s.Dest.Name, s.Enq)+"not-dispatched-by-deadline"+sizeClass(s), "%s (-> %s) was enqueued at %v; at %v (%v later, %v of it behind a Retry-After back-off of the same destination%s; limit 1.25 x BatchTimeout = %v) it has still not been put in any request",
					id, s.Dest.Name, s.Enq, now, now-s.Enq, bo, w.uselessSleepText(s.Dest.Name, s.Enq), dispatchDeadline)
			}
		} else if b.Attempts[len(b.Attempts)-1] == nil {
			all = false
		}
	}
	if all {
		if len(w.order) > 0 {
			w.note("h_quiescent_instants_with_every_outcome_known_gauge_checked", 1)
		}
		if g := w.gauge(); g != 0 {
			w.failf("gauge-nonzero-after-all-outcomes", "every one of the %d events has an outcome (%d oversize) but %s_queued_items = %d", len(w.order), big, metricPrefix, g)
		}
		if e := w.errorCount(); e < int64(big) {
			w.failf("oversize-drop-not-counted", "%d oversize events were dropped but only %d errors were counted", big, e)
		}
		if big > 0 {
			w.note("b_quiescent_instants_with_oversize_drop_error_count_checked", 1)
		}
	}
	w.allAtEnd = all
}

// finalCensus records, for an execution that passed, which side of every clause it exercised (evidence against
// vacuity; never part of a verdict).
func (w *world) finalCensus() {
	perDest := map[string]int{}
	bytesPerDest := map[string]int{}
	for _, id := range w.order {
		s := w.events[id]
		perDest[s.Dest.Name]++
		b := w.inBatch[id]
		switch {
		case s.Big:
			w.note("b_oversize_events_handed_in", 1)
		case b != nil && s.Size == maxEventSize:
			w.note("b_events_of_exactly_1MB_delivered", 1)
		case b != nil && s.Size > 0:
			w.note("b_events_just_under_1MB_delivered", 1)
		}
		if b != nil && s.Size > 0 {
			bytesPerDest[s.Dest.Name] += s.Size
		}
	}
	w.note(fmt.Sprintf("a_executions_with_%d_destinations", len(perDest)), 1)
	for _, n := range perDest {
		if n > w.m {
			w.note("d_executions_with_more_than_MaxBatchSize_events_for_one_destination", 1)
			break
		}
	}
	for _, n := range bytesPerDest {
		if n > maxBodySize {
			w.note("c_executions_where_one_destination_got_over_5MB_in_several_requests", 1)
			break
		}
	}
	for _, b := range w.blist {
		w.note("a_batches_for_destination_"+b.Dest, 1)
		first := w.events[b.IDs[0]].Enq
		for _, id := range b.IDs {
			if e := w.events[id].Enq; e < first {
				first = e
			}
		}
		w.note(fmt.Sprintf("e_batches_first_requested_%d/8_BatchTimeout_after_their_first_event", int((b.First-first)/halfTick)), 1)
		ans := b.answers()
		w.note(fmt.Sprintf("f_batches_answered_%s_then_attempted_%dx", ans[0], len(ans)), 1)
		if len(ans) == 2 {
			w.note(fmt.Sprintf("f_second_attempts_after_%s_answered_%s", strings.SplitN(ans[0], "[", 2)[0], strings.SplitN(ans[1], "[", 2)[0]), 1)
		}
		if w.allAtEnd {
			w.note("h_gauge_zero_confirmed_after_final_answer_"+strings.SplitN(ans[len(ans)-1], "[", 2)[0], 1)
		}
	}
}

// label is the abstract outcome of an execution (for the distinct-outcome census).
func (w *world) label() string {
	var parts []string
	for _, b := range w.blist {
		first := w.events[b.IDs[0]].Enq
		for _, id := range b.IDs {
			if e := w.events[id].Enq; e < first {
				first = e
			}
		}
		sz := ""
		for _, id := range b.IDs {
			if w.events[id].Size >= 0 {
				sz += "L"
			} else {
				sz += "s"
			}
		}
		parts = append(parts, fmt.Sprintf("%s:%s+%d%v", b.Dest, sz, int((b.First-first)/halfTick), b.answers()))
	}
	unsent, big := 0, 0
	for _, id := range w.order {
		if w.events[id].Big {
			big++
		} else if w.inBatch[id] == nil {
			unsent++
		}
	}
	st := ""
	if w.stopped {
		st = " stopped"
	}
	slept := append([]string(nil), w.clk.slept...) // order of concurrent Sleep calls is the scheduler's: sort
	sort.Strings(slept)
	return fmt.Sprintf("m=%d %s unsent=%d oversize=%d sleeps=%v%s", w.m, strings.Join(parts, " "), unsent, big, slept, st)
}

var _ = time.Second
