package main

// The harness world of C26: one real DirectTransmission (Start()ed, so the real dispatchStaleBatches goroutine,
// the real conc pool and the real http.Client run), a clockwork fake clock, the real MultiMetrics and an
// in-memory network reached through http.Transport.RegisterProtocol (no unexported name of package transmit
// is touched).
//
// Determinism (nothing below depends on wall-clock time or on the Go scheduler's choices):
//   - One execution at a time per process (the check shards over processes), so "every goroutine of this
//     process except the harness is parked on a channel / select / sync primitive" is an exact, decidable
//     definition of quiescence. quiesce() decides it from runtime.Stack(all) (goroutine wait states are read
//     under stop-the-world; a goroutine that has been readied shows as runnable immediately). There are no
//     real timers, sockets or sleeps in the closed system (http.Client.Timeout = 0, fake clock), so a
//     quiescent system stays quiescent until the harness acts.
//   - Every RoundTrip PARKS in the in-memory network. At quiescence the harness sorts the parked round trips
//     canonically (destination, event ids) and answers exactly one of them from the explorer-owned script,
//     then waits for quiescence again. Which request gets which scripted answer therefore never depends on
//     goroutine scheduling or on Go's map iteration order inside the tick body / Stop().
//   - The fake clock only moves in harness steps; clockwork's Advance holds the clock lock until the new
//     instant is set, so every Now() of the tick body reads the instant at which the step ended. Clock.Sleep
//     (retry back-off) blocks on the fake clock and is released by later advance steps.

import (
	"bytes"
	"context"
	"crypto/tls"
	"encoding/json"
	"fmt"
	"io"
	"net/http"
	"net/url"
	"runtime"
	"sort"
	"strings"
	"sync"
	"syscall"
	"time"

	"github.com/honeycombio/refinery/config"
	"github.com/honeycombio/refinery/logger"
	"github.com/honeycombio/refinery/metrics"
	"github.com/honeycombio/refinery/transmit"
	"github.com/honeycombio/refinery/types"
	"github.com/jonboulle/clockwork"
	"github.com/klauspost/compress/zstd"

	"verif/engine/ev"
	"verif/fix/codec"
)

const (
	batchTimeout = 4 * time.Second
	tick         = batchTimeout / 4 // period of the stale-batch ticker
	halfTick     = tick / 2
	maxEventSize = 1_000_000 // statement: "serializes to more than 1 MB"
	maxBodySize  = 5_000_000 // statement: "request bodies never exceed 5 MB"
)

var mockCfg = &config.MockConfig{}

var t0 = time.Date(2024, 1, 1, 0, 0, 0, 0, time.UTC)

// ---------------------------------------------------------------------------------------------
// destinations

type dest struct {
	Name, Host, Key, Dataset string
}

// A-B differ in the dataset only, A-C in the host only, A-D in the API key only; B-C, B-D, C-D in two components.
// A, E, F share exactly ONE component pairwise: A-E the host only, A-F the API key only, E-F the dataset only (so a
// transmission that keys its batches by any single component merges a pair; one that drops a single component from
// the key is caught by the pairs that differ in that component only: A-B, A-C, A-D).
var dests = map[string]dest{
	"A": {"A", "http://h1.test", "key1", "ds1"},
	"B": {"B", "http://h1.test", "key1", "ds2"},
	"C": {"C", "http://h2.test", "key1", "ds1"},
	"D": {"D", "http://h1.test", "key2", "ds1"},
	"E": {"E", "http://h1.test", "key2", "ds2"},
	"F": {"F", "http://h2.test", "key1", "ds2"},
}

// ---------------------------------------------------------------------------------------------
// fake clock with observable sleepers

type vclock struct {
	*clockwork.FakeClock
	mu    sync.Mutex
	auto  bool        // teardown: Sleep returns at once
	wakes []time.Time // wake-up instants of goroutines currently inside Sleep
	slept []string    // log of requested sleep durations
	naps  []nap       // every Sleep call: when it started (fake time) and how long was asked for
}

type nap struct {
	Start time.Time
	Dur   time.Duration
}

// napsAt returns the Sleep calls that started at fake instant t.
func (c *vclock) napsAt(t time.Time) []nap {
	c.mu.Lock()
	defer c.mu.Unlock()
	var out []nap
	for _, n := range c.naps {
		if n.Start.Equal(t) {
			out = append(out, n)
		}
	}
	return out
}

func (c *vclock) setAuto() { c.mu.Lock(); c.auto = true; c.mu.Unlock() }

func (c *vclock) Sleep(d time.Duration) {
	c.mu.Lock()
	if c.auto {
		c.mu.Unlock()
		return
	}
	wake := c.FakeClock.Now().Add(d)
	c.wakes = append(c.wakes, wake)
	c.slept = append(c.slept, d.String())
	c.naps = append(c.naps, nap{Start: wake.Add(-d), Dur: d})
	c.mu.Unlock()
	c.FakeClock.Sleep(d)
	c.mu.Lock()
	for i, w := range c.wakes {
		if w.Equal(wake) {
			c.wakes = append(c.wakes[:i], c.wakes[i+1:]...)
			break
		}
	}
	c.mu.Unlock()
}

// earliestWake returns the earliest pending wake-up instant, ok=false if nobody sleeps.
func (c *vclock) earliestWake() (time.Time, bool) {
	c.mu.Lock()
	defer c.mu.Unlock()
	if len(c.wakes) == 0 {
		return time.Time{}, false
	}
	m := c.wakes[0]
	for _, w := range c.wakes[1:] {
		if w.Before(m) {
			m = w
		}
	}
	return m, true
}

func (c *vclock) sleepers() int { c.mu.Lock(); defer c.mu.Unlock(); return len(c.wakes) }

// ---------------------------------------------------------------------------------------------
// in-memory network

type wireEvent struct {
	ID         string
	Dest       string
	PadLen     int
	Time       time.Time
	SampleRate int64
	WireSize   int // bytes this batch member occupies in the uncompressed body
	Problem    string
}

type request struct {
	Seq             int
	Host, Key, Path string
	Dataset         string
	ContentEncoding string
	ContentType     string
	BodyLen         int // uncompressed
	RawLen          int
	Events          []wireEvent
	Problem         string // undecodable request
	At              time.Duration
	recorded        bool
}

func (q *request) ids() []string {
	out := make([]string, len(q.Events))
	for i, e := range q.Events {
		out[i] = e.ID
	}
	return out
}

type reply struct {
	status int
	header map[string]string
	body   []byte
	err    error
}

type call struct {
	req   *request
	reply chan reply
}

type memnet struct {
	mu      sync.Mutex
	parked  []*call
	arrived int
	auto    bool // teardown: answer 200 immediately instead of parking
}

func (n *memnet) setAuto() { n.mu.Lock(); n.auto = true; n.mu.Unlock() }

type timeoutError struct{}

func (timeoutError) Error() string   { return "verif: i/o timeout" }
func (timeoutError) Timeout() bool   { return true }
func (timeoutError) Temporary() bool { return true }

func (n *memnet) RoundTrip(r *http.Request) (*http.Response, error) {
	q := &request{Host: r.URL.Scheme + "://" + r.URL.Host, Path: r.URL.EscapedPath(), Key: r.Header.Get("X-Honeycomb-Team"),
		ContentEncoding: r.Header.Get("Content-Encoding"), ContentType: r.Header.Get("Content-Type")}
	// The body is decoded while the sender is still inside RoundTrip, under one lock and into reusable buffers:
	// nothing of it is retained (only sizes, ids and field values), so MB-sized bodies are never copied twice.
	decMu.Lock()
	var raw []byte
	if r.Body != nil {
		var err error
		if wt, ok := r.Body.(io.WriterTo); ok {
			var cw captureWriter
			_, err = wt.WriteTo(&cw)
			raw = cw.bytes()
		} else {
			rscratch.Reset()
			_, err = rscratch.ReadFrom(r.Body)
			raw = rscratch.Bytes()
		}
		r.Body.Close()
		if err != nil {
			q.Problem = "body read: " + err.Error()
		}
	}
	q.RawLen = len(raw)
	decodeRequest(q, r.Method, raw)
	decMu.Unlock()
	c := &call{req: q, reply: make(chan reply, 1)}
	n.mu.Lock()
	n.arrived++
	auto := n.auto
	if !auto {
		n.parked = append(n.parked, c)
	}
	n.mu.Unlock()
	if auto {
		c.reply <- reply{status: 200, header: map[string]string{"Content-Type": "application/json"}, body: []byte("[]")}
	}
	rep := <-c.reply // parked until the harness answers (deterministic order, see file comment)
	if rep.err != nil {
		return nil, rep.err
	}
	h := http.Header{}
	for k, v := range rep.header {
		h.Set(k, v)
	}
	return &http.Response{StatusCode: rep.status, Status: fmt.Sprintf("%d %s", rep.status, http.StatusText(rep.status)),
		Proto: "HTTP/1.1", ProtoMajor: 1, ProtoMinor: 1, Header: h, Body: io.NopCloser(bytes.NewReader(rep.body)),
		ContentLength: int64(len(rep.body)), Request: r}, nil
}

// reusable decoding state, guarded by decMu
var (
	decMu    sync.Mutex
	zdec, _  = zstd.NewReader(nil, zstd.WithDecoderConcurrency(1))
	zscratch []byte
	rscratch bytes.Buffer
)

// captureWriter receives the body of a request. bytes.Reader.WriteTo (the body DirectTransmission sends) hands
// over its remaining bytes in ONE Write call; in that case the slice is used in place (until RoundTrip has
// decoded it, during which the sender is blocked in this very call) instead of being copied.
type captureWriter struct {
	first []byte
	buf   []byte
	n     int
}

func (c *captureWriter) Write(p []byte) (int, error) {
	c.n++
	switch c.n {
	case 1:
		c.first = p
	case 2:
		c.buf = append(append(rscratch.Bytes()[:0], c.first...), p...)
	default:
		c.buf = append(c.buf, p...)
	}
	return len(p), nil
}

func (c *captureWriter) bytes() []byte {
	if c.n <= 1 {
		return c.first
	}
	return c.buf
}

func decodeRequest(q *request, method string, raw []byte) {
	const pfx = "/1/batch/"
	if method != "POST" || !strings.HasPrefix(q.Path, pfx) {
		q.Problem = "not a POST /1/batch/{dataset}: " + method + " " + q.Path
		return
	}
	ds, err := url.PathUnescape(q.Path[len(pfx):])
	if err != nil {
		q.Problem = "dataset: " + err.Error()
		return
	}
	q.Dataset = ds
	body := raw
	switch q.ContentEncoding {
	case "":
	case "zstd":
		body, err = zdec.DecodeAll(raw, zscratch[:0])
		if err != nil {
			q.Problem = "content-encoding zstd: " + err.Error()
			return
		}
		zscratch = body
	default:
		q.Problem = "content-encoding " + q.ContentEncoding
		return
	}
	q.BodyLen = len(body)
	if !strings.Contains(q.ContentType, "msgpack") {
		q.Problem = "content-type " + q.ContentType
		return
	}
	if len(body) == 0 {
		q.Problem = "empty body"
		return
	}
	n, rest, ok := mpHeader(body, 0x90, 0xdc)
	if !ok {
		q.Problem = fmt.Sprintf("body is not a msgpack array (lead 0x%02x)", body[0])
		return
	}
	for i := 0; i < n; i++ {
		we, r2, err := decodeMember(rest)
		if err != nil {
			q.Problem = fmt.Sprintf("batch member %d: %v", i, err)
			return
		}
		we.WireSize = len(rest) - len(r2)
		rest = r2
		q.Events = append(q.Events, we)
	}
	if len(rest) != 0 {
		q.Problem = fmt.Sprintf("%d trailing bytes after the batch array", len(rest))
	}
}

// mpHeader reads an array (fix 0x90, 16-bit 0xdc) or map (fix 0x80, 16-bit 0xde) header; the 32-bit form
// has lead16+1.
func mpHeader(b []byte, fix, lead16 byte) (n int, rest []byte, ok bool) {
	if len(b) == 0 {
		return 0, nil, false
	}
	switch c := b[0]; {
	case c&0xf0 == fix:
		return int(c & 0x0f), b[1:], true
	case c == lead16 && len(b) >= 3:
		return int(b[1])<<8 | int(b[2]), b[3:], true
	case c == lead16+1 && len(b) >= 5:
		return int(b[1])<<24 | int(b[2])<<16 | int(b[3])<<8 | int(b[4]), b[5:], true
	}
	return 0, nil, false
}

// mpValue decodes one value with the fixture's own decoder, except that long strings (str16/str32) are
// returned as a sub-slice of b instead of being copied (events of ≈ 1 MB are mostly one such string).
func mpValue(b []byte) (v codec.Value, long []byte, rest []byte, err error) {
	if len(b) >= 3 && b[0] == 0xda {
		n := int(b[1])<<8 | int(b[2])
		if len(b) < 3+n {
			return v, nil, nil, fmt.Errorf("short str16")
		}
		return codec.Value{Kind: codec.KStr}, b[3 : 3+n], b[3+n:], nil
	}
	if len(b) >= 5 && b[0] == 0xdb {
		n := int(b[1])<<24 | int(b[2])<<16 | int(b[3])<<8 | int(b[4])
		if n < 0 || len(b) < 5+n {
			return v, nil, nil, fmt.Errorf("short str32")
		}
		return codec.Value{Kind: codec.KStr}, b[5 : 5+n], b[5+n:], nil
	}
	v, rest, err = codec.Decode(b)
	return v, nil, rest, err
}

func decodeMember(b []byte) (we wireEvent, rest []byte, err error) {
	we.PadLen = -1
	n, rest, ok := mpHeader(b, 0x80, 0xde)
	if !ok {
		// not a map: skip it with the generic decoder so that the caller can go on
		_, rest, err = codec.Decode(b)
		we.Problem = "member is not a map"
		return we, rest, err
	}
	var haveTime, haveRate, haveData bool
	for i := 0; i < n; i++ {
		var k codec.Value
		if k, _, rest, err = mpValue(rest); err != nil {
			return
		}
		if k.S == "data" {
			dn, r2, ok := mpHeader(rest, 0x80, 0xde)
			if !ok {
				we.Problem = "data is not a map"
				if _, rest, err = codec.Decode(rest); err != nil {
					return
				}
				continue
			}
			rest = r2
			haveData = true
			if dn != 3 {
				we.Problem = fmt.Sprintf("data has %d fields, want 3", dn)
			}
			for j := 0; j < dn; j++ {
				var dk, dv codec.Value
				var long []byte
				if dk, _, rest, err = mpValue(rest); err != nil {
					return
				}
				if dv, long, rest, err = mpValue(rest); err != nil {
					return
				}
				str := dv.S
				if long != nil {
					str = ""
				}
				switch dk.S {
				case "id":
					we.ID = str
				case "dest":
					we.Dest = str
				case "pad":
					if dv.Kind != codec.KStr {
						break
					}
					p := long
					if p == nil {
						p = []byte(dv.S)
					}
					we.PadLen = len(p)
					if bytes.Count(p, []byte{'x'}) != len(p) {
						we.Problem = "pad content altered"
					}
				}
			}
			continue
		}
		var v codec.Value
		if v, _, rest, err = mpValue(rest); err != nil {
			return
		}
		switch k.S {
		case "time":
			if v.Kind == codec.KTime {
				we.Time, haveTime = v.T, true
			}
		case "samplerate":
			if v.Kind == codec.KInt {
				we.SampleRate, haveRate = v.Int, true
			} else if v.Kind == codec.KUint {
				we.SampleRate, haveRate = int64(v.Uint), true
			}
		}
	}
	switch {
	case we.Problem != "":
	case !haveTime:
		we.Problem = "no timestamp-extension time"
	case !haveRate:
		we.Problem = "no integer samplerate"
	case !haveData:
		we.Problem = "no data map"
	}
	return we, rest, nil
}

// takeParked returns the parked round trips in canonical order (destination triple, event ids, arrival).
func (n *memnet) takeParked() []*call {
	n.mu.Lock()
	out := append([]*call(nil), n.parked...)
	n.mu.Unlock()
	key := func(c *call) string {
		return c.req.Host + "\x00" + c.req.Key + "\x00" + c.req.Path + "\x00" + strings.Join(c.req.ids(), ",")
	}
	sort.SliceStable(out, func(i, j int) bool { return key(out[i]) < key(out[j]) })
	return out
}

func (n *memnet) release(c *call, rep reply) {
	n.mu.Lock()
	for i, x := range n.parked {
		if x == c {
			n.parked = append(n.parked[:i], n.parked[i+1:]...)
			break
		}
	}
	n.mu.Unlock()
	c.reply <- rep
}

// ---------------------------------------------------------------------------------------------
// quiescence barrier

var stackBuf = make([]byte, 1<<20)

// blockedStates are the goroutine wait states that only another goroutine's action can end.
var blockedStates = []string{"chan receive", "chan send", "select", "semacquire", "sync."}

// othersBlocked reports whether every goroutine except the caller is parked in a blocked state; if not, the state
// and the stack record of the first goroutine that is not.
func othersBlocked() (bool, string, string) {
	for {
		n := runtime.Stack(stackBuf, true)
		if n < len(stackBuf) {
			return parseStates(stackBuf[:n])
		}
		stackBuf = make([]byte, 2*len(stackBuf))
	}
}

func parseStates(b []byte) (bool, string, string) {
	first := true
	for len(b) > 0 {
		// records are separated by blank lines; each starts with "goroutine N [state...]:"
		i := bytes.Index(b, []byte("\n\n"))
		rec := b
		if i >= 0 {
			rec, b = b[:i], b[i+2:]
		} else {
			b = nil
		}
		if !bytes.HasPrefix(rec, []byte("goroutine ")) {
			continue
		}
		if first { // the calling goroutine is always printed first
			first = false
			continue
		}
		l := bytes.IndexByte(rec, '[')
		r := bytes.IndexByte(rec, ']')
		if l < 0 || r < l {
			return false, "unparsable: " + string(rec[:min(len(rec), 80)]), ""
		}
		st := string(rec[l+1 : r])
		ok := false
		for _, p := range blockedStates {
			if strings.HasPrefix(st, p) {
				ok = true
				break
			}
		}
		if !ok {
			if bytes.Contains(rec, []byte("runtime/pprof.profileWriter")) {
				continue // only present when the harness itself is being profiled (C26_PROF)
			}
			return false, st, string(rec[:min(len(rec), 4000)])
		}
	}
	return true, "", ""
}

// cpuSeconds is the CPU time (user + system) this process has consumed so far.
func cpuSeconds() float64 {
	var ru syscall.Rusage
	if err := syscall.Getrusage(syscall.RUSAGE_SELF, &ru); err != nil {
		return 0
	}
	return float64(ru.Utime.Sec) + float64(ru.Utime.Usec)/1e6 + float64(ru.Stime.Sec) + float64(ru.Stime.Usec)/1e6
}

// livelockCPUSeconds is the horizon of one barrier wait, in CPU seconds of this process (not wall time, so a loaded
// machine cannot trip it). The closed system has a frozen fake clock and an in-memory network; one execution needs a
// few milliseconds of CPU. Code that is still running after this much CPU, without ever blocking, with nothing for it
// to wait for, does not terminate.
const livelockCPUSeconds = 15.0

// livelock describes a goroutine of the code under test that kept running through a whole horizon.
type livelock struct {
	State string // goroutine state when the horizon ended
	Stack string // its stack record
	CPU   float64
}

// where names the innermost method of DirectTransmission the spinning goroutine is in (else the innermost function of
// package transmit), without arguments or addresses.
func (l *livelock) where() string {
	const p = "github.com/honeycombio/refinery/transmit."
	other := ""
	for _, line := range strings.Split(l.Stack, "\n") {
		i := strings.Index(line, p)
		if i < 0 || strings.HasPrefix(line, "\t") {
			continue
		}
		f := line[i+len(p):]
		typ := ""
		if strings.HasPrefix(f, "(*") {
			if j := strings.Index(f, ")."); j > 0 {
				typ, f = f[2:j], f[j+2:]
			}
		}
		if j := strings.IndexAny(f, "(."); j > 0 {
			f = f[:j]
		}
		if typ == "DirectTransmission" {
			return f
		}
		if other == "" {
			other = f
		}
	}
	if other != "" {
		return other
	}
	return "code-under-test"
}

// poisoned is set once a livelock has been observed: the spinning goroutine cannot be stopped from inside the
// process, no later barrier could ever clear, so this worker process stops executing cases (its results so far and
// the violation are reported; the parent and the other workers carry on).
var poisoned bool
var lastLivelock *failure

// quiesce returns nil when every other goroutine is blocked, or a livelock when the CPU horizon ended first. The
// spin bound is a count of scheduler yields, not a time limit; it only turns a harness bug into a harness error.
func quiesce() *livelock {
	var last, lastRec string
	start := -1.0
	for spins := 0; spins < 50_000_000; spins++ {
		runtime.Gosched()
		ok, st, rec := othersBlocked()
		if ok {
			return nil
		}
		last, lastRec = st, rec
		if spins >= 200 && spins%50 == 0 { // the fast path (a handful of yields) never looks at the CPU clock
			now := cpuSeconds()
			if start < 0 {
				start = now
			} else if now-start > livelockCPUSeconds {
				poisoned = true
				return &livelock{State: last, Stack: lastRec, CPU: now - start}
			}
		}
	}
	buf := make([]byte, 1<<16)
	n := runtime.Stack(buf, true)
	ev.Harness("quiescence barrier did not clear (last non-blocked state %q)\n%s", last, buf[:n])
	return nil
}

// ---------------------------------------------------------------------------------------------
// world

type sentEvent struct {
	ID     string
	Dest   dest
	PadLen int
	Size   int // reference serialized size of the batch member (see refSize)
	TS     time.Time
	Rate   uint
	Enq    time.Duration // enqueue instant (offset from t0)
	Big    bool          // Size > maxEventSize: must be dropped and counted as an error
}

type batch struct {
	IDs      []string // wire order
	key      string   // sorted ids
	Dest     string
	Attempts []*answer // answer given to each attempt (nil = not answered yet)
	First    time.Duration
	ReqAt    []time.Duration // fake time of each attempt's request
	AnsAt    []time.Duration // fake time of each attempt's answer
	AtStop   bool            // first requested while Stop() was running
}

type world struct {
	m        int
	compress bool
	clk      *vclock
	met      *metrics.MultiMetrics
	net      *memnet
	d        *transmit.DirectTransmission
	script   []answer
	spos     int

	events     map[string]*sentEvent
	order      []string
	inBatch    map[string]*batch // event id -> batch
	batches    map[string]*batch // batch key -> batch
	blist      []*batch
	reqs       []*request
	stopped    bool
	idleAtEnd  bool
	allAtEnd   bool // the last quiescent instant had an outcome for every event
	stopDone   chan struct{}
	stopPanic  any
	trace      []string
	fail       *failure
	livelocked bool             // a goroutine of the code under test never stopped running (see quiesce)
	census     map[string]int64 // vacuity census of this execution (merged into the evidence when it passes)
	stopping   bool             // Stop() has been called and has not returned yet
}

func (w *world) note(key string, n int64) {
	if w.census == nil {
		w.census = map[string]int64{}
	}
	w.census[key] += n
}

type failure struct{ Sig, What string }

func (w *world) failf(sig, format string, a ...any) {
	if w.fail == nil {
		w.fail = &failure{Sig: sig, What: fmt.Sprintf(format, a...)}
	}
}

func (w *world) now() time.Duration { return w.clk.Now().Sub(t0) }

func newWorld(m int, compress bool, script []answer) *world {
	w := &world{m: m, compress: compress, script: script, events: map[string]*sentEvent{}, inBatch: map[string]*batch{}, batches: map[string]*batch{}}
	w.clk = &vclock{FakeClock: clockwork.NewFakeClockAt(t0)}
	w.met = metrics.NewMultiMetrics()
	w.net = &memnet{}
	// TLSNextProto non-nil: no automatic HTTP/2 set-up; RegisterProtocol makes the real http.Transport hand
	// every http:// request to the in-memory network.
	tr := &http.Transport{TLSNextProto: map[string]func(string, *tls.Conn) http.RoundTripper{}}
	tr.RegisterProtocol("http", w.net)
	// batchSendTimeout 0: http.Client.Timeout is a wall-clock timer; timeouts are scripted answers instead.
	w.d = transmit.NewDirectTransmission(types.TransmitTypeUpstream, tr, m, batchTimeout, 0, compress, nil)
	w.d.Logger = &logger.NullLogger{}
	w.d.Metrics = w.met
	w.d.Version = "verif"
	w.d.Clock = w.clk
	if err := w.d.Start(); err != nil {
		ev.Harness("Start: %v", err)
	}
	// the dispatch goroutine registers its two tickers on the fake clock before it first selects; from then
	// on no advance can be missed (ticker channels are buffered)
	if err := w.clk.BlockUntilContext(context.Background(), 2); err != nil {
		ev.Harness("tickers: %v", err)
	}
	return w
}

const metricPrefix = "libhoney_upstream"

func (w *world) gauge() int64 {
	v, ok := w.met.Get(metricPrefix + "_queued_items")
	if !ok {
		ev.Harness("metric %s_queued_items is not registered", metricPrefix)
	}
	return int64(v)
}

// errorCount is the sum of the per-event error counters.
func (w *world) errorCount() int64 {
	var s int64
	for _, n := range []string{"_response_errors", "_enqueue_errors"} {
		if v, ok := w.met.Get(metricPrefix + n); ok {
			s += int64(v)
		}
	}
	return s
}

// event wire format reference (MessagePack): {time: ext, samplerate: int, data: {id, dest, pad}}.
// The serialized size of a batch member is overhead(id, dest) + len(pad) for a pad of ≥ 65536 bytes (str32);
// the overhead is measured once at start-up from what the real code puts on the wire (calibrate()), because
// the statement's limit is about the actual serialization, whose format choices (int widths, map header
// width, timestamp extension size) are not part of the property.
var memberOverhead = -1 // serialized size of a member with a str32 pad of length 0

func padFor(size int) int { return size - memberOverhead }

var padCache = map[int]string{}

func pad(n int) string {
	p, ok := padCache[n]
	if !ok {
		p = strings.Repeat("x", n)
		padCache[n] = p
	}
	return p
}

func (w *world) mkEvent(id string, d dest, padLen int) (*types.Event, *sentEvent) {
	i := len(w.order)
	ts := t0.Add(-time.Hour).Add(time.Duration(i) * time.Second)
	rate := uint(i + 1)
	e := &types.Event{Context: context.Background(), APIHost: d.Host, APIKey: d.Key, Dataset: d.Dataset, SampleRate: rate, Timestamp: ts,
		Data: types.NewPayload(mockCfg, map[string]any{"id": id, "dest": d.Name, "pad": pad(padLen)})}
	s := &sentEvent{ID: id, Dest: d, PadLen: padLen, TS: ts, Rate: rate, Enq: w.now()}
	return e, s
}

// ---- harness steps -----------------------------------------------------------------------

func (w *world) guard(where string, f func()) {
	defer func() {
		if r := recover(); r != nil {
			w.failf("panic:"+where, "%s panicked: %v", where, r)
		}
	}()
	f()
}

// enqueue hands one event to the transmission. size 0 = small event (10-byte pad, far below every limit);
// size ≥ 70000 = an event whose batch member serializes to exactly that many bytes.
func (w *world) enqueue(d dest, size int) {
	id := fmt.Sprintf("e%d", len(w.order)+1)
	padLen := 10
	if size != 0 {
		padLen = padFor(size)
	}
	e, s := w.mkEvent(id, d, padLen)
	s.Size = -1
	if size != 0 {
		s.Size = size
	}
	s.Big = s.Size > maxEventSize
	w.events[id] = s
	w.order = append(w.order, id)
	w.trace = append(w.trace, fmt.Sprintf("@%v enqueue %s -> %s size=%d", w.now(), id, d.Name, size))
	w.guard("EnqueueEvent", func() { w.d.EnqueueEvent(e) })
	w.settle()
}

func (w *world) advance(d time.Duration) {
	w.clk.Advance(d)
	w.trace = append(w.trace, fmt.Sprintf("@%v (advanced %v)", w.now(), d))
	w.settle()
}

// stop runs the real Stop() on its own goroutine; while it is blocked the harness keeps answering parked round
// trips and lets time pass for retry sleeps (the dispatch goroutine is gone by then, so jumping straight to the
// earliest wake-up instant loses nothing).
func (w *world) stop() {
	w.stopped = true
	w.stopping = true
	defer func() { w.stopping = false }()
	pending := 0
	for _, id := range w.order {
		if !w.events[id].Big && w.inBatch[id] == nil {
			pending++
		}
	}
	if pending > 0 {
		w.note("g_stops_with_pending_events", 1)
	} else {
		w.note("g_stops_with_nothing_pending", 1)
	}
	w.stopDone = make(chan struct{})
	w.trace = append(w.trace, fmt.Sprintf("@%v stop", w.now()))
	go func() {
		defer close(w.stopDone)
		defer func() {
			if r := recover(); r != nil {
				w.stopPanic = r
			}
		}()
		w.d.Stop()
	}()
	for w.fail == nil {
		w.settle()
		if w.fail != nil {
			return
		}
		select {
		case <-w.stopDone:
			if w.stopPanic != nil {
				w.failf("panic:Stop", "Stop panicked: %v", w.stopPanic)
			}
			return
		default:
		}
		wake, ok := w.clk.earliestWake()
		if !ok {
			w.failf("stop-hangs", "Stop() is blocked although no request is outstanding and nobody sleeps on the clock")
			return
		}
		w.clk.Advance(wake.Sub(w.clk.Now()))
		w.trace = append(w.trace, fmt.Sprintf("@%v (time passes while Stop waits)", w.now()))
	}
}

// quiesce waits for the barrier; a livelock becomes the failure of this execution.
func (w *world) quiesce() bool {
	l := quiesce()
	if l == nil {
		return true
	}
	w.livelocked = true
	cls := "events-up-to-1MB"
	var waiting []string
	for _, id := range w.order {
		s := w.events[id]
		if b := w.inBatch[id]; b != nil && b.Attempts[len(b.Attempts)-1] != nil {
			continue
		}
		waiting = append(waiting, fmt.Sprintf("%s(%dB)", id, max(s.Size, 0)))
		switch {
		case s.Size > maxBodySize:
			cls = "event-over-5MB"
		case s.Size > maxEventSize && cls != "event-over-5MB":
			cls = "event-over-1MB"
		}
	}
	defer func() { lastLivelock = w.fail }()
	w.trace = append(w.trace, fmt.Sprintf("@%v   !! a goroutine is still running after %.0f CPU-seconds without ever blocking", w.now(), l.CPU))
	w.failf("livelock:"+l.where()+"-does-not-terminate:"+cls, "with the fake clock frozen at %v, nothing on the network and nobody asleep, a goroutine in %s kept running (state %q) for %.0f CPU-seconds without blocking; events without an outcome: %v; queued_items = %d. Stack:\n%s",
		w.now(), l.where(), l.State, l.CPU, waiting, w.gauge(), l.Stack)
	return false
}

// settle brings the system to quiescence with no parked round trip. Each round: wait for quiescence, take ALL
// parked round trips in canonical order, give them the next script answers in that order, release them. The
// sends then proceed concurrently, but they only share commutative metric updates, and whatever they request
// next parks again and is ordered canonically in the next round.
func (w *world) settle() {
	for {
		if !w.quiesce() {
			return
		}
		p := w.net.takeParked()
		if len(p) == 0 {
			break
		}
		for _, c := range p {
			c.req.Seq = len(w.reqs) + 1 // numbered in canonical order, not arrival order
			c.req.At = w.now()
			w.reqs = append(w.reqs, c.req)
			w.checkRequest(c.req)
		}
		for _, c := range p {
			a := answer{Kind: "ok"}
			if w.spos < len(w.script) {
				a = w.script[w.spos]
			}
			w.spos++
			w.noteAnswer(c.req, a)
			w.net.release(c, w.buildReply(a, c.req))
		}
	}
	w.checkQuiescent()
}

// teardown releases everything the execution still holds (not judged): the network answers 200 by itself from
// now on, new sleeps return at once, the real Stop() runs, and goroutines already inside a retry sleep are woken
// by one clock jump once the dispatcher (and with it both tickers) is gone.
func (w *world) teardown() {
	if w.livelocked {
		return // nothing can be released: the process is given up (see poisoned)
	}
	w.net.setAuto()
	w.clk.setAuto()
	for _, c := range w.net.takeParked() {
		w.net.release(c, w.buildReply(answer{Kind: "ok"}, c.req))
	}
	if w.stopDone == nil {
		w.trace = append(w.trace, fmt.Sprintf("@%v (end of history: the real Stop() is called to release the transmission)", w.now()))
		w.stopDone = make(chan struct{})
		go func() {
			defer close(w.stopDone)
			defer func() { recover() }()
			w.d.Stop()
		}()
	}
	if !w.quiesce() {
		return
	}
	if w.clk.sleepers() > 0 {
		w.clk.Advance(2 * time.Minute)
		w.quiesce()
	}
	// a Stop() that is still blocked now is deadlocked (reported by the histories that contain stop); its
	// goroutines stay parked for the rest of the process and do not disturb the barrier.
}

// ---------------------------------------------------------------------------------------------
// scripted answers

type answer struct {
	Kind string // ok, okmp, everr, short, 400, 401, 500, 429, 503, timeout, garbage
	RA   string // Retry-After for 429/503: "", "0", "1", "59", "60", "date" (= now+2s as an HTTP-date), "past" (= now-2s), "date90" (= now+90s)
}

func (a answer) String() string {
	if a.Kind == "429" || a.Kind == "503" {
		return a.Kind + "[RA=" + a.RA + "]"
	}
	return a.Kind
}

// retryable: the statement allows a second attempt after these.
func (a answer) retryable() bool { return a.Kind == "429" || a.Kind == "503" || a.Kind == "timeout" }

func statusList(n int, bad int) []map[string]int {
	rs := make([]map[string]int, n)
	for i := range rs {
		rs[i] = map[string]int{"status": 202}
		if i == bad {
			rs[i]["status"] = 400
		}
	}
	return rs
}

func (w *world) buildReply(a answer, q *request) reply {
	n := len(q.Events)
	js := map[string]string{"Content-Type": "application/json"}
	switch a.Kind {
	case "ok":
		b, _ := json.Marshal(statusList(n, -1))
		return reply{status: 200, header: js, body: b}
	case "okmp":
		arr := make([]codec.Value, n)
		for i := range arr {
			arr[i] = codec.Map(codec.E("status", codec.Int(202)))
		}
		return reply{status: 200, header: map[string]string{"Content-Type": "application/msgpack"}, body: codec.Encode(codec.Arr(arr...))}
	case "everr":
		b, _ := json.Marshal(statusList(n, 0))
		return reply{status: 200, header: js, body: b}
	case "short":
		b, _ := json.Marshal(statusList(max(n-1, 0), -1))
		return reply{status: 200, header: js, body: b}
	case "garbage":
		return reply{status: 200, header: js, body: []byte("<html>not a batch response")}
	case "400", "401", "500":
		st := map[string]int{"400": 400, "401": 401, "500": 500}[a.Kind]
		return reply{status: st, header: js, body: []byte(`{"error":"scripted"}`)}
	case "429", "503":
		st := map[string]int{"429": 429, "503": 503}[a.Kind]
		h := map[string]string{"Content-Type": "application/json"}
		switch a.RA {
		case "":
		case "date":
			h["Retry-After"] = w.clk.Now().Add(2 * time.Second).UTC().Format(http.TimeFormat)
		case "past":
			h["Retry-After"] = w.clk.Now().Add(-2 * time.Second).UTC().Format(http.TimeFormat)
		case "date90":
			h["Retry-After"] = w.clk.Now().Add(90 * time.Second).UTC().Format(http.TimeFormat)
		default:
			h["Retry-After"] = a.RA
		}
		return reply{status: st, header: h, body: []byte(`{"error":"slow down"}`)}
	case "timeout":
		return reply{err: timeoutError{}}
	}
	ev.Harness("unknown answer kind %q", a.Kind)
	return reply{}
}
