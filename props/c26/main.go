// C26: the transmission delivers each event once, to its own destination, within limits.
//
// Engine E4 (fault scripts) on the REAL, started DirectTransmission: the real dispatchStaleBatches goroutine
// runs against a clockwork fake clock, sends run in the real conc pool through the real http.Client, and every
// round trip is answered from an explorer-owned script. The explorer enumerates, depth first and without
// sampling, every history over {enqueue(destination, size class), advance(BatchTimeout/4), advance(BatchTimeout/8)
// (once, to put enqueues between ticks), stop} within the bounds of each group below, for every MaxBatchSize
// and every answer script of the group; the oracle (oracle.go) is evaluated at every quiescent instant of
// every history. world.go explains why every verdict is independent of goroutine scheduling and wall time.
package main

import (
	"encoding/json"
	"fmt"
	"os"
	"runtime"
	"runtime/debug"
	"runtime/pprof"
	"strings"

	"verif/engine/ev"
)

type step struct {
	Op   string // enq, adv, half, stop
	Dest string `json:",omitempty"`
	Size int    `json:",omitempty"` // 0 = small; otherwise exact serialized size of the batch member
}

func (s step) String() string {
	if s.Op == "enq" {
		if s.Size == 0 {
			return "enq(" + s.Dest + ")"
		}
		return fmt.Sprintf("enq(%s,%dB)", s.Dest, s.Size)
	}
	return s.Op
}

func count(h []step, op string) int {
	n := 0
	for _, s := range h {
		if s.Op == op {
			n++
		}
	}
	return n
}

// group = one bounded sub-space (alphabet + bounds + scripts); every element of it is executed.
type group struct {
	Name     string
	Ms       []int
	Compress bool
	Dests    []string
	Sizes    []int // size classes of enqueue
	MaxEnq   int
	MaxAdv   int  // bound on advance(tick) steps per history
	Half     bool // advance(tick/2) available (once per history)
	Wait     bool // macro step: 5 x advance(tick) = 1.25 x BatchTimeout (once per history, not when idle)
	Scripts  [][]answer
	// Prefix: sharding granularity (jobs = histories of exactly this length, or shorter ones that are terminal)
	Prefix int
	// Enabled may veto a step (syntactic, history-based) to focus a group; nil = everything within bounds.
	Veto func(h []step, s step) bool
}

// enabled returns the menu after history h; idle (observed on the real object: nothing pending, nothing in
// flight, gauge 0) disables advance(tick): on an idle transmission it only shifts every later instant by one
// tick period, and neither the code nor the oracle refers to absolute time or to tick phase other than
// through `half`, so the pruned histories are time-shifted copies of explored ones.
func (g *group) enabled(h []step, idle bool) []step {
	if len(h) > 0 && h[len(h)-1].Op == "stop" {
		return nil
	}
	var out []step
	add := func(s step) {
		if g.Veto == nil || !g.Veto(h, s) {
			out = append(out, s)
		}
	}
	if count(h, "enq") < g.MaxEnq {
		for _, sz := range g.Sizes {
			for _, d := range g.Dests {
				add(step{Op: "enq", Dest: d, Size: sz})
			}
		}
	}
	if !idle && count(h, "adv") < g.MaxAdv {
		add(step{Op: "adv"})
	}
	if g.Wait && !idle && count(h, "wait") == 0 {
		add(step{Op: "wait"})
	}
	if g.Half && count(h, "half") == 0 {
		add(step{Op: "half"})
	}
	add(step{Op: "stop"})
	return out
}

// execute replays h on a fresh world.
func execute(m int, compress bool, script []answer, h []step) *world {
	w := newWorld(m, compress, script)
	for _, s := range h {
		if w.fail != nil {
			break
		}
		switch s.Op {
		case "enq":
			w.enqueue(dests[s.Dest], s.Size)
		case "adv":
			w.advance(tick)
		case "half":
			w.advance(halfTick)
		case "wait": // 1.25 x BatchTimeout passes, tick by tick
			for i := 0; i < 5 && w.fail == nil; i++ {
				w.advance(tick)
			}
		case "stop":
			w.stop()
			if w.fail == nil {
				w.checkQuiescent()
			}
		}
	}
	w.idleAtEnd = w.fail == nil && w.idle()
	w.teardown()
	return w
}

type explorer struct {
	r     *ev.Run
	viol  map[string]*found // per-shard: shortest replay per signature
	nodes int64
}

type found struct {
	what   string
	replay map[string]any
	len    int
}

func (x *explorer) run(g *group, m int, si int, h []step) (w *world) {
	w = execute(m, g.Compress, g.Scripts[si], h)
	x.nodes++
	x.r.Add("evaluations", 1)
	x.r.Add("evaluations_"+g.Name, 1)
	x.r.Add("requests_observed", int64(len(w.reqs)))
	if w.fail != nil {
		f := x.viol[w.fail.Sig]
		if f == nil || len(h) < f.len {
			x.viol[w.fail.Sig] = &found{what: fmt.Sprintf("[%s, MaxBatchSize=%d, script=%v, history=%v] %s", g.Name, m, g.Scripts[si], h, w.fail.What),
				replay: map[string]any{"group": g.Name, "max_batch_size": m, "compression": g.Compress, "script": fmt.Sprint(g.Scripts[si]), "answers": g.Scripts[si], "history": h, "trace": w.trace}, len: len(h)}
		}
		return w
	}
	w.finalCensus()
	for k, n := range w.census {
		x.r.Add(k, n)
	}
	lab := w.label()
	x.r.Distinct("distinct_outcomes", lab)
	if len(w.reqs) > 0 || strings.Contains(lab, "oversize=1") || strings.Contains(lab, "oversize=2") {
		x.r.Distinct("distinct_nontrivial", lab)
	}
	for _, b := range w.blist {
		x.r.Distinct("distinct_batch_shapes", fmt.Sprintf("%s×%d %v", b.Dest, len(b.IDs), b.answers()))
	}
	if x.nodes%4001 == 1 {
		x.r.Sample(map[string]any{"group": g.Name, "max_batch_size": m, "script": fmt.Sprint(g.Scripts[si]), "history": fmt.Sprint(h), "outcome": lab})
	}
	return w
}

// explore walks the subtree below h depth first (explicit stack: the harness goroutine's own stack stays
// shallow, which keeps the quiescence barrier cheap).
func (x *explorer) explore(g *group, m, si int, h []step) {
	stack := [][]step{h}
	for len(stack) > 0 {
		if x.r.Expired(g.Name) || poisoned {
			return
		}
		h := stack[len(stack)-1]
		stack = stack[:len(stack)-1]
		w := x.run(g, m, si, h)
		if w.fail != nil {
			continue
		}
		en := g.enabled(h, w.idleAtEnd)
		for i := len(en) - 1; i >= 0; i-- {
			stack = append(stack, append(h[:len(h):len(h)], en[i]))
		}
	}
}

// prefixes enumerates the shard jobs of a group syntactically (idle = false: no pruning above the cut).
func (g *group) prefixes() [][]step {
	var out [][]step
	var rec func(h []step)
	rec = func(h []step) {
		if len(h) == g.Prefix {
			out = append(out, h)
			return
		}
		out = append(out, h) // shallow node: executed alone
		for _, s := range g.enabled(h, false) {
			rec(append(h[:len(h):len(h)], s))
		}
	}
	rec(nil)
	return out
}

// replayFile re-executes the history of a replay file written by this check and prints what an observer sees.
func replayFile(path string) {
	b, err := os.ReadFile(path)
	if err != nil {
		ev.Harness("replay: %v", err)
	}
	var f struct {
		Signature string
		Replay    struct {
			MaxBatchSize int `json:"max_batch_size"`
			Compression  bool
			Answers      []answer
			History      []step
		}
	}
	if err := json.Unmarshal(b, &f); err != nil {
		ev.Harness("replay: %v", err)
	}
	calibrate()
	w := execute(f.Replay.MaxBatchSize, f.Replay.Compression, f.Replay.Answers, f.Replay.History)
	fmt.Printf("MaxBatchSize=%d compression=%v script=%v history=%v\n", f.Replay.MaxBatchSize, f.Replay.Compression, f.Replay.Answers, f.Replay.History)
	fmt.Println(strings.Join(w.trace, "\n"))
	if w.fail != nil {
		fmt.Printf("VIOLATION %s :: %s\n", w.fail.Sig, w.fail.What)
		os.Exit(1)
	}
	fmt.Println("no violation:", w.label())
	os.Exit(0)
}

func main() {
	// The quiescence barrier and the cooperative scheduler are defined for ONE processor (every other goroutine is
	// then either runnable or blocked while the harness runs); workers get GOMAXPROCS=1 from ev.Sharded / check.conf,
	// this makes a directly started binary (replay, debugging) behave the same.
	runtime.GOMAXPROCS(1)
	for i, a := range os.Args {
		if a == "--replay" && i+1 < len(os.Args) {
			replayFile(os.Args[i+1])
		}
	}
	r := ev.New("C26", "fault_enumeration")
	groups := buildGroups(r)
	if only := os.Getenv("C26_GROUP"); only != "" {
		var gs []*group
		for _, g := range groups {
			if g.Name == only {
				gs = append(gs, g)
			}
		}
		groups = gs
	}
	if os.Getenv("C26_COUNT") != "" { // debugging aid: syntactic size of every group (upper bound: no idle pruning)
		for _, g := range groups {
			n := 0
			var rec func(h []step)
			rec = func(h []step) {
				n++
				for _, s := range g.enabled(h, false) {
					rec(append(h[:len(h):len(h)], s))
				}
			}
			rec(nil)
			fmt.Printf("%-10s histories<=%d x Ms %d x scripts %d = %d\n", g.Name, n, len(g.Ms), len(g.Scripts), n*len(g.Ms)*len(g.Scripts))
		}
		os.Exit(0)
	}
	nshard := 16
	r.Sharded(nshard, func(i, n int) {
		if pf := os.Getenv("C26_PROF"); pf != "" {
			f, _ := os.Create(pf)
			pprof.StartCPUProfile(f)
			defer pprof.StopCPUProfile()
		}
		debug.SetGCPercent(400) // executions churn through MB-sized buffers; collect less often
		calibrate()
		if !poisoned {
			selfCheck()
		}
		if poisoned { // even the start-up probes (one small event) do not terminate
			r.Violation(lastLivelock.Sig, "[start-up probe] "+lastLivelock.What, map[string]any{"history": "calibrate/selfCheck"})
			r.Cap("worker abandoned after a livelock (the spinning goroutine cannot be stopped in-process)")
			return
		}
		x := &explorer{r: r, viol: map[string]*found{}}
		job := 0
		part := os.Getenv("C26_PART") // "", "e4" or "e3" (debugging aid)
		if part == "" || part == "e3" {
			// E3 part first (short): scenario k runs on shard k mod n
			for k, sc := range concScenarios() {
				if k%n == i && os.Getenv("C26_GROUP") == "" {
					runConcurrent(r, sc, ev.Pick(r, 2, 3))
				}
			}
		}
		if part == "e3" {
			return
		}
		for _, g := range groups {
			pref := g.prefixes()
			for _, m := range g.Ms {
				for si := range g.Scripts {
					for _, p := range pref {
						job++
						if job%n != i || poisoned {
							continue
						}
						if len(p) == g.Prefix {
							x.explore(g, m, si, p)
						} else {
							x.run(g, m, si, p)
						}
					}
				}
			}
		}
		if poisoned {
			r.Cap("worker abandoned after a livelock (the spinning goroutine cannot be stopped in-process); its remaining cases were not executed")
		}
		var sigs []string
		for s := range x.viol {
			sigs = append(sigs, s)
		}
		sortStrings(sigs)
		for _, s := range sigs {
			r.Violation(s, x.viol[s].what, x.viol[s].replay)
		}
	})
	var bounds []string
	for _, g := range groups {
		bounds = append(bounds, fmt.Sprintf("%s: MaxBatchSize %v, dests %v, sizes %v, ≤%d enqueues, ≤%d ticks, half-tick %v, %d scripts", g.Name, g.Ms, g.Dests, g.Sizes, g.MaxEnq, g.MaxAdv, g.Half, len(g.Scripts)))
	}
	bounds = append(bounds, fmt.Sprintf("E3: %d scenarios (MaxBatchSize 1..3 x 0..MaxBatchSize-1 stale events pending x {a,b same destination: EnqueueEvent(a) || EnqueueEvent(b) || dispatch-tick body; a,b different destinations: EnqueueEvent(a) || EnqueueEvent(b)}), preemption bound %d, then Stop()", len(concScenarios()), ev.Pick(r, 2, 3)))
	if p := os.Getenv("C26_PART"); p != "" || os.Getenv("C26_GROUP") != "" { // debugging aids: never a complete run
		r.Cap("debug run: C26_PART/C26_GROUP restricts the check")
		r.Add("evaluations", 0)
		r.Distinct("distinct_nontrivial", "(debug run)")
	}
	r.Set("bounds", bounds)
	r.Set("e3_preemption_bound_completed", ev.Pick(r, 2, 3))
	r.Set("rule", "every history of each group (all enqueue/advance/stop sequences within its bounds, advance pruned only on an observed-idle transmission) x every MaxBatchSize x every answer script (0 faults, every single fault at every position, every pair) is executed on the real started DirectTransmission; oracle R1-R6 at every quiescent instant. E3 part: every schedule with <= 2 (quick) / 3 (thorough) preemptions of EnqueueEvent || EnqueueEvent || dispatch-tick body per scenario, exactly-once delivery and gauge checked after the real Stop()")
	r.Assume("clause f: a 'batch' is the set of events of one request; the same set requested again is a further attempt of that batch. A second attempt is accepted after ANY 429/503/time-out answer: the statement's '(Retry-After under 60 s)' is read as describing when a retry happens, not as forbidding one after a longer Retry-After (59 vs 60 s, HTTP-date, absent, 0 are all exercised and reported in the f_* census, the only verdicts are 'never a third attempt' and 'no second attempt after any other answer')")
	r.Assume("the statement does not say that a retry must happen, nor that a full batch is sent immediately: only the upper bounds (1.25 x BatchTimeout, Stop, two attempts) are judged")
	r.Assume("clause e is judged per event: every event is first requested within 1.25 x BatchTimeout of its own hand-in (implied by the batch-level wording, since no member is older than the batch's first event); 'dispatched' is observed as 'the request reached the network'")
	r.Assume("clause e weakening: time during which an earlier request to the SAME destination waits out a 429/503 Retry-After back-off BEFORE ITS SECOND ATTEMPT is not counted against the 1.25 x BatchTimeout of that destination's later events. The transmission sends the <=5 MB requests of one oversized internal batch one after the other, so the remainder waits behind the sleeping first part (observed: 5 x 1 MB, first request answered 429 -> the fifth event leaves 1 s later); the statement speaks about dispatching batches, not about server back-pressure. A sleep that FOLLOWS the second (= last) attempt is not a back-off before a retry and is not excused: signatures sleep-after-final-attempt:* (props/c26/FINDING.md)")
	r.Assume("clause b: 'counted as an error' = the sum of libhoney_upstream_response_errors and _enqueue_errors is at least the number of dropped oversize events once every event has an outcome (exact in the fault-free scripts); an oversize event 'has its outcome' once 1.25 x BatchTimeout have passed since its hand-in or Stop() has returned")
	r.Assume("clause b/c: serialized size of an event = size of its member of the batch array on the wire (the statement's 'alone': without the array header); the constant per-event overhead is measured once from the real encoder, sizes are then exact to the byte. Request body size = the uncompressed MessagePack body; the 5 MB group runs without compression, so this is also the size on the wire there")
	r.Assume("a request with zero events is not judged (it carries nobody's event)")
	r.Assume("http.Client.Timeout (batchSendTimeout) is a wall-clock timer and is disabled; a time-out is a scripted round-trip error whose Timeout() is true")
	r.Assume("fake time moves in steps of BatchTimeout/8 or /4 while the dispatcher runs; retry sleeps therefore end at the next step at or after their wake-up time. advance is not offered on an idle transmission (nothing pending, in flight or sleeping): such histories are time-shifted copies of explored ones")
	r.Assume("destinations have well-formed API hosts (an unparsable APIHost cannot be addressed at all and is outside the statement)")
	r.Assume("E3 part: scheduling points are the sync operations of package transmit (import rewrite); sends run on the real conc pool outside the scheduler and are joined by Stop() before the oracle reads. The tick body visits the batch map in Go map order, which the scheduler cannot own, so the scenarios with the tick thread use one destination (<=1 map key) and the two-destination scenarios run the two producers only")
	r.Finish()
}

func sortStrings(s []string) {
	for i := 1; i < len(s); i++ {
		for j := i; j > 0 && s[j] < s[j-1]; j-- {
			s[j], s[j-1] = s[j-1], s[j]
		}
	}
}

// calibrate measures the per-member overhead from the real encoder (one event with a str32 pad). The probe is
// flushed by Stop() as well, so the measurement does not depend on how (or whether) a full batch is dispatched;
// if the probe never reaches the wire the documented wire format is assumed and the size groups speak for themselves.
func calibrate() {
	memberOverhead = 0
	calibrated = false
	const probe = 70000
	w := newWorld(1, false, nil)
	w.enqueue(dests["A"], probe) // padFor(probe) = probe bytes of pad while memberOverhead = 0
	if w.fail == nil && len(w.reqs) == 0 {
		w.stop()
	}
	w.teardown()
	memberOverhead = 66 // {time: ext8(12) , samplerate: int, data: {id, dest, pad: str32}} as encoded today
	for _, q := range w.reqs {
		for _, e := range q.Events {
			if e.ID == "e1" && e.PadLen == probe && e.Problem == "" {
				memberOverhead = e.WireSize - probe
				calibrated = true
			}
		}
	}
	if memberOverhead < 20 || memberOverhead > 200 {
		ev.Harness("implausible per-event overhead %d", memberOverhead)
	}
}

var calibrated bool

// selfCheck: the same history twice must give the identical trace (DESIGN §3), and the barrier must see the
// dispatcher parked.
func selfCheck() {
	h := []step{{Op: "enq", Dest: "A"}, {Op: "half"}, {Op: "enq", Dest: "B"}, {Op: "enq", Dest: "A"}, {Op: "adv"}, {Op: "adv"}, {Op: "adv"}, {Op: "adv"}, {Op: "adv"}, {Op: "enq", Dest: "C"}, {Op: "stop"}}
	sc := []answer{{Kind: "429", RA: "1"}, {Kind: "timeout"}, {Kind: "503", RA: "59"}}
	a := execute(3, true, sc, h)
	b := execute(3, true, sc, h)
	if strings.Join(a.trace, "\n") != strings.Join(b.trace, "\n") {
		ev.Harness("self-check: two replays of one history diverge:\n%s\n----\n%s", strings.Join(a.trace, "\n"), strings.Join(b.trace, "\n"))
	}
	if os.Getenv("C26_TRACE") != "" {
		fmt.Println(strings.Join(a.trace, "\n"))
		fmt.Println(a.label(), a.fail)
	}
}
