// C26: the transmission delivers each event once, to its own destination, within limits.
//
// Engine E4 (fault scripts) on the REAL, started DirectTransmission: the real dispatchStaleBatches goroutine
// runs against a clockwork fake clock, sends run in the real conc pool through the real http.Client, and every
// round trip is answered from an explorer-owned script. The explorer enumerates, depth first and without
// sampling, every history over {enqueue(destination, size class), advance(BatchTimeout/4), advance(BatchTimeout/8)
// (once, to put enqueues between ticks), stop} within the bounds of each group below, for every MaxBatchSize
// and every answer script of the group; the oracle (oracle.go) is evaluated at every quiescent instant of
// every history. world.go explains why every verdict is independent of goroutine scheduling and wall time.
package main

import (
	"fmt"
	"os"
	"runtime/debug"
	"runtime/pprof"
	"strings"

	"verif/engine/ev"
)

type step struct {
	Op   string // enq, adv, half, stop
	Dest string `json:",omitempty"`
	Size int    `json:",omitempty"` // 0 = small; otherwise exact serialized size of the batch member
}

func (s step) String() string {
	if s.Op == "enq" {
		if s.Size == 0 {
			return "enq(" + s.Dest + ")"
		}
		return fmt.Sprintf("enq(%s,%dB)", s.Dest, s.Size)
	}
	return s.Op
}

func count(h []step, op string) int {
	n := 0
	for _, s := range h {
		if s.Op == op {
			n++
		}
	}
	return n
}

// group = one bounded sub-space (alphabet + bounds + scripts); every element of it is executed.
type group struct {
	Name     string
	Ms       []int
	Compress bool
	Dests    []string
	Sizes    []int // size classes of enqueue
	MaxEnq   int
	MaxAdv   int  // bound on advance(tick) steps per history
	Half     bool // advance(tick/2) available (once per history)
	Wait     bool // macro step: 5 x advance(tick) = 1.25 x BatchTimeout (once per history, not when idle)
	Scripts  [][]answer
	// Prefix: sharding granularity (jobs = histories of exactly this length, or shorter ones that are terminal)
	Prefix int
	// Enabled may veto a step (syntactic, history-based) to focus a group; nil = everything within bounds.
	Veto func(h []step, s step) bool
}

// enabled returns the menu after history h; idle (observed on the real object: nothing pending, nothing in
// flight, gauge 0) disables advance(tick): on an idle transmission it only shifts every later instant by one
// tick period, and neither the code nor the oracle refers to absolute time or to tick phase other than
// through `half`, so the pruned histories are time-shifted copies of explored ones.
func (g *group) enabled(h []step, idle bool) []step {
	if len(h) > 0 && h[len(h)-1].Op == "stop" {
		return nil
	}
	var out []step
	add := func(s step) {
		if g.Veto == nil || !g.Veto(h, s) {
			out = append(out, s)
		}
	}
	if count(h, "enq") < g.MaxEnq {
		for _, sz := range g.Sizes {
			for _, d := range g.Dests {
				add(step{Op: "enq", Dest: d, Size: sz})
			}
		}
	}
	if !idle && count(h, "adv") < g.MaxAdv {
		add(step{Op: "adv"})
	}
	if g.Wait && !idle && count(h, "wait") == 0 {
		add(step{Op: "wait"})
	}
	if g.Half && count(h, "half") == 0 {
		add(step{Op: "half"})
	}
	add(step{Op: "stop"})
	return out
}

// execute replays h on a fresh world.
func execute(m int, compress bool, script []answer, h []step) *world {
	w := newWorld(m, compress, script)
	for _, s := range h {
		if w.fail != nil {
			break
		}
		switch s.Op {
		case "enq":
			w.enqueue(dests[s.Dest], s.Size)
		case "adv":
			w.advance(tick)
		case "half":
			w.advance(halfTick)
		case "wait": // 1.25 x BatchTimeout passes, tick by tick
			for i := 0; i < 5 && w.fail == nil; i++ {
				w.advance(tick)
			}
		case "stop":
			w.stop()
			if w.fail == nil {
				w.checkQuiescent()
			}
		}
	}
	w.idleAtEnd = w.fail == nil && w.idle()
	w.teardown()
	return w
}

type explorer struct {
	r     *ev.Run
	viol  map[string]*found // per-shard: shortest replay per signature
	nodes int64
}

type found struct {
	what   string
	replay map[string]any
	len    int
}

func (x *explorer) run(g *group, m int, si int, h []step) (w *world) {
	w = execute(m, g.Compress, g.Scripts[si], h)
	x.nodes++
	x.r.Add("evaluations", 1)
	x.r.Add("evaluations_"+g.Name, 1)
	x.r.Add("requests_observed", int64(len(w.reqs)))
	if w.fail != nil {
		f := x.viol[w.fail.Sig]
		if f == nil || len(h) < f.len {
			x.viol[w.fail.Sig] = &found{what: fmt.Sprintf("[%s, MaxBatchSize=%d, script=%v, history=%v] %s", g.Name, m, g.Scripts[si], h, w.fail.What),
				replay: map[string]any{"group": g.Name, "max_batch_size": m, "compression": g.Compress, "script": fmt.Sprint(g.Scripts[si]), "answers": g.Scripts[si], "history": h, "trace": w.trace}, len: len(h)}
		}
		return w
	}
	w.finalCensus()
	for k, n := range w.census {
		x.r.Add(k, n)
	}
	lab := w.label()
	x.r.Distinct("distinct_outcomes", lab)
	if len(w.reqs) > 0 || strings.Contains(lab, "oversize=1") || strings.Contains(lab, "oversize=2") {
		x.r.Distinct("distinct_nontrivial", lab)
	}
	for _, b := range w.blist {
		x.r.Distinct("distinct_batch_shapes", fmt.Sprintf("%s×%d %v", b.Dest, len(b.IDs), b.answers()))
	}
	if x.nodes%4001 == 1 {
		x.r.Sample(map[string]any{"group": g.Name, "max_batch_size": m, "script": fmt.Sprint(g.Scripts[si]), "history": fmt.Sprint(h), "outcome": lab})
	}
	return w
}

// explore walks the subtree below h depth first (explicit stack: the harness goroutine's own stack stays
// shallow, which keeps the quiescence barrier cheap).
func (x *explorer) explore(g *group, m, si int, h []step) {
	stack := [][]step{h}
	for len(stack) > 0 {
		if x.r.Expired(g.Name) {
			return
		}
		h := stack[len(stack)-1]
		stack = stack[:len(stack)-1]
		w := x.run(g, m, si, h)
		if w.fail != nil {
			continue
		}
		en := g.enabled(h, w.idleAtEnd)
		for i := len(en) - 1; i >= 0; i-- {
			stack = append(stack, append(h[:len(h):len(h)], en[i]))
		}
	}
}

// prefixes enumerates the shard jobs of a group syntactically (idle = false: no pruning above the cut).
func (g *group) prefixes() [][]step {
	var out [][]step
	var rec func(h []step)
	rec = func(h []step) {
		if len(h) == g.Prefix {
			out = append(out, h)
			return
		}
		out = append(out, h) // shallow node: executed alone
		for _, s := range g.enabled(h, false) {
			rec(append(h[:len(h):len(h)], s))
		}
	}
	rec(nil)
	return out
}

func main() {
	r := ev.New("C26", "fault_enumeration")
	groups := buildGroups(r)
	if only := os.Getenv("C26_GROUP"); only != "" {
		var gs []*group
		for _, g := range groups {
			if g.Name == only {
				gs = append(gs, g)
			}
		}
		groups = gs
	}
	nshard := 16
	r.Sharded(nshard, func(i, n int) {
		if pf := os.Getenv("C26_PROF"); pf != "" {
			f, _ := os.Create(pf)
			pprof.StartCPUProfile(f)
			defer pprof.StopCPUProfile()
		}
		debug.SetGCPercent(400) // executions churn through MB-sized buffers; collect less often
		calibrate()
		selfCheck()
		x := &explorer{r: r, viol: map[string]*found{}}
		job := 0
		for _, g := range groups {
			pref := g.prefixes()
			for _, m := range g.Ms {
				for si := range g.Scripts {
					for _, p := range pref {
						job++
						if job%n != i {
							continue
						}
						if len(p) == g.Prefix {
							x.explore(g, m, si, p)
						} else {
							x.run(g, m, si, p)
						}
					}
				}
			}
		}
		var sigs []string
		for s := range x.viol {
			sigs = append(sigs, s)
		}
		sortStrings(sigs)
		for _, s := range sigs {
			r.Violation(s, x.viol[s].what, x.viol[s].replay)
		}
	})
	var bounds []string
	for _, g := range groups {
		bounds = append(bounds, fmt.Sprintf("%s: MaxBatchSize %v, dests %v, sizes %v, ≤%d enqueues, ≤%d ticks, half-tick %v, %d scripts", g.Name, g.Ms, g.Dests, g.Sizes, g.MaxEnq, g.MaxAdv, g.Half, len(g.Scripts)))
	}
	r.Set("bounds", bounds)
	r.Set("rule", "every history of each group (all enqueue/advance/stop sequences within its bounds, advance pruned only on an observed-idle transmission) x every MaxBatchSize x every answer script (0 faults, every single fault at every position, every pair) is executed on the real started DirectTransmission; oracle R1-R6 at every quiescent instant")
	r.Assume("a 'batch' is the set of events of one request; the same set requested again is a further attempt of that batch, allowed once after any 429/503/time-out answer (the statement's 'Retry-After under 60 s' qualifier is not used to forbid a retry after a longer Retry-After)")
	r.Assume("the statement does not say that a retry must happen, nor that a full batch is sent immediately: only the upper bounds (1.25 x BatchTimeout, Stop, two attempts) are judged")
	r.Assume("'counted as an error' = the sum of libhoney_upstream_response_errors and _enqueue_errors grows by at least one per dropped oversize event")
	r.Assume("serialized size of an event = size of its member of the batch array on the wire; the constant per-event overhead is measured once from the real encoder, sizes are then exact to the byte")
	r.Assume("fake time moves in steps of BatchTimeout/8 or /4 while the dispatcher runs; retry sleeps therefore end at the next step at or after their wake-up time")
	r.Finish()
}

func sortStrings(s []string) {
	for i := 1; i < len(s); i++ {
		for j := i; j > 0 && s[j] < s[j-1]; j-- {
			s[j], s[j-1] = s[j-1], s[j]
		}
	}
}

// calibrate measures the per-member overhead from the real encoder (one event with a str32 pad). The probe is
// flushed by Stop() as well, so the measurement does not depend on how (or whether) a full batch is dispatched;
// if the probe never reaches the wire the documented wire format is assumed and the size groups speak for themselves.
func calibrate() {
	memberOverhead = 0
	calibrated = false
	const probe = 70000
	w := newWorld(1, false, nil)
	w.enqueue(dests["A"], probe) // padFor(probe) = probe bytes of pad while memberOverhead = 0
	if w.fail == nil && len(w.reqs) == 0 {
		w.stop()
	}
	w.teardown()
	memberOverhead = 66 // {time: ext8(12) , samplerate: int, data: {id, dest, pad: str32}} as encoded today
	for _, q := range w.reqs {
		for _, e := range q.Events {
			if e.ID == "e1" && e.PadLen == probe && e.Problem == "" {
				memberOverhead = e.WireSize - probe
				calibrated = true
			}
		}
	}
	if memberOverhead < 20 || memberOverhead > 200 {
		ev.Harness("implausible per-event overhead %d", memberOverhead)
	}
}

var calibrated bool

// selfCheck: the same history twice must give the identical trace (DESIGN §3), and the barrier must see the
// dispatcher parked.
func selfCheck() {
	h := []step{{Op: "enq", Dest: "A"}, {Op: "half"}, {Op: "enq", Dest: "B"}, {Op: "enq", Dest: "A"}, {Op: "adv"}, {Op: "adv"}, {Op: "adv"}, {Op: "adv"}, {Op: "adv"}, {Op: "enq", Dest: "C"}, {Op: "stop"}}
	sc := []answer{{Kind: "429", RA: "1"}, {Kind: "timeout"}, {Kind: "503", RA: "59"}}
	a := execute(3, true, sc, h)
	b := execute(3, true, sc, h)
	if strings.Join(a.trace, "\n") != strings.Join(b.trace, "\n") {
		ev.Harness("self-check: two replays of one history diverge:\n%s\n----\n%s", strings.Join(a.trace, "\n"), strings.Join(b.trace, "\n"))
	}
	if os.Getenv("C26_TRACE") != "" {
		fmt.Println(strings.Join(a.trace, "\n"))
		fmt.Println(a.label(), a.fail)
	}
}
