package main

import "verif/engine/ev"

// size classes (exact serialized size of the batch member)
const (
	szSmall  = 0
	sz099    = 990_000   // ≈ 0.99 MB
	szMax    = 1_000_000 // exactly 1 MB: the largest event that must still be delivered
	szOver1  = 1_000_001 // one byte more: must be dropped
	sz101    = 1_010_000 // ≈ 1.01 MB
	szAlmost = 999_999
	sz5p2    = 5_200_000 // alone larger than a whole request body may be
	sz6      = 6_000_000
)

var retryAfters = []string{"", "0", "1", "59", "60", "date"}

func faultKinds(full bool) []answer {
	out := []answer{{Kind: "everr"}, {Kind: "short"}, {Kind: "garbage"}, {Kind: "400"}, {Kind: "500"}, {Kind: "timeout"}, {Kind: "okmp"}}
	for _, st := range []string{"429", "503"} {
		for _, ra := range retryAfters {
			out = append(out, answer{Kind: st, RA: ra})
		}
	}
	if full {
		out = append(out, answer{Kind: "401"}, answer{Kind: "429", RA: "past"}, answer{Kind: "503", RA: "past"}, answer{Kind: "429", RA: "date90"})
	}
	return out
}

// reduced representative set for pairs in the quick tier: one of each behavioural class
// (per-event result list, whole-batch HTTP error, retry with sleep, retry refused, retry without sleep).
func faultKindsReduced() []answer {
	return []answer{{Kind: "everr"}, {Kind: "garbage"}, {Kind: "500"}, {Kind: "timeout"},
		{Kind: "429", RA: ""}, {Kind: "503", RA: "59"}, {Kind: "429", RA: "60"}, {Kind: "503", RA: "date"}}
}

var ok = answer{Kind: "ok"}

// scripts: no fault; every single fault at every position < length; every pair of faults at every two positions.
func scripts(length int, singles, pairs []answer) [][]answer {
	out := [][]answer{{}}
	for pos := 0; pos < length; pos++ {
		for _, k := range singles {
			s := make([]answer, pos+1)
			for i := range s {
				s[i] = ok
			}
			s[pos] = k
			out = append(out, s)
		}
	}
	for i := 0; i < length; i++ {
		for j := i + 1; j < length; j++ {
			for _, a := range pairs {
				for _, b := range pairs {
					s := make([]answer, j+1)
					for x := range s {
						s[x] = ok
					}
					s[i], s[j] = a, b
					out = append(out, s)
				}
			}
		}
	}
	return out
}

// no enqueue once time has been moved (groups whose subject is not timing)
func noEnqAfterTime(h []step, s step) bool {
	return s.Op == "enq" && (count(h, "adv") > 0 || count(h, "half") > 0 || count(h, "wait") > 0)
}

func buildGroups(r *ev.Run) []*group {
	th := r.Thorough()
	noFault := [][]answer{{}}
	var gs []*group
	// routing: which request an event ends up in, MaxBatchSize, flush by time (wait) and by stop; 3 destinations that
	// differ pairwise in one or two components
	gs = append(gs, &group{Name: "route3", Ms: []int{1, 2, 3}, Compress: true, Dests: []string{"A", "B", "C"}, Sizes: []int{szSmall},
		MaxEnq: 5, Wait: true, Scripts: noFault, Prefix: 2, Veto: noEnqAfterTime})
	// ... three destinations that share exactly one component pairwise (host / API key / dataset)
	gs = append(gs, &group{Name: "route3x", Ms: []int{1, 2, 3}, Compress: false, Dests: []string{"A", "E", "F"}, Sizes: []int{szSmall},
		MaxEnq: 5, Wait: true, Scripts: noFault, Prefix: 2, Veto: noEnqAfterTime})
	// ... and the pair that differs in the API key only
	gs = append(gs, &group{Name: "route2", Ms: []int{1, 2, 3}, Compress: false, Dests: []string{"A", "D"}, Sizes: []int{szSmall},
		MaxEnq: 5, Wait: true, Scripts: noFault, Prefix: 2, Veto: noEnqAfterTime})
	// timing: enqueues interleaved with ticks and one half tick
	gs = append(gs, &group{Name: "timing", Ms: []int{2, 3}, Compress: true, Dests: []string{"A", "B"}, Sizes: []int{szSmall},
		MaxEnq: ev.Pick(r, 3, 4), MaxAdv: ev.Pick(r, 6, 8), Half: true, Scripts: noFault, Prefix: 2})
	// event size limit: every size class in every batch position, fault-free and with one fault on the first request
	first := scripts(1, []answer{{Kind: "timeout"}, {Kind: "429", RA: "1"}, {Kind: "500"}, {Kind: "short"}}, nil)
	gs = append(gs, &group{Name: "sizes", Ms: []int{1, 2, 3}, Compress: true, Dests: []string{"A", "B"},
		Sizes: []int{szSmall, sz099, szMax, szOver1, sz101}, MaxEnq: ev.Pick(r, 3, 4), Wait: true, Scripts: first, Prefix: 1,
		Veto: func(h []step, s step) bool {
			return noEnqAfterTime(h, s) || (s.Op == "enq" && s.Dest == "B" && s.Size != szSmall)
		}})
	// 5 MB body limit: needs MaxBatchSize ≥ 5 (a batch of ≤ 3 events of ≤ 1 MB cannot reach it)
	splitSizes := []int{szMax, szSmall, szOver1}
	splitScripts := [][]answer{{}, {{Kind: "timeout"}}, {ok, {Kind: "timeout"}}, {{Kind: "429"}}, {{Kind: "500"}}, {ok, {Kind: "short"}},
		// the first request's two attempts both fail, the second one with a Retry-After (what happens to the rest of the batch?)
		{{Kind: "timeout"}, {Kind: "503", RA: "59"}}, {{Kind: "503", RA: "59"}, {Kind: "503", RA: "59"}}, {{Kind: "429", RA: "1"}, {Kind: "429", RA: "1"}},
		// the first request fails for good at the transport level (both attempts time out): the later parts of the
		// split batch are still owed their own requests
		{{Kind: "timeout"}, {Kind: "timeout"}}}
	if th {
		splitSizes = []int{szMax, szAlmost, szSmall, szOver1}
		splitScripts = scripts(2, faultKindsReduced(), []answer{{Kind: "timeout"}, {Kind: "429", RA: ""}, {Kind: "503", RA: "59"}, {Kind: "500"}})
	}
	gs = append(gs, &group{Name: "split5MB", Ms: []int{5, 6}, Compress: false, Dests: []string{"A"}, Sizes: splitSizes,
		MaxEnq: 6, Wait: true, Scripts: splitScripts, Prefix: 2,
		Veto: func(h []step, s step) bool {
			if noEnqAfterTime(h, s) {
				return true
			}
			if s.Op != "enq" || s.Size == szMax || (th && s.Size != szOver1) {
				return false
			}
			for _, x := range h { // at most one oversize event; quick tier: also at most one small event among the 1 MB ones
				if x.Op == "enq" && x.Size == s.Size {
					return true
				}
			}
			return false
		}})
	// fault scripts: ≤ 3 answers, ≤ 2 faults
	pairs := []answer{{Kind: "everr"}, {Kind: "500"}, {Kind: "timeout"}, {Kind: "429", RA: ""}, {Kind: "503", RA: "59"}, {Kind: "429", RA: "60"}}
	if th {
		pairs = append(pairs, answer{Kind: "short"}, answer{Kind: "garbage"}, answer{Kind: "400"}, answer{Kind: "429", RA: "59"}, answer{Kind: "429", RA: "date"},
			answer{Kind: "503", RA: ""}, answer{Kind: "503", RA: "0"}, answer{Kind: "503", RA: "60"}, answer{Kind: "503", RA: "date"}, answer{Kind: "429", RA: "past"})
	}
	gs = append(gs, &group{Name: "faults", Ms: []int{1, 2}, Compress: true, Dests: []string{"A", "B"}, Sizes: []int{szSmall},
		MaxEnq: 3, MaxAdv: ev.Pick(r, 4, 6), Scripts: scripts(3, faultKinds(th), pairs), Prefix: 0})
	// events that alone exceed the 5 MB request limit: dropped and counted like any event over 1 MB, alone and with
	// small events of the same destination before / behind them. LAST group: a non-terminating send poisons the
	// worker process (see quiesce), which then gives up its remaining cases.
	gs = append(gs, &group{Name: "huge", Ms: []int{1, 2, 3}, Compress: false, Dests: []string{"A"}, Sizes: []int{szSmall, sz5p2, sz6},
		MaxEnq: 3, Wait: true, Scripts: [][]answer{{}, {{Kind: "429", RA: "1"}}}, Prefix: 1, Veto: noEnqAfterTime})
	return gs
}
