package main

// E3 part of C26: concurrent producers and the stale-batch dispatcher neither lose nor duplicate an event.
//
// Threads (cooperative scheduler, a scheduling point at every sync operation of package transmit):
//
//	enqueue-a:      d.EnqueueEvent(a)
//	enqueue-b:      d.EnqueueEvent(b)
//	dispatch-tick:  the body of the batch-ticker case of dispatchStaleBatches (extracted from the current
//	                source by the overlay as VerifC26DispatchTick, see check.conf)
//
// on a real, started DirectTransmission whose dispatcher goroutine stays parked on its (never advanced) fake
// tickers. Every schedule with at most `bound` preemptions is executed. After the threads have finished the real
// Stop() runs, and the oracle looks at what reached the in-memory network: every event that was handed in
// (including the ones already pending before the threads started) is a member of exactly one request, that
// request is addressed to the event's own destination and holds at most MaxBatchSize events, and the
// queued-items gauge is back at zero.
//
// Sends are scheduled threads too: the overlay (check.conf POOLS) turns `d.dispatchPool.Go(f)` / `.Wait()` of
// package transmit into vsched.PoolGo / PoolWait, so inside an exploration every sendBatch is a thread whose sync
// operations are scheduling points, and "the batch taken by the tick is serialised only after another event was
// appended for the same key" is one of the explored orders (a batch handed to the sender must not share storage
// with the live batch). Outside an exploration (Stop() in the oracle) the real conc pool is used.

import (
	"bytes"
	"context"
	"crypto/tls"
	"encoding/json"
	"fmt"
	"io"
	"net/http"
	"sort"
	"strings"
	"sync"
	"sync/atomic"
	"time"

	"github.com/honeycombio/refinery/logger"
	"github.com/honeycombio/refinery/metrics"
	"github.com/honeycombio/refinery/transmit"
	"github.com/honeycombio/refinery/types"
	"github.com/jonboulle/clockwork"

	"verif/engine/ev"
	"verif/engine/vsched"
)

type concScenario struct {
	Name   string
	M      int    // MaxBatchSize
	DA, DB string // destinations of events a and b
	Pre    int    // events already pending (and stale) for destination A when the threads start
	Tick   bool   // the dispatch-tick thread takes part
}

// The tick body snapshots the keys of the batch map in Go's (random) map order and then visits them in that
// order. With two keys in the map the order of its lock operations would differ from run to run, i.e. a schedule
// could not be replayed; the scheduler cannot own that choice. Scenarios with the tick thread therefore use ONE
// destination (at most one key, all three threads contend for the same batch); the two-destination scenarios run
// the two producers only (concurrent creation of two map entries).
func concScenarios() []concScenario {
	var out []concScenario
	for _, m := range []int{1, 2, 3} {
		for pre := 0; pre < m; pre++ {
			out = append(out, concScenario{Name: fmt.Sprintf("M%d-a:A-b:A-pending:%d-tick", m, pre), M: m, DA: "A", DB: "A", Pre: pre, Tick: true})
			out = append(out, concScenario{Name: fmt.Sprintf("M%d-a:A-b:B-pending:%d", m, pre), M: m, DA: "A", DB: "B", Pre: pre})
		}
	}
	return out
}

// shiftClock: Now() can be moved without firing the tickers of the (parked) dispatcher goroutine.
type shiftClock struct {
	*clockwork.FakeClock
	off atomic.Int64
}

func (c *shiftClock) Now() time.Time { return c.FakeClock.Now().Add(time.Duration(c.off.Load())) }

// recNet records every request and accepts every event (HTTP 200, one 202 per event).
type recNet struct {
	mu   sync.Mutex
	reqs []*request
}

func (n *recNet) RoundTrip(r *http.Request) (*http.Response, error) {
	q := &request{Host: r.URL.Scheme + "://" + r.URL.Host, Path: r.URL.EscapedPath(), Key: r.Header.Get("X-Honeycomb-Team"),
		ContentEncoding: r.Header.Get("Content-Encoding"), ContentType: r.Header.Get("Content-Type")}
	var raw []byte
	if r.Body != nil {
		raw, _ = io.ReadAll(r.Body)
		r.Body.Close()
	}
	decMu.Lock()
	decodeRequest(q, r.Method, raw)
	decMu.Unlock()
	n.mu.Lock()
	n.reqs = append(n.reqs, q)
	n.mu.Unlock()
	b, _ := json.Marshal(statusList(len(q.Events), -1))
	return &http.Response{StatusCode: 200, Status: "200 OK", Proto: "HTTP/1.1", ProtoMajor: 1, ProtoMinor: 1,
		Header: http.Header{"Content-Type": []string{"application/json"}}, Body: io.NopCloser(bytes.NewReader(b)), ContentLength: int64(len(b)), Request: r}, nil
}

type concSubject struct {
	d       *transmit.DirectTransmission
	net     *recNet
	met     *metrics.MultiMetrics
	sent    map[string]dest // event id -> destination it was handed in for
	stopped bool
}

func concEvent(id string, d dest) *types.Event {
	return &types.Event{Context: context.Background(), APIHost: d.Host, APIKey: d.Key, Dataset: d.Dataset, SampleRate: 1, Timestamp: t0,
		Data: types.NewPayload(mockCfg, map[string]any{"id": id, "dest": d.Name, "pad": "xxxxxxxxxx"})}
}

func newConcSubject(sc concScenario) *concSubject {
	s := &concSubject{net: &recNet{}, met: metrics.NewMultiMetrics(), sent: map[string]dest{}}
	clk := &shiftClock{FakeClock: clockwork.NewFakeClockAt(t0)}
	tr := &http.Transport{TLSNextProto: map[string]func(string, *tls.Conn) http.RoundTripper{}}
	tr.RegisterProtocol("http", s.net)
	s.d = transmit.NewDirectTransmission(types.TransmitTypeUpstream, tr, sc.M, batchTimeout, 0, false, nil)
	s.d.Logger = &logger.NullLogger{}
	s.d.Metrics = s.met
	s.d.Version = "verif"
	s.d.Clock = clk
	if err := s.d.Start(); err != nil {
		ev.Harness("Start: %v", err)
	}
	if err := clk.BlockUntilContext(context.Background(), 2); err != nil { // the dispatcher is parked on its two tickers
		ev.Harness("tickers: %v", err)
	}
	for i := 0; i < sc.Pre; i++ {
		id := fmt.Sprintf("p%d", i+1)
		s.sent[id] = dests["A"]
		s.d.EnqueueEvent(concEvent(id, dests["A"]))
	}
	clk.off.Store(int64(batchTimeout)) // whatever is pending is stale now; no ticker fires
	return s
}

func (s *concSubject) stop() {
	if !s.stopped {
		s.stopped = true
		s.d.Stop()
	}
}

// verdict is evaluated after Stop() returned.
func (s *concSubject) verdict(sc concScenario) (fail string, shape string) {
	s.net.mu.Lock()
	reqs := append([]*request(nil), s.net.reqs...)
	s.net.mu.Unlock()
	seen := map[string]int{}
	var shapes []string
	for _, q := range reqs {
		if q.Problem != "" {
			return fmt.Sprintf("malformed-request: %v: %s", q, q.Problem), ""
		}
		if len(q.Events) > sc.M {
			return fmt.Sprintf("batch-exceeds-MaxBatchSize: %v holds %d events, MaxBatchSize is %d", q, len(q.Events), sc.M), ""
		}
		for _, we := range q.Events {
			d, ok := s.sent[we.ID]
			if !ok {
				return fmt.Sprintf("unknown-event-on-wire: %v carries %q", q, we.ID), ""
			}
			seen[we.ID]++
			if q.Host != d.Host || q.Key != d.Key || q.Dataset != d.Dataset {
				return fmt.Sprintf("wrong-destination: %s (for %s) was sent in %v", we.ID, d.Name, q), ""
			}
		}
		ids := q.ids()
		sort.Strings(ids)
		shapes = append(shapes, strings.Join(ids, "+"))
	}
	var ids []string
	for id := range s.sent {
		ids = append(ids, id)
	}
	sort.Strings(ids)
	for _, id := range ids {
		switch n := seen[id]; {
		case n == 0:
			return fmt.Sprintf("event-lost: %s (-> %s) was handed in but is in no request after Stop() returned; requests: %v", id, s.sent[id].Name, shapes), ""
		case n > 1:
			return fmt.Sprintf("event-duplicated: %s (-> %s) is a member of %d requests; requests: %v", id, s.sent[id].Name, n, shapes), ""
		}
	}
	if v, ok := s.met.Get(metricPrefix + "_queued_items"); !ok || v != 0 {
		return fmt.Sprintf("gauge-nonzero-after-all-outcomes: all %d events were delivered and answered, %s_queued_items = %v", len(ids), metricPrefix, v), ""
	}
	sort.Strings(shapes)
	return "", strings.Join(shapes, " ")
}

func runConcurrent(r *ev.Run, sc concScenario, bound int) {
	var s *concSubject
	e := &vsched.Explorer{Bound: bound, Stop: func() bool { return r.Expired("concurrent " + sc.Name) }, Setup: func() {
		if s != nil {
			s.stop()
		}
		s = newConcSubject(sc)
		a, b := concEvent("a", dests[sc.DA]), concEvent("b", dests[sc.DB])
		s.sent["a"], s.sent["b"] = dests[sc.DA], dests[sc.DB]
		d := s.d
		vsched.Go("enqueue-a", func() { d.EnqueueEvent(a) })
		vsched.Go("enqueue-b", func() { d.EnqueueEvent(b) })
		if sc.Tick {
			vsched.Go("dispatch-tick", func() { d.VerifC26DispatchTick() })
		}
	}, Check: func(x *vsched.Exec) string {
		s.stop()
		fail, shape := s.verdict(sc)
		if fail == "" {
			r.Distinct("e3_distinct_request_shapes", sc.Name+": "+shape)
		}
		return fail
	}}
	ok := e.Explore()
	e.Report(r)
	r.Add("e3_scenarios", 1)
	r.Add("e3_executions_"+sc.Name, int64(e.Stats.Executions))
	if !ok {
		sig := "concurrent:" + firstWord(e.Failure)
		r.Violation(sig, fmt.Sprintf("[scenario %s, preemption bound %d] %s", sc.Name, bound, e.Failure),
			map[string]any{"scenario": sc, "bound": bound, "schedule": e.FailExec.Choices})
	}
	if s != nil {
		s.stop()
	}
}

func firstWord(s string) string {
	for i, c := range s {
		if c == ':' || c == ' ' {
			return s[:i]
		}
	}
	return s
}
