// C24: ingest authorisation and key replacement are uniform across protocols.
// Engine E2 (enumx) on fix/pipeline: SendKeyMode (6) × AcceptOnlyListedKeys × SendKey {unset, S} × ReceiveKeys {∅,{K}} ×
// ReceiveKeyIDs {∅,{I}} × client key {blank, S, K, key whose ID is I, unlisted U} × key flavour {E&S, classic} × ingestion
// endpoint × event route.
// Each request goes through the real client-facing mux / gRPC method handlers; acceptance is read off the status, the
// key the data carries is read off X-Honeycomb-Team of the /1/batch requests the real transmissions put on the
// in-memory wire (and off the span handed to the collector for spans this node owns). The reference answers come from
// sendkey_table.go, a transcription of the documentation.
package main

import (
	"encoding/hex"
	"fmt"
	"net/http/httptest"
	"os"
	"reflect"
	"sort"
	"strings"
	"sync"
	"time"

	"github.com/honeycombio/refinery/config"

	"verif/engine/enumx"
	"verif/engine/ev"
	"verif/fix/codec"
	"verif/fix/pipeline"
)

// Two key flavours. "es": Environment & Services keys — each has an environment and a key ID behind GET /1/auth.
// "classic": 32 hex digits — no environment lookup, no key ID (config.md: ReceiveKeyIDs "does not support legacy API keys"),
// so in that flavour the "listed-by-id" client is just one more unlisted key.
type keySet struct {
	Flavour          string
	S, K, KI, U, IDI string
}

var flavours = []keySet{
	{"es", "c24-send-key-SSSS", "c24-listed-key-KKKK", "c24-id-listed-key-IIII", "c24-unlisted-key-UUUU", "hcxik_c24_listed_id"},
	{"classic", "5e0d5e0d5e0d5e0d5e0d5e0d5e0d5e0d", "11571ed011571ed011571ed011571ed0", "1d1d1d1d1d1d1d1d1d1d1d1d1d1d1d1d", "0b57ac1e0b57ac1e0b57ac1e0b57ac1e", "hcxik_c24_listed_id"},
}

// keyIDOf is what GET /1/auth reports as the key's id (the fixture's Honeycomb); Refinery never asks for classic keys.
func keyIDOf(key string) string {
	switch {
	case key == "":
		return ""
	case key == flavours[0].KI || key == flavours[1].KI:
		return flavours[0].IDI
	}
	return "hcxik_other_" + key
}

// keyIDSeen is the key ID Refinery can know: none for blank and classic keys.
func keyIDSeen(fl keySet, key string) string {
	if fl.Flavour == "classic" {
		return ""
	}
	return keyIDOf(key)
}

var clientClasses = []string{"blank", "sendkey", "listed", "listed-by-id", "unlisted"}

func (fl keySet) client(class string) string {
	return map[string]string{"blank": "", "sendkey": fl.S, "listed": fl.K, "listed-by-id": fl.KI, "unlisted": fl.U}[class]
}

type endpoint struct {
	Name, Sig, Family, Signal, CT string
	ShortHeader                   bool
}

var endpoints = []endpoint{
	{"/1/events json", "/1/events", "event", "", codec.CTJSON, false},
	{"/1/batch msgpack", "/1/batch", "batch", "", codec.CTMsgpack, false},
	{"/1/batch json (key in X-Hny-Team)", "/1/batch", "batch", "", codec.CTJSON, true},
	{"/v1/traces json", "/v1/traces", "otlp-http", "traces", codec.CTJSON, false},
	{"/v1/traces protobuf", "/v1/traces", "otlp-http", "traces", codec.CTProto, false},
	{"/v1/logs json", "/v1/logs", "otlp-http", "logs", codec.CTJSON, false},
	{"/v1/logs protobuf", "/v1/logs", "otlp-http", "logs", codec.CTProto, false},
	{"grpc traces", "grpc-traces", "grpc", "traces", codec.CTProto, false},
	{"grpc logs", "grpc-logs", "grpc", "logs", codec.CTProto, false},
}

var routes = []string{"wire", "collector"} // wire: non-trace event (peer-owned span for OTLP traces); collector: span owned by this node

type caseDesc struct {
	Mode          string   `json:"SendKeyMode"`
	AcceptOnly    bool     `json:"AcceptOnlyListedKeys"`
	SendKey       string   `json:"SendKey"`
	ReceiveKeys   []string `json:"ReceiveKeys"`
	ReceiveKeyIDs []string `json:"ReceiveKeyIDs"`
	Flavour       string   `json:"key_flavour"`
	Client        string   `json:"client_key_class"`
	ClientKey     string   `json:"client_key"`
	ClientKeyID   string   `json:"client_key_id"`
	Endpoint      string   `json:"endpoint"`
	Route         string   `json:"event_route"`
}

type observation struct {
	Status   string   `json:"status"`
	Accepted bool     `json:"accepted"`
	Keys     []string `json:"keys_on_events"` // one entry per observed event: "<where>:<key>"
}

var instant = time.Date(2031, 7, 9, 23, 59, 58, 0, time.UTC)

type idSet struct {
	str  map[string][]string
	otlp map[string][][]byte
}

var ids idSet

func findIDs(n *pipeline.Node) {
	ids.str = map[string][]string{"self": n.TraceIDs(n.Self, 2, "c24-s-"), "peer": n.TraceIDs(n.Peers[0], 2, "c24-p-")}
	ids.otlp = map[string][][]byte{}
	for i := 0; len(ids.otlp["self"]) < 2 || len(ids.otlp["peer"]) < 2; i++ {
		if i > 100000 {
			ev.Harness("no OTLP trace IDs found")
		}
		b := []byte{0xc2, 0x40, 0, 0, 0, 0, 0, 0, 0, 0, 0, 0, 0, 0, byte(i >> 8), byte(i)}
		who := "peer"
		if n.OwnedBySelf(hex.EncodeToString(b)) {
			who = "self"
		}
		if len(ids.otlp[who]) < 2 {
			ids.otlp[who] = append(ids.otlp[who], b)
		}
	}
}

func run(n *pipeline.Node, kc keyConfig, ep endpoint, rt, clientKey string) observation {
	n.Cfg.Mux.Lock()
	n.Cfg.GetAccessKeyConfigVal = config.AccessKeyConfig{ReceiveKeys: kc.ReceiveKeys, ReceiveKeyIDs: kc.ReceiveKeyIDs, SendKey: kc.SendKey,
		SendKeyMode: kc.Mode, AcceptOnlyListedKeys: kc.AcceptOnly}
	n.Cfg.Mux.Unlock()

	const nEvents = 2
	count := nEvents
	if ep.Family == "event" {
		count = 1
	}
	// which trace IDs (if any) the events carry
	owner := ""
	switch {
	case rt == "collector":
		owner = "self"
	case ep.Signal == "traces":
		owner = "peer" // a span always has a trace ID; one owned by the peer goes on the wire at once
	}
	var o observation
	var cr codec.Request
	switch ep.Family {
	case "event", "batch":
		evs := make([]codec.Event, count)
		for i := range evs {
			e := codec.Event{TimeText: instant.Format(time.RFC3339Nano), SampleRate: 1,
				Data: []codec.Field{codec.F("marker", codec.Str(fmt.Sprintf("e%d", i))), codec.F("name", codec.Str("op"))}}
			if ep.CT == codec.CTMsgpack {
				tv := codec.Time(instant, 0)
				e.TimeVal = &tv
			}
			if owner != "" {
				e.Data = append(e.Data, codec.F("trace.trace_id", codec.Str(ids.str[owner][i])), codec.F("trace.parent_id", codec.Str("p")))
			}
			evs[i] = e
		}
		hdrKey := clientKey
		if ep.ShortHeader {
			hdrKey = ""
		}
		if ep.Family == "event" {
			cr = codec.SingleEvent("c24ds", hdrKey, ep.CT, evs[0])
		} else {
			cr = codec.Batch("c24ds", hdrKey, ep.CT, evs...)
		}
		if ep.ShortHeader && clientKey != "" {
			cr = cr.With("X-Hny-Team", clientKey)
		}
	default:
		res := []codec.Field{codec.F("service.name", codec.Str("c24svc"))}
		if ep.Signal == "traces" {
			spans := make([]codec.OTLPSpan, count)
			for i := range spans {
				spans[i] = codec.OTLPSpan{TraceID: ids.otlp[owner][i], SpanID: []byte{1, 2, 3, 4, 5, 6, 7, byte(i + 1)}, ParentSpanID: []byte{9, 9, 9, 9, 9, 9, 9, 9},
					Name: "op", Start: instant, End: instant.Add(time.Millisecond), Attrs: []codec.Field{codec.F("marker", codec.Str(fmt.Sprintf("e%d", i)))}}
			}
			cr = codec.OTLPHTTP("/v1/traces", clientKey, "c24ds", ep.CT, codec.OTLPTraceMessage(res, spans...))
		} else {
			recs := make([]codec.OTLPLog, count)
			for i := range recs {
				recs[i] = codec.OTLPLog{Time: instant, Body: "line", Attrs: []codec.Field{codec.F("marker", codec.Str(fmt.Sprintf("e%d", i)))}}
				if owner != "" {
					recs[i].TraceID, recs[i].SpanID = ids.otlp[owner][i], []byte{1, 2, 3, 4, 5, 6, 7, byte(i + 1)}
				}
			}
			cr = codec.OTLPHTTP("/v1/logs", clientKey, "c24ds", ep.CT, codec.OTLPLogsMessage(res, recs...))
		}
	}
	if ep.Family == "grpc" {
		md := map[string]string{"x-honeycomb-dataset": "c24ds"}
		if clientKey != "" {
			md["x-honeycomb-team"] = clientKey
		}
		var resp any
		var err error
		if ep.Signal == "traces" {
			resp, err = n.GRPCTraceExport(pipeline.Incoming, md, cr.Body)
		} else {
			resp, err = n.GRPCLogsExport(pipeline.Incoming, md, cr.Body)
		}
		o.Accepted = err == nil && resp != nil && !(reflect.ValueOf(resp).Kind() == reflect.Ptr && reflect.ValueOf(resp).IsNil())
		o.Status = "gRPC OK"
		if err != nil {
			o.Status = "gRPC error: " + trunc(err.Error(), 120)
		}
	} else {
		w := httptest.NewRecorder()
		n.ServeHTTP(pipeline.Incoming, w, pipeline.HTTPRequest(cr))
		o.Accepted = w.Code < 400
		o.Status = fmt.Sprintf("HTTP %d", w.Code)
	}
	n.Flush()
	for _, s := range n.Sent() {
		o.Keys = append(o.Keys, s.Dest+":"+s.APIKey)
	}
	for _, rec := range n.Collector.Records() {
		o.Keys = append(o.Keys, "collector:"+rec.APIKey)
	}
	sort.Strings(o.Keys)
	if p := n.DecodeProblems(); len(p) > 0 {
		ev.Harness("undecodable output: %v", p)
	}
	n.Net.Reset()
	n.Collector.Reset()
	if o.Keys == nil {
		o.Keys = []string{}
	}
	return o
}

func trunc(s string, n int) string {
	if len(s) > n {
		return s[:n] + "…"
	}
	return s
}

func main() {
	r := ev.New("C24", "exploration")
	workers := 16
	pool := make(chan *pipeline.Node, workers)
	for i := 0; i < workers; i++ {
		n := pipeline.New(pipeline.Options{})
		n.Net.Auth = func(key string) (string, string, int) { return "c24-env", keyIDOf(key), 200 }
		if i == 0 {
			findIDs(n)
		}
		pool <- n
	}
	mk := func(idx []int) (keyConfig, caseDesc, endpoint) {
		fl := flavours[idx[8]]
		kc := keyConfig{Mode: modes[idx[0]], AcceptOnly: idx[1] == 1, SendKey: []string{"", fl.S}[idx[2]], ReceiveKeys: [][]string{{}, {fl.K}}[idx[3]], ReceiveKeyIDs: [][]string{{}, {fl.IDI}}[idx[4]]}
		class := clientClasses[idx[5]]
		ck := fl.client(class)
		ep := endpoints[idx[6]]
		return kc, caseDesc{Mode: kc.Mode, AcceptOnly: kc.AcceptOnly, SendKey: kc.SendKey, ReceiveKeys: kc.ReceiveKeys, ReceiveKeyIDs: kc.ReceiveKeyIDs,
			Flavour: fl.Flavour, Client: class, ClientKey: ck, ClientKeyID: keyIDSeen(fl, ck), Endpoint: ep.Name, Route: routes[idx[7]]}, ep
	}
	dims := []int{len(modes), 2, 2, 2, 2, len(clientClasses), len(endpoints), len(routes), len(flavours)}

	// determinism self-check: a few cases twice on one node
	{
		n := <-pool
		for _, idx := range [][]int{{1, 1, 1, 1, 1, 4, 7, 0, 0}, {3, 1, 1, 1, 1, 3, 3, 1, 0}, {5, 0, 1, 0, 0, 0, 0, 0, 1}, {4, 1, 1, 1, 1, 3, 4, 0, 1}} {
			kc, d, ep := mk(idx)
			a, b := ev.J(run(n, kc, ep, d.Route, d.ClientKey)), ev.J(run(n, kc, ep, d.Route, d.ClientKey))
			if a != b {
				ev.Harness("case %s observed differently on replay:\n%s\n%s", ev.J(d), a, b)
			}
		}
		pool <- n
	}
	only := os.Getenv("C24_ONLY")

	type finding struct {
		order     int
		sig, what string
		replay    any
	}
	var mu sync.Mutex
	var found []finding
	samples := map[int]any{}
	enumx.Each(r, "key-matrix", dims, workers, func(idx []int) {
		n := <-pool
		defer func() { pool <- n }()
		kc, d, ep := mk(idx)
		o := run(n, kc, ep, d.Route, d.ClientKey)
		want := 2
		if ep.Family == "event" {
			want = 1
		}

		// ---- reference answers (sendkey_table.go)
		auth := kc.authorised(d.ClientKey, d.ClientKeyID)
		allowed := kc.upstreamKeys(d.ClientKey, d.ClientKeyID)
		blankAllowed := contains(allowed, "")
		expect := "rejected"
		if auth {
			expect = "accepted, upstream key " + strings.Join(quoteAll(allowed), " or ")
		}
		if only != "" && strings.Contains(ev.J(d), only) {
			fmt.Printf("%s\n   want: %s\n   got:  %s\n", ev.J(d), expect, ev.J(o))
		}

		fail := func(rule, what string) {
			lin := 0
			for i, x := range idx {
				lin = lin*dims[i] + x
			}
			mu.Lock()
			eff := "unlisted" // the client's key as the configuration sees it
			switch {
			case d.ClientKey == "":
				eff = "blank"
			case kc.listed(d.ClientKey, d.ClientKeyID):
				eff = "listed"
			case kc.SendKey != "" && d.ClientKey == kc.SendKey:
				eff = "sendkey"
			}
			found = append(found, finding{lin, fmt.Sprintf("%s:%s:mode=%s:client=%s", rule, ep.Sig, kc.Mode, eff),
				fmt.Sprintf("%s; expected: %s; observed: %s keys=%v; case=%s", what, expect, o.Status, o.Keys, ev.J(d)), map[string]any{"case": d, "observed": o, "expected": expect}})
			mu.Unlock()
		}
		wrong, blank := []string{}, 0
		for _, k := range o.Keys {
			key := k[strings.Index(k, ":")+1:]
			if key == "" {
				blank++
			} else if !contains(allowed, key) {
				wrong = append(wrong, k)
			}
		}
		switch {
		case blank > 0:
			fail("blank-key-left", fmt.Sprintf("%d event(s) left Refinery (or were buffered for sending) with a blank API key", blank))
		case !auth && (o.Accepted || len(o.Keys) > 0):
			fail("unauthorised-accepted", "AcceptOnlyListedKeys is on and the client's key is neither listed (by key or key ID) nor equal to SendKey, yet the request was accepted")
		case !o.Accepted && len(o.Keys) > 0:
			fail("rejected-but-forwarded", "the request was refused but its events were forwarded")
		case auth && !blankAllowed && !o.Accepted:
			fail("authorised-rejected", "the statement's acceptance condition holds and the documented table gives a usable key, yet the request was refused")
		case auth && len(wrong) > 0:
			fail("wrong-upstream-key", fmt.Sprintf("event(s) carry a key other than the documented one: %v", wrong))
		case auth && o.Accepted && !blankAllowed && len(o.Keys) != want:
			fail("accepted-events-missing", fmt.Sprintf("accepted request of %d event(s) produced %d forwarded/buffered event(s)", want, len(o.Keys)))
		}

		// ---- coverage
		cls := "accepted:own-key"
		switch {
		case !auth:
			cls = "rejected:unauthorised"
		case blankAllowed && len(allowed) == 1:
			cls = "no-usable-key"
		case blankAllowed:
			cls = "open-cell"
		case allowed[0] != d.ClientKey:
			cls = "accepted:replaced"
		}
		r.Add("expect_"+cls, 1)
		if cls != "accepted:own-key" {
			r.Distinct("distinct_nontrivial", fmt.Sprintf("%s|%v|%s|%v|%v|%s|%s", kc.Mode, kc.AcceptOnly, kc.SendKey, kc.ReceiveKeys, kc.ReceiveKeyIDs, d.Client, cls))
		}
		r.Distinct("observed_outcomes", fmt.Sprintf("%s|%v|%v", ep.Sig, o.Accepted, keyClasses(o.Keys, d.ClientKey, flavours[idx[8]].S)))
		if cls != "accepted:own-key" && idx[6] == 7 && idx[7] == 0 && idx[8] == 0 && idx[2] == 1 && idx[3] == 1 && idx[4] == 1 && idx[1] == 1 && idx[5] >= 3 {
			lin := 0
			for i, x := range idx {
				lin = lin*dims[i] + x
			}
			mu.Lock()
			samples[lin] = map[string]any{"case": d, "expected": expect, "observed": o}
			mu.Unlock()
		}
	})
	for i := 0; i < workers; i++ {
		(<-pool).Close()
	}
	// report in enumeration order (simplest failing case of each class first), independent of worker scheduling
	sort.Slice(found, func(i, j int) bool { return found[i].order < found[j].order })
	perSig := map[string]int{}
	for _, f := range found {
		perSig[f.sig]++
	}
	for _, f := range found {
		if n := perSig[f.sig]; n > 0 {
			r.Violation(f.sig, fmt.Sprintf("%s; %d failing case(s) in this class", f.what, n), f.replay)
			perSig[f.sig] = 0
		}
	}
	outagePart(r)
	r.Set("failing_cases", len(found))
	var sk []int
	for k := range samples {
		sk = append(sk, k)
	}
	sort.Ints(sk)
	for _, k := range sk {
		r.Sample(samples[k])
	}
	r.Set("rule", "per case: authorised := ¬AcceptOnlyListedKeys ∨ client key ∈ ReceiveKeys ∨ key ID ∈ ReceiveKeyIDs ∨ (SendKey set ∧ client key = SendKey); ¬authorised ⇒ refused and nothing forwarded; authorised ∧ documented key non-blank ⇒ accepted and every event (X-Honeycomb-Team of the decoded /1/batch request on the wire, or the span handed to the collector) carries exactly the documented key; no event anywhere with a blank key; refused ⇒ nothing forwarded")
	r.Set("bounds", map[string]any{"modes": modes, "AcceptOnlyListedKeys": []bool{false, true}, "SendKey": []string{"unset", "S"}, "ReceiveKeys": "∅ | {K}", "ReceiveKeyIDs": "∅ | {I}",
		"client_keys": []string{"blank", "S", "K", "key with ID I", "unlisted U"}, "key_flavours": []string{"E&S (environment + key ID)", "classic (32 hex, no key ID)"}, "endpoints": len(endpoints), "routes": routes})
	r.Assume("'listed' = the key is in ReceiveKeys or its key ID (id of GET /1/auth) is in ReceiveKeyIDs, in the acceptance condition AND in the listedonly/unlisted rows of the table (both settings are documented as keys 'the proxy will treat specially'); a blank key is never listed")
	r.Assume("'equals SendKey' requires a configured (non-empty) SendKey; with SendKey unset every mode leaves the client's key alone")
	r.Assume("a request whose documented upstream key is blank cannot satisfy both 'accepted' and 'never leaves with a blank key': for those cells only 'nothing leaves with a blank (or any undocumented) key' is checked, refusal is allowed")
	r.Assume("mode unlisted with a blank client key: the table row says SendKey for all events except listed ones, but does not say 'even missing ones' as the row for `all` does; both 'sent with SendKey' and 'refused as blank' are accepted")
	r.Assume("scope: client-facing listener; within one case all keys have the same flavour (E&S or classic); a classic key has no key ID, so ReceiveKeyIDs cannot list it; what a refusal's status code is (401 / Unauthenticated) is not checked, only refused vs accepted")
	r.Assume("a span owned by this node is observed at hand-over to the collector (the key it will later be sent with); everything else on the in-memory wire")
	r.Finish()
}

func quoteAll(l []string) []string {
	out := make([]string, len(l))
	for i, s := range l {
		out[i] = fmt.Sprintf("%q", s)
	}
	return out
}

func keyClasses(keys []string, client, sendKey string) []string {
	set := map[string]bool{}
	for _, k := range keys {
		key := k[strings.Index(k, ":")+1:]
		switch key {
		case "":
			set["blank"] = true
		case client:
			set["client"] = true
		case sendKey:
			set["sendkey"] = true
		default:
			set["other"] = true
		}
	}
	var out []string
	for k := range set {
		out = append(out, k)
	}
	sort.Strings(out)
	return out
}
