package main

// Reference model for C24, transcribed from the user documentation — NOT from config/file_config.go.
//
// Sources (config.md / refinery_config.md, section "Access Key Configuration"; README.md "Managing Keys"):
//
//   AcceptOnlyListedKeys  "If true, then only traffic using the keys listed in ReceiveKeys or whose key ID is listed in
//                          ReceiveKeyIDs is accepted. Events arriving with API keys not in either list will be rejected
//                          with an HTTP 401 error. If false, then all traffic is accepted and ReceiveKeys is ignored.
//                          This setting is applied **before** the SendKey and SendKeyMode settings."
//   ReceiveKeyIDs         "traffic using an API key whose Honeycomb ingest key ID matches an entry in this list will be
//                          accepted. The key ID is the id field returned by the Honeycomb /1/auth endpoint"
//   SendKey               "If SendKey is set to a valid Honeycomb key, then Refinery can use the listed key to send data.
//                          The exact behavior depends on the value of SendKeyMode."
//   SendKeyMode table:
//     none         "uses the incoming key for all telemetry (default)"
//     all          "overwrites all keys, even missing ones, with SendKey"
//     nonblank     "overwrites all supplied keys but will not inject SendKey if the incoming key is blank"
//     listedonly   "overwrites only the keys listed in ReceiveKeys"
//     unlisted     "uses the SendKey for all events *except* those with keys listed in ReceiveKeys, which use their
//                   original keys"
//     missingonly  "uses the SendKey only to inject keys into events with blank keys. All other events use their
//                   original keys."
//
// The property statement adds: accepted ⇔ AcceptOnlyListedKeys off ∨ client key (or its key ID) listed ∨ client key
// equals SendKey; and no event ever leaves with a blank API key.

var modes = []string{"none", "all", "nonblank", "listedonly", "unlisted", "missingonly"}

type keyConfig struct {
	Mode          string
	AcceptOnly    bool
	SendKey       string
	ReceiveKeys   []string
	ReceiveKeyIDs []string
}

func contains(l []string, s string) bool {
	for _, x := range l {
		if x == s {
			return true
		}
	}
	return false
}

// listed: "the key the client sent (or its key ID) is listed". A blank key / absent key ID is never listed.
func (c keyConfig) listed(clientKey, clientKeyID string) bool {
	return (clientKey != "" && contains(c.ReceiveKeys, clientKey)) || (clientKeyID != "" && contains(c.ReceiveKeyIDs, clientKeyID))
}

// authorised is the statement's acceptance condition. "equals SendKey" needs a configured SendKey.
func (c keyConfig) authorised(clientKey, clientKeyID string) bool {
	return !c.AcceptOnly || c.listed(clientKey, clientKeyID) || (c.SendKey != "" && clientKey == c.SendKey)
}

// upstreamKeys is the documented table: the key(s) the client's events may leave with ("" = blank: such an event
// must not leave at all). More than one entry = the documentation leaves the cell open (see main.go assumptions).
func (c keyConfig) upstreamKeys(clientKey, clientKeyID string) []string {
	if c.SendKey == "" { // nothing to replace with
		return []string{clientKey}
	}
	switch c.Mode {
	case "none":
		return []string{clientKey}
	case "all":
		return []string{c.SendKey}
	case "nonblank":
		if clientKey == "" {
			return []string{""}
		}
		return []string{c.SendKey}
	case "listedonly":
		if c.listed(clientKey, clientKeyID) {
			return []string{c.SendKey}
		}
		return []string{clientKey}
	case "unlisted":
		if c.listed(clientKey, clientKeyID) {
			return []string{clientKey}
		}
		if clientKey == "" {
			// "all events except those with keys listed" reads as SendKey for a blank key too, but unlike `all` the row
			// does not say "even missing ones" and README presents the mode as key *replacement*: either is accepted.
			return []string{c.SendKey, ""}
		}
		return []string{c.SendKey}
	case "missingonly":
		if clientKey == "" {
			return []string{c.SendKey}
		}
		return []string{clientKey}
	}
	panic("unknown mode " + c.Mode)
}
