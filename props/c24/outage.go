// C24, part 2: the key ID behind the rule. Part 1 judges every (configuration, key, endpoint) case on a node whose
// /1/auth lookups always succeed. Here the lookup itself has a history: the Honeycomb API goes down and comes back
// between requests. Exhaustive: every sequence of {request with the key whose ID is listed, request with an unlisted
// key, API down, API up} up to the depth bound × two configurations in which the key ID decides × endpoint families,
// each history on a fresh node (fresh key-ID cache). Oracle = the statement's rule, evaluated with the key ID the API
// gives: while the API answers it is the only view allowed; while it is down a request may also be judged without the
// ID (Refinery cannot know it) or refused outright, but never forwarded with a key the table does not give.
package main

import (
	"fmt"
	"strings"
	"sync"
	"sync/atomic"

	"verif/engine/enumx"
	"verif/engine/ev"
	"verif/fix/pipeline"
)

func outagePart(r *ev.Run) {
	fl := flavours[0]
	cfgs := []keyConfig{
		{Mode: "none", AcceptOnly: true, ReceiveKeyIDs: []string{fl.IDI}},
		{Mode: "listedonly", AcceptOnly: false, SendKey: fl.S, ReceiveKeyIDs: []string{fl.IDI}},
		{Mode: "unlisted", AcceptOnly: false, SendKey: fl.S, ReceiveKeyIDs: []string{fl.IDI}},
	}
	var eps []endpoint
	seen := map[string]bool{}
	for _, ep := range endpoints { // one endpoint per family/signal: the key-ID lookup is shared, the call sites are not
		k := ep.Family + "/" + ep.Signal
		if !seen[k] && !ep.ShortHeader {
			seen[k] = true
			eps = append(eps, ep)
		}
	}
	ops := []string{"req-id-listed", "api-down", "api-up", "req-unlisted"}
	depth := ev.Pick(r, 4, 6)
	dims := []int{len(cfgs), len(eps)}
	for i := 0; i < depth; i++ {
		dims = append(dims, len(ops))
	}
	type finding struct {
		order     int
		sig, what string
		replay    any
	}
	var mu sync.Mutex
	var found []finding
	enumx.Each(r, "key-id-lookup-outage-histories", dims, 16, func(idx []int) {
		kc, ep := cfgs[idx[0]], eps[idx[1]]
		var up atomic.Bool
		up.Store(true)
		n := pipeline.New(pipeline.Options{})
		defer n.Close()
		n.Net.Auth = func(key string) (string, string, int) {
			if !up.Load() {
				return "", "", 503
			}
			return "c24-env", keyIDOf(key), 200
		}
		var hist []string
		want := 2
		if ep.Family == "event" {
			want = 1
		}
		for _, oi := range idx[2:] {
			op := ops[oi]
			hist = append(hist, op)
			switch op {
			case "api-down":
				up.Store(false)
				continue
			case "api-up":
				up.Store(true)
				continue
			}
			ck := fl.KI
			if op == "req-unlisted" {
				ck = fl.U
			}
			o := run(n, kc, ep, "wire", ck)
			views := []string{keyIDOf(ck)}
			if !up.Load() {
				views = append(views, "")
			}
			ok := !up.Load() && !o.Accepted && len(o.Keys) == 0 // API down: a clean refusal is always acceptable
			var expect []string
			for _, id := range views {
				auth, allowed := kc.authorised(ck, id), kc.upstreamKeys(ck, id)
				if auth {
					expect = append(expect, fmt.Sprintf("(key ID %q) accepted, upstream key %s", id, strings.Join(quoteAll(allowed), " or ")))
					good := o.Accepted && len(o.Keys) == want
					for _, k := range o.Keys {
						if !contains(allowed, k[strings.Index(k, ":")+1:]) {
							good = false
						}
					}
					ok = ok || good
				} else {
					expect = append(expect, fmt.Sprintf("(key ID %q) refused", id))
					ok = ok || (!o.Accepted && len(o.Keys) == 0)
				}
			}
			state := "while-the-api-answers"
			if !up.Load() {
				state = "while-the-api-is-down"
			}
			r.Distinct("outage_outcomes", fmt.Sprintf("%s|%s|%s|%v|%d", kc.Mode, op, state, o.Accepted, len(o.Keys)))
			if !ok {
				lin := 0
				for i, x := range idx {
					lin = lin*dims[i] + x
				}
				mu.Lock()
				found = append(found, finding{lin, fmt.Sprintf("outage:%s:%s:mode=%s:%s", op, state, kc.Mode, ep.Sig),
					fmt.Sprintf("history %v on a fresh node, %s, AcceptOnlyListedKeys=%v ReceiveKeyIDs=%v SendKey=%q: expected %s; observed %s keys=%v",
						hist, ep.Name, kc.AcceptOnly, kc.ReceiveKeyIDs, kc.SendKey, strings.Join(expect, " | "), o.Status, o.Keys),
					map[string]any{"config": kc, "endpoint": ep.Name, "history": append([]string{}, hist...), "observed": o}})
				mu.Unlock()
				return
			}
		}
	})
	sortFindings := func() {
		for i := range found {
			for j := i + 1; j < len(found); j++ {
				if found[j].order < found[i].order {
					found[i], found[j] = found[j], found[i]
				}
			}
		}
	}
	sortFindings()
	done := map[string]bool{}
	for _, f := range found {
		if !done[f.sig] {
			done[f.sig] = true
			r.Violation(f.sig, f.what, f.replay)
		}
	}
	r.Set("outage_bounds", map[string]any{"ops": ops, "depth": depth, "configs": len(cfgs), "endpoints": len(eps)})
	r.Assume("outage part: a failed /1/auth lookup (HTTP 503) is the outage; while the API is down a request may be judged with or without the key ID or be refused; the cache TTL (1 h) does not elapse within a history")
}
