// C11, part N: key fields that are PRESENT with a null value (JSON null / msgpack nil), on every payload representation.
//
// The statement quantifies over the values a configured field takes; a field that is present with a null value has taken a
// value (Payload.Exists is true for it), so for the separation clause ("traces whose fields are all present and differ in
// some field's value set get different keys") the sets {200, null} and {200}, or {null} and {"a"}, are different value sets
// of a field that is present on every span. The main enumeration leaves traces with a null out of O2; this part counts the
// null as a member of the value set (distinct from every other value of the domain; the domain holds no string that could be
// confused with any rendering of a null) and enumerates, besides the values, the REPRESENTATION of every span's payload:
//
//	map          types.NewPayload over a map (JSON event / OTLP path)
//	msgpack+memo serialized msgpack, key fields memoized (what the collector does before it asks the sampler)
//	msgpack      serialized msgpack, nothing memoized (every Exists / Get walks the serialized bytes)
//
// Oracles are the ones of the main part, over this alphabet: O1 same typed value sets (null is a value, the representation
// is not part of the determinant) => same key; O2 every configured field present on every span (root. fields: on an existing
// root), value sets differ => keys differ. Nothing is demanded about a null versus an ABSENT field: a trace in which a field
// is absent somewhere is not "all present" and is not eligible for O2.
package main

import (
	"encoding/binary"
	"fmt"
	"math"
	"reflect"
	"sort"

	"github.com/honeycombio/refinery/types"

	"verif/engine/enumx"
	"verif/engine/ev"
)

const (
	repMap uint8 = iota
	repMsgpMemo
	repMsgp
)

var repNames = []string{"map", "msgpack+memo", "msgpack"}

// nullIsAValue: rendered() gives a null the member nullMark instead of declaring the trace not eligible for O2.
// Only ever switched while no enumeration is running.
var nullIsAValue bool

const nullMark = "\x00null"

// msgpackPayload serializes m (keys in sorted order) and hands the bytes to a Payload the way the msgpack decoders do.
func msgpackPayload(m map[string]any, memoize bool) types.Payload {
	keys := make([]string, 0, len(m))
	for k := range m {
		keys = append(keys, k)
	}
	sort.Strings(keys)
	if len(keys) > 15 {
		ev.Harness("msgpackPayload: more than 15 fields")
	}
	str := func(b []byte, s string) []byte {
		if len(s) > 31 {
			ev.Harness("msgpackPayload: string longer than 31 bytes")
		}
		return append(append(b, 0xa0|byte(len(s))), s...)
	}
	b := []byte{0x80 | byte(len(keys))}
	for _, k := range keys {
		b = str(b, k)
		switch x := m[k].(type) {
		case nil:
			b = append(b, 0xc0)
		case string:
			b = str(b, x)
		case int64:
			b = binary.BigEndian.AppendUint64(append(b, 0xd3), uint64(x))
		case float64:
			b = binary.BigEndian.AppendUint64(append(b, 0xcb), math.Float64bits(x))
		case bool:
			if x {
				b = append(b, 0xc3)
			} else {
				b = append(b, 0xc2)
			}
		default:
			ev.Harness("msgpackPayload: unsupported value %T", x)
		}
	}
	p := types.NewPayload(mockCfg, nil)
	if err := p.UnmarshalMsgpack(b); err != nil {
		ev.Harness("msgpackPayload: %v", err)
	}
	if memoize {
		p.MemoizeFields("f", "g")
	}
	return p
}

func nullPhase(r *ev.Run) {
	fVals := []val{absent, pv(nil), pv(int64(200)), pv("a")}
	gVals := []val{absent, pv(nil), pv("a")}
	var shapes []spanT
	for _, f := range fVals {
		for _, g := range gVals {
			shapes = append(shapes, spanT{f, g})
		}
	}
	// harness self-test (Payload only, the key builder is not involved): every representation of every span shape
	// answers Exists / Get like the map it was made from
	for _, s := range shapes {
		for rp := range repNames {
			tr := traceD{[]spanT{s}, -1, []uint8{uint8(rp)}}.build()
			d := tr.GetSpans()[0].Data
			for name, v := range map[string]val{"f": s.f, "g": s.g} {
				if d.Exists(name) != v.present || (v.present && !reflect.DeepEqual(d.Get(name), v.v)) {
					ev.Harness("%s payload of %v: field %s Exists=%v Get=%#v, the span was built with %s", repNames[rp], s, name, d.Exists(name), d.Get(name), v.typed())
				}
			}
		}
	}

	saveDet, saveKey := byDet, byKey
	byDet, byKey = nil, nil
	for range cfgs {
		var a, b []*store
		for range typeNames {
			a = append(a, &store{m: map[string]map[string]rep{}})
			b = append(b, &store{m: map[string]map[string]rep{}})
		}
		byDet, byKey = append(byDet, a), append(byKey, b)
	}
	nullIsAValue = true

	type phase struct {
		n    int
		reps int // representations per span: the first `reps` of repNames
	}
	phases := []phase{{1, 3}, {2, 3}, {3, 2}}
	if r.Thorough() {
		phases = append(phases, phase{3, 3})
	}
	var bounds []string
	for _, ph := range phases {
		nt := len(shapes) * ph.reps
		dims := []int{ph.n + 1}
		for i := 0; i < ph.n; i++ {
			dims = append(dims, nt)
		}
		base := orderBase
		span := int64(1) // order below is computed in base nt+1
		for range dims {
			span *= int64(nt + 1)
		}
		orderBase += span
		bounds = append(bounds, fmt.Sprintf("%d spans over %d span shapes x %d payload representations per span x %d root choices", ph.n, len(shapes), ph.reps, ph.n+1))
		ph := ph
		enumx.Each(r, fmt.Sprintf("null n=%d reps=%d", ph.n, ph.reps), dims, 16, func(idx []int) {
			ss := getSet()
			t := traceD{root: idx[0] - 1}
			var order int64
			for _, i := range idx {
				order = order*int64(nt+1) + int64(i)
			}
			for _, i := range idx[1:] {
				t.spans = append(t.spans, shapes[i/ph.reps])
				t.reps = append(t.reps, uint8(i%ph.reps))
			}
			evalTrace(r, ss, t, base+order)
			putSet(ss)
			r.Add("sampler_calls", int64(len(cfgs)*len(typeNames)))
			r.Add("null_part_traces", 1)
		})
	}
	judge(r)

	nullIsAValue = false
	byDet, byKey = saveDet, saveKey
	r.Set("null_part_bounds", map[string]any{"traces": bounds, "f_values": "absent,null,200,\"a\"", "g_values": "absent,null,\"a\"",
		"representations": repNames, "field_lists": fieldLists, "use_trace_length": []bool{false, true}, "samplers": typeNames})
	r.Set("null_part_rule", "a field present with a null value has taken a value: same typed value sets (null included; whatever the payload representation of each span) => same key; every configured field present on every span and value sets differ (null is a member, distinct from every other value) => different keys; null versus absent is not judged (an absent field makes the trace not 'all present')")
	r.Assume("null part: the payload representations are map-backed (types.NewPayload), serialized msgpack with the key fields memoized (Payload.MemoizeFields, as the collector does before sampling) and serialized msgpack with nothing memoized; msgpack is hand-encoded (fixmap/fixstr/nil/int64) and checked against Payload.Exists/Get before use; the value domain holds no string equal to a rendering of null")
}
