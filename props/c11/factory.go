// C11, factory part: SEVERAL samplers built by ONE real sample.SamplerFactory.
//
// The collector never builds one sampler: every worker asks the one SamplerFactory of the process for a sampler
// per environment / dataset (GetSamplerImplementationForKey), a rules-based sampler asks it for one downstream
// sampler per rule (GetDownstreamSampler), and after every configuration reload (ClearDynsamplers + workers drop
// their samplers) all of them are built again. The statement says a trace's key is determined by the trace's
// determinant under the sampler's OWN configuration (field list, root. prefixes, UseTraceLength); so it cannot
// depend on which other samplers the factory built before, in which order, or before which reload.
//
// Engine E2 (enumx): every HISTORY of the shapes below over the sampler definitions
//
//	D = {5 sampler types} x {[f],[f,g],[g,f],[root.f,g]} x {UseTraceLength off,on} x {top-level, downstream of a rule}
//
// is run on a fresh real factory over a REAL file configuration (config.NewConfig on generated YAML; a reload is a
// real fileConfig.Reload() of a rewritten rules file, whose reload callback does what InMemCollector.reloadConfigs
// does with the factory: ClearDynsamplers, after which all samplers are dropped, as the collector workers do):
//
//	A2  create X, create Y                  two environments (two workers of one environment when X = Y): all ordered pairs of D
//	A3  create X, create Y, create Z        all ordered triples (quick: of 3 sampler types, top-level; thorough: of all top-level)
//	B1  create e = X | RELOAD e := Y | create e | RELOAD e := X | create e          all ordered pairs of D
//	B2  ONE rules-based environment whose two rules have the downstream samplers X (first rule) and Y (second rule)
//	B3  (thorough) create e = X, create e' = Y | RELOAD e := Z | create e     all triples of the top-level definitions
//	B4  (thorough) create e = X | RELOAD e := Y | create e | RELOAD e := Z | create e    all triples of a reduced D
//
// After EVERY creation ALL live samplers are evaluated on the trace set T (so a later creation may not change an
// earlier sampler either). Oracle F: the key vector of a sampler over T equals the key vector of a sampler with the
// same definition that a fresh factory built ALONE (that reference vector is itself judged against the
// determinant); every rate >= 1. A mismatch is classified by the clause of the statement it breaks (which part of
// the determinant the key gained or lost).
//
// Histories that share their sequence of configurations run in lockstep on one configuration object, each on its
// own factory (a reload costs ~10 ms of YAML parsing and validation; the factories are independent objects and the
// configuration is only read by them).
package main

import (
	"fmt"
	"os"
	"path/filepath"
	"reflect"
	"sort"
	"strings"
	"sync"
	"sync/atomic"

	"github.com/honeycombio/refinery/config"
	"github.com/honeycombio/refinery/logger"
	"github.com/honeycombio/refinery/metrics"
	"github.com/honeycombio/refinery/sample"
	"github.com/honeycombio/refinery/types"

	"verif/engine/enumx"
	"verif/engine/ev"
)

// ---- sampler definitions --------------------------------------------------------------------------------

type sdef struct {
	typ  int // index into typeNames
	cfg  int // index into cfgs (field list x UseTraceLength)
	rule bool
}

func (d sdef) String() string {
	s := typeNames[d.typ] + cfgs[d.cfg].name
	if d.rule {
		s += "@rule"
	}
	return s
}

var (
	fdefs  []sdef // all definitions; the first half are the top-level ones
	defIdx = map[sdef]int{}
)

func yamlList(l []string) string {
	var q []string
	for _, s := range l {
		q = append(q, fmt.Sprintf("%q", s))
	}
	return "[" + strings.Join(q, ", ") + "]"
}

// samplerYAML renders the sampler definition (type + settings) as YAML lines indented by ind.
func samplerYAML(d sdef, ind string) string {
	c := cfgs[d.cfg]
	var l []string
	switch d.typ {
	case 0:
		l = []string{"SampleRate: 2", "ClearFrequency: 24h"}
	case 1:
		l = []string{"GoalSampleRate: 2", "AdjustmentInterval: 24h", "Weight: 0.5"}
	case 2:
		l = []string{"GoalThroughputPerSec: 100", "InitialSampleRate: 2", "AdjustmentInterval: 24h", "Weight: 0.5"}
	case 3:
		l = []string{"GoalThroughputPerSec: 100", "UpdateFrequency: 24h", "LookbackFrequency: 48h"}
	default:
		l = []string{"GoalThroughputPerSec: 100", "ClearFrequency: 24h"}
	}
	l = append(l, "FieldList: "+yamlList(c.fields), fmt.Sprintf("UseTraceLength: %v", c.utl))
	out := ind + typeNames[d.typ] + ":\n"
	for _, x := range l {
		out += ind + "  " + x + "\n"
	}
	return out
}

// envSpec: what one environment is configured with: one top-level sampler, or a rules-based sampler whose rules
// (all but the last conditional on the presence of the field "sel", the last one unconditional) have downstream samplers.
type envSpec struct {
	defs  []sdef
	rules bool
}

func specOf(d sdef) envSpec { return envSpec{[]sdef{d}, d.rule} }

func (e envSpec) String() string {
	var dn []string
	for _, d := range e.defs {
		dn = append(dn, d.String())
	}
	if e.rules && len(e.defs) > 1 {
		return "rules(" + strings.Join(dn, " ; ") + ")"
	}
	return dn[0]
}

func (e envSpec) yaml(name string) string {
	out := "  " + name + ":\n"
	if !e.rules {
		return out + samplerYAML(e.defs[0], "    ")
	}
	out += "    RulesBasedSampler:\n      Rules:\n"
	for i, d := range e.defs {
		out += fmt.Sprintf("        - Name: r%d\n", i+1)
		if i < len(e.defs)-1 {
			out += "          Conditions:\n            - Field: sel\n              Operator: exists\n"
		}
		out += "          Sampler:\n" + samplerYAML(d, "            ")
	}
	return out
}

const rulesHead = "RulesVersion: 2\nSamplers:\n  __default__:\n    DeterministicSampler:\n      SampleRate: 1\n"
const mainCfgBody = "General:\n  ConfigurationVersion: 2\n"

// cfgState: the sampler rules of one configuration: environment name -> spec.
type cfgState struct {
	names []string
	specs []envSpec
}

func (c cfgState) yaml() string {
	out := rulesHead
	for i, s := range c.specs {
		out += s.yaml(c.names[i])
	}
	return out
}

func (c cfgState) spec(name string) envSpec {
	for i, n := range c.names {
		if n == name {
			return c.specs[i]
		}
	}
	ev.Harness("no environment %s in the configuration", name)
	return envSpec{}
}

// ---- a real file configuration --------------------------------------------------------------------------

type fileCfg struct {
	rulesPath string
	cfg       config.Config
	body      string // the rules file as last loaded
	onReload  func() // what the reload callback does for the running batch
	fired     int    // reload callbacks seen
}

var (
	workRoot   string
	cfgCounter int
	cfgMu      sync.Mutex
)

func newFileCfg(st cfgState) *fileCfg {
	cfgMu.Lock()
	cfgCounter++
	n := cfgCounter
	cfgMu.Unlock()
	dir := filepath.Join(workRoot, fmt.Sprintf("c11cfg%03d", n))
	if err := os.MkdirAll(dir, 0o755); err != nil {
		ev.Harness("mkdir: %v", err)
	}
	cp := filepath.Join(dir, "config.yaml")
	fc := &fileCfg{rulesPath: filepath.Join(dir, "rules.yaml"), body: st.yaml()}
	if err := os.WriteFile(cp, []byte(mainCfgBody), 0o644); err != nil {
		ev.Harness("write: %v", err)
	}
	if err := os.WriteFile(fc.rulesPath, []byte(fc.body), 0o644); err != nil {
		ev.Harness("write: %v", err)
	}
	c, err := config.NewConfig(&config.CmdEnv{ConfigLocations: []string{cp}, RulesLocations: []string{fc.rulesPath}})
	if c == nil {
		ev.Harness("the generated configuration does not load: %v\n%s", err, fc.body)
	}
	fc.cfg = c
	c.RegisterReloadCallback(func(string, string) {
		fc.fired++
		if fc.onReload != nil {
			fc.onReload()
		}
	})
	fc.verify(st)
	return fc
}

// reload rewrites the rules file and reloads it through the real fileConfig.Reload; the reload callback must run
// exactly when the rules changed.
func (fc *fileCfg) reload(st cfgState) {
	body := st.yaml()
	if err := os.WriteFile(fc.rulesPath, []byte(body), 0o644); err != nil {
		ev.Harness("write: %v", err)
	}
	before := fc.fired
	if err := fc.cfg.Reload(); err != nil {
		ev.Harness("the generated configuration does not reload: %v\n%s", err, body)
	}
	if changed := body != fc.body; changed != (fc.fired == before+1) {
		ev.Harness("reload: rules changed=%v but %d reload callbacks ran", changed, fc.fired-before)
	}
	fc.body = body
	fc.verify(st)
}

// verify: the loaded configuration says what the history meant to configure (guards the YAML generator).
func (fc *fileCfg) verify(st cfgState) {
	for i, name := range st.names {
		s := st.specs[i]
		got, tn := fc.cfg.GetSamplerConfigForDestName(name)
		check := func(got any, d sdef) {
			want := samplerConfig(d.typ, cfgs[d.cfg].fields, cfgs[d.cfg].utl, 2)
			gv, wv := reflect.ValueOf(got), reflect.ValueOf(want)
			if gv.Type() != wv.Type() || gv.IsNil() {
				ev.Harness("environment %s is configured with %T, wanted %T", name, got, want)
			}
			for _, f := range []string{"FieldList", "UseTraceLength"} {
				if !reflect.DeepEqual(gv.Elem().FieldByName(f).Interface(), wv.Elem().FieldByName(f).Interface()) {
					ev.Harness("environment %s: %s is %v, wanted %v", name, f, gv.Elem().FieldByName(f).Interface(), wv.Elem().FieldByName(f).Interface())
				}
			}
		}
		if !s.rules {
			if tn != typeNames[s.defs[0].typ] {
				ev.Harness("environment %s is configured with a %s, wanted %s", name, tn, typeNames[s.defs[0].typ])
			}
			check(got, s.defs[0])
			continue
		}
		rb, ok := got.(*config.RulesBasedSamplerConfig)
		if !ok || len(rb.Rules) != len(s.defs) {
			ev.Harness("environment %s is configured with %T, wanted a rules-based sampler with %d rules", name, got, len(s.defs))
		}
		for i, d := range s.defs {
			ds := rb.Rules[i].Sampler
			if ds == nil {
				ev.Harness("environment %s rule %d has no downstream sampler", name, i+1)
			}
			var c any
			switch d.typ {
			case 0:
				c = ds.DynamicSampler
			case 1:
				c = ds.EMADynamicSampler
			case 2:
				c = ds.EMAThroughputSampler
			case 3:
				c = ds.WindowedThroughputSampler
			default:
				c = ds.TotalThroughputSampler
			}
			check(c, d)
		}
	}
}

// ---- trace set ------------------------------------------------------------------------------------------

var (
	fT      []traceD
	fTAll   []int // every index of fT
	fTShort []int // the traces of at most 2 spans
)

func buildSel(t traceD, sel bool) *types.Trace {
	tr := &types.Trace{TraceID: "t1"}
	for i, s := range t.spans {
		m := map[string]any{"other": "x", "span.no": int64(i)}
		if s.f.present {
			m["f"] = s.f.v
		}
		if s.g.present {
			m["g"] = s.g.v
		}
		if sel {
			m["sel"] = int64(1)
		}
		sp := &types.Span{TraceID: "t1", Event: &types.Event{Data: types.NewPayload(mockCfg, m)}}
		tr.AddSpan(sp)
		if i == t.root {
			tr.RootSpan = sp
		}
	}
	return tr
}

func makeTraceSet() []string {
	full := []spanT{{pv("a"), pv("b")}, {pv("c"), pv("b")}, {pv("b"), pv("a")}, {pv("a"), absent}}
	two := full[:2]
	var desc []string
	add := func(n int, types []spanT) {
		idx := make([]int, n)
		for {
			for root := -1; root < n; root++ {
				t := traceD{root: root}
				for _, i := range idx {
					t.spans = append(t.spans, types[i])
				}
				fTAll = append(fTAll, len(fT))
				if n <= 2 {
					fTShort = append(fTShort, len(fT))
				}
				fT = append(fT, t)
			}
			k := n - 1
			for ; k >= 0; k-- {
				idx[k]++
				if idx[k] < len(types) {
					break
				}
				idx[k] = 0
			}
			if k < 0 {
				break
			}
		}
		desc = append(desc, fmt.Sprintf("%d spans over %d span types x %d root choices", n, len(types), n+1))
	}
	add(1, full)
	add(2, full)
	add(3, two)
	return desc
}

// ---- reference: the same definition built alone -----------------------------------------------------------

var (
	fRef      [][]string // [def][trace] key
	fDetTyped [][]string // [cfg][trace] determinant (typed)
	fValTyped [][]string // [cfg][trace] typed value sets (without the span count)
	fValRend  [][]string // [cfg][trace] rendered value sets
	fElig     [][]bool   // [cfg][trace] eligible for separation
)

type liveSampler struct {
	d   int
	s   sample.Sampler
	sel bool // reached through the conditional rule: evaluated on the traces that carry the field sel
	how string
}

// hist: one history = one factory, the samplers it handed out since the last reload, and what happened so far.
type hist struct {
	order   int64
	factory *sample.SamplerFactory
	live    []liveSampler
	desc    []string
}

func (h *hist) String() string { return strings.Join(h.desc, " ") }

func newHist(c config.Config, order int64) *hist {
	f := &sample.SamplerFactory{Config: c, Logger: &logger.NullLogger{}, Metrics: &metrics.NullMetrics{}}
	if err := f.Start(); err != nil {
		ev.Harness("factory start: %v", err)
	}
	return &hist{order: order, factory: f}
}

// worker: one goroutine's copies of the trace set (a sampler memoizes on the spans it is given).
type worker struct {
	traces, tracesSel []*types.Trace
	k                 []string
}

func newWorker() *worker {
	w := &worker{k: make([]string, len(fT))}
	for _, t := range fT {
		w.traces = append(w.traces, buildSel(t, false))
		w.tracesSel = append(w.tracesSel, buildSel(t, true))
	}
	return w
}

func (w *worker) keys(h *hist, l liveSampler, sub []int) []string {
	trs := w.traces
	if l.sel {
		trs = w.tracesSel
	}
	for _, i := range sub {
		rate, _, _, key := l.s.GetSampleRate(trs[i])
		if rate < 1 {
			report("rate-below-1/"+typeNames[fdefs[l.d].typ], h.order, fmt.Sprintf("history [%s]: %s returned rate %d for %s", h, fdefs[l.d], rate, fT[i]),
				map[string]any{"history": h.String(), "sampler": fdefs[l.d].String(), "trace": fT[i].String()})
		}
		w.k[i] = key
	}
	return w.k
}

// classify names the clause a key vector (over the traces sub) breaks, given the sampler's own configuration.
func classify(ci int, k []string, sub []int) (class string, i, j int) {
	c := cfgs[ci]
	// (1) the key is not a function of the determinant: same determinant, different keys
	si, sj := -1, -1
	for x, a := range sub {
		for _, b := range sub[x+1:] {
			if fDetTyped[ci][a] == fDetTyped[ci][b] && k[a] != k[b] {
				if len(fT[a].spans) == len(fT[b].spans) {
					return "same-value-sets-different-keys", a, b
				}
				if si < 0 {
					si, sj = a, b
				}
			}
		}
	}
	if si >= 0 {
		// every such pair differs in the span count, and (their determinants being equal) UseTraceLength is off
		return "span-count-in-the-key-without-UseTraceLength", si, sj
	}
	// (2) the span count is no part of the key although UseTraceLength is set
	if c.utl {
		for x, a := range sub {
			for _, b := range sub[x+1:] {
				if fValTyped[ci][a] == fValTyped[ci][b] && len(fT[a].spans) != len(fT[b].spans) && k[a] == k[b] {
					return "span-count-missing-from-the-key-with-UseTraceLength", a, b
				}
			}
		}
	}
	// (3) separation
	for x, a := range sub {
		for _, b := range sub[x+1:] {
			if fElig[ci][a] && fElig[ci][b] && fValRend[ci][a] != fValRend[ci][b] && k[a] == k[b] {
				return "distinct-value-sets-same-key", a, b
			}
		}
	}
	return "", -1, -1
}

func (w *worker) checkLive(h *hist, sub []int) {
	if len(sub) == 0 {
		return
	}
	for _, l := range h.live {
		k := w.keys(h, l, sub)
		ref := fRef[l.d]
		diff := -1
		for _, i := range sub {
			if k[i] != ref[i] {
				diff = i
				break
			}
		}
		if diff < 0 {
			continue
		}
		d := fdefs[l.d]
		class, a, b := classify(d.cfg, k, sub)
		what := fmt.Sprintf("history [%s]: the %s sampler (%s) gives trace [%s] the key %q, but a sampler with the same definition built alone by a fresh factory gives it %q",
			h, d, l.how, fT[diff], k[diff], ref[diff])
		if class == "" {
			class = "key-text-only"
		} else {
			what += fmt.Sprintf("; under its own configuration %s the traces [%s] (determinant %s) and [%s] (determinant %s) get the keys %q and %q",
				cfgs[d.cfg].name, fT[a], fDetTyped[d.cfg][a], fT[b], fDetTyped[d.cfg][b], k[a], k[b])
		}
		report("key-depends-on-other-samplers-of-the-factory/"+class, h.order, what,
			map[string]any{"history": h.desc, "sampler": d.String(), "trace": fT[diff].String(), "key": k[diff], "key_when_built_alone": ref[diff]})
	}
}

// create asks the factory for the sampler of one environment, as a collector worker does, and checks every live sampler.
func (w *worker) create(h *hist, env string, s envSpec, sub []int) {
	if len(h.desc) > 0 && !strings.HasSuffix(h.desc[len(h.desc)-1], "|") {
		h.desc[len(h.desc)-1] += ","
	}
	h.desc = append(h.desc, fmt.Sprintf("create %s = %s", env, s))
	smp := h.factory.GetSamplerImplementationForKey(env)
	if smp == nil {
		ev.Harness("history [%s]: the factory returned no sampler for %s", h, env)
	}
	for i, d := range s.defs {
		how := "environment " + env
		if s.rules {
			how += fmt.Sprintf(", downstream of rule r%d", i+1)
		}
		h.live = append(h.live, liveSampler{d: defIdx[sdef{d.typ, d.cfg, d.rule && len(s.defs) == 1}], s: smp, sel: s.rules && i < len(s.defs)-1, how: how})
	}
	w.checkLive(h, sub)
}

// runBatch runs histories in lockstep over one sequence of configurations: epoch e of every history happens under
// states[e]; between two epochs the rules file is rewritten and reloaded. plan(i, e) lists the environments
// history i asks for in epoch e.
func (w *worker) runBatch(fc *fileCfg, states []cfgState, orders []int64, plan func(i, e int) []string, sub []int) {
	fc.onReload = nil
	fc.reload(states[0]) // from whatever the previous batch left
	hs := make([]*hist, len(orders))
	for i, o := range orders {
		hs[i] = newHist(fc.cfg, o)
	}
	// what InMemCollector.reloadConfigs does with the factory; the workers then drop their samplers
	fc.onReload = func() {
		for _, h := range hs {
			h.factory.ClearDynsamplers()
			h.live = nil
		}
	}
	for e, st := range states {
		if e > 0 {
			fc.reload(st)
			for _, h := range hs {
				h.desc = append(h.desc, "| RELOAD |")
			}
		}
		for i, h := range hs {
			for _, env := range plan(i, e) {
				w.create(h, env, st.spec(env), sub)
			}
		}
	}
	fc.onReload = nil
	for _, h := range hs {
		h.factory.Stop()
	}
}

// eachBatch calls fn for every index vector of dims (last fastest) on 16 goroutines, one index vector at a time
// (enumx.Each hands out chunks of 256, which would put a whole part B on one goroutine). Stops at the run's deadline.
func eachBatch(r *ev.Run, name string, dims []int, fn func(idx []int)) {
	total := 1
	for _, d := range dims {
		total *= d
	}
	var next atomic.Int64
	var wg sync.WaitGroup
	for g := 0; g < 16; g++ {
		wg.Add(1)
		go func() {
			defer wg.Done()
			idx := make([]int, len(dims))
			for {
				i := int(next.Add(1) - 1)
				if i >= total || r.Expired(name) {
					return
				}
				for d := len(dims) - 1; d >= 0; d-- {
					idx[d] = i % dims[d]
					i /= dims[d]
				}
				fn(idx)
			}
		}()
	}
	wg.Wait()
}

// ---- the phase ------------------------------------------------------------------------------------------

func factoryPhase(r *ev.Run) {
	workRoot = os.Getenv("VERIF_WORK")
	if workRoot == "" {
		d, err := os.MkdirTemp("/verif/.work", "c11-")
		if err != nil {
			ev.Harness("no scratch directory: %v", err)
		}
		workRoot = d
		defer os.RemoveAll(d)
	}
	traceBounds := makeTraceSet()
	for _, rule := range []bool{false, true} {
		for typ := range typeNames {
			for ci := range cfgs {
				d := sdef{typ, ci, rule}
				defIdx[d] = len(fdefs)
				fdefs = append(fdefs, d)
			}
		}
	}
	for _, c := range cfgs {
		var dt, vt, vr []string
		var el []bool
		for _, t := range fT {
			det, vs, _ := t.determinant(c, true)
			_, rs, ok := t.determinant(c, false)
			dt, vt, vr, el = append(dt, det), append(vt, vs), append(vr, rs), append(el, ok)
		}
		fDetTyped, fValTyped, fValRend, fElig = append(fDetTyped, dt), append(fValTyped, vt), append(fValRend, vr), append(fElig, el)
	}
	nAll, nTop := len(fdefs), len(fdefs)/2

	// shifted(defs, s): environment k is configured with definition defs[(k+s) mod n]; s = 0 is "one environment per definition"
	envName := func(k int) string { return fmt.Sprintf("env%02d", k) }
	shifted := func(defs []int, s int) cfgState {
		var st cfgState
		for k := range defs {
			st.names = append(st.names, envName(k))
			st.specs = append(st.specs, specOf(fdefs[defs[(k+s)%len(defs)]]))
		}
		return st
	}
	var all []int
	for i := range fdefs {
		all = append(all, i)
	}
	identity := shifted(all, 0)
	static := newFileCfg(identity)
	w0 := newWorker()

	// reference vectors: each definition built alone by a fresh factory; judged against the determinant
	base := orderBase
	flagged := map[int]bool{}
	for i, d := range fdefs {
		h := newHist(static.cfg, base+int64(i))
		w0.create(h, envName(i), identity.specs[i], nil)
		k := append([]string{}, w0.keys(h, h.live[0], fTAll)...)
		fRef = append(fRef, k)
		h.factory.Stop()
		if class, a, b := classify(d.cfg, k, fTAll); class != "" {
			flagged[i] = true
			report(class+"/a-sampler-built-alone", h.order, fmt.Sprintf("%s built alone by a fresh factory: the traces [%s] (determinant %s) and [%s] (determinant %s) get the keys %q and %q",
				d, fT[a], fDetTyped[d.cfg][a], fT[b], fDetTyped[d.cfg][b], k[a], k[b]), map[string]any{"sampler": d.String(), "trace_a": fT[a].String(), "trace_b": fT[b].String()})
		}
		nk := map[string]bool{}
		for _, x := range k {
			nk[x] = true
		}
		r.Distinct("factory_distinct_reference_key_vectors", strings.Join(k, "\x00"))
		r.Add("factory_reference_keys", int64(len(nk)))
	}
	base += int64(nAll)
	// self-check of the trace set: it tells the key configurations apart (two definitions of one sampler type that
	// differ in more than the field order have different reference vectors, on the short traces already), so a
	// sampler that behaves like a DIFFERENT definition cannot go unnoticed. Skipped for a reported reference.
	for i := range fdefs {
		for j := i + 1; j < nAll; j++ {
			if fdefs[i].typ != fdefs[j].typ || flagged[i] || flagged[j] {
				continue
			}
			ci, cj := cfgs[fdefs[i].cfg], cfgs[fdefs[j].cfg]
			si, sj := append([]string{}, ci.fields...), append([]string{}, cj.fields...)
			sort.Strings(si)
			sort.Strings(sj)
			if ci.utl == cj.utl && reflect.DeepEqual(si, sj) {
				continue
			}
			apart := false
			for _, t := range fTShort {
				apart = apart || fRef[i][t] != fRef[j][t]
			}
			if !apart {
				ev.Harness("the trace set does not tell %s and %s apart", fdefs[i], fdefs[j])
			}
		}
	}

	workers := make(chan *worker, 64)
	getW := func() *worker {
		select {
		case w := <-workers:
			return w
		default:
			return newWorker()
		}
	}
	files := make(chan *fileCfg, 64)
	getF := func() *fileCfg {
		select {
		case f := <-files:
			return f
		default:
			return newFileCfg(identity)
		}
	}
	var shapes []string

	// ---- part A: one static configuration (one environment per definition), read by every factory ----
	runStatic := func(ds []int, order int64, sub []int) {
		w := getW()
		h := newHist(static.cfg, order)
		for _, d := range ds {
			w.create(h, envName(d), identity.specs[d], sub)
		}
		h.factory.Stop()
		workers <- w
		r.Add("factory_histories", 1)
		r.Add("factory_sampler_evaluations", int64(len(ds)*(len(ds)+1)/2))
	}
	enumx.Each(r, "factory-A2", []int{nAll, nAll}, 16, func(idx []int) {
		runStatic(idx, base+int64(idx[0]*nAll+idx[1]), fTAll)
	})
	base += int64(nAll * nAll)
	shapes = append(shapes, fmt.Sprintf("A2: create X, create Y: all %d ordered pairs of the %d definitions", nAll*nAll, nAll))

	// A3: quick: the top-level definitions of three sampler types (one per kind of dynsampler: average, EMA, throughput)
	var a3 []int
	for i, d := range fdefs[:nTop] {
		if r.Thorough() || d.typ == 0 || d.typ == 2 || d.typ == 4 {
			a3 = append(a3, i)
		}
	}
	n3 := len(a3)
	enumx.Each(r, "factory-A3", []int{n3, n3, n3}, 16, func(idx []int) {
		runStatic([]int{a3[idx[0]], a3[idx[1]], a3[idx[2]]}, base+int64((idx[0]*n3+idx[1])*n3+idx[2]), fTShort)
	})
	base += int64(n3 * n3 * n3)
	shapes = append(shapes, fmt.Sprintf("A3: create X, create Y, create Z: all %d ordered triples of %d top-level definitions (%s), traces of <= 2 spans", n3*n3*n3, n3,
		ev.Pick(r, "DynamicSampler, EMAThroughputSampler, TotalThroughputSampler", "all sampler types")))

	// ---- part B: configurations that change ----
	batch := func(states []cfgState, orders []int64, plan func(i, e int) []string, reloads int) {
		w, fc := getW(), getF()
		w.runBatch(fc, states, orders, plan, fTAll)
		workers <- w
		files <- fc
		r.Add("factory_histories", int64(len(orders)))
		r.Add("factory_reloads", int64(reloads))
		r.Add("factory_reload_histories", int64(len(orders)))
	}

	// B1: environment k: definition k | reload: definition k+s | reload: definition k again
	eachBatch(r, "factory-B1", []int{nAll}, func(idx []int) {
		s := idx[0]
		var orders []int64
		for k := 0; k < nAll; k++ {
			orders = append(orders, base+int64(k*nAll+(k+s)%nAll))
		}
		batch([]cfgState{identity, shifted(all, s), identity}, orders, func(i, e int) []string { return []string{envName(i)} }, 2)
	})
	base += int64(nAll * nAll)
	shapes = append(shapes, fmt.Sprintf("B1: create e = X | RELOAD e := Y | create e | RELOAD e := X | create e: all %d ordered pairs of the %d definitions (X = Y: the reload changes nothing and no sampler is dropped)", nAll*nAll, nAll))

	// B2: one rules-based environment per Y, with downstream samplers X (rule r1, if sel exists) and Y (rule r2)
	eachBatch(r, "factory-B2", []int{nTop}, func(idx []int) {
		x := idx[0]
		var st cfgState
		var orders []int64
		for y := 0; y < nTop; y++ {
			st.names = append(st.names, envName(y))
			st.specs = append(st.specs, envSpec{defs: []sdef{fdefs[x], fdefs[y]}, rules: true})
			orders = append(orders, base+int64(x*nTop+y))
		}
		batch([]cfgState{st}, orders, func(i, e int) []string { return []string{envName(i)} }, 0)
	})
	base += int64(nTop * nTop)
	shapes = append(shapes, fmt.Sprintf("B2: one rules-based environment, rule r1 (if the field sel exists) -> X, rule r2 -> Y: all %d ordered pairs of the %d sampler definitions", nTop*nTop, nTop))

	if r.Thorough() {
		// B3: environments x and y created, then a reload gives environment x the definition x+s (top-level definitions)
		top := all[:nTop]
		topIdentity := shifted(top, 0)
		const grp = 8
		eachBatch(r, "factory-B3", []int{nTop, nTop / grp}, func(idx []int) {
			s, g := idx[0], idx[1]
			var orders []int64
			type xy struct{ x, y int }
			var hs []xy
			for x := g * grp; x < (g+1)*grp; x++ {
				for y := 0; y < nTop; y++ {
					hs = append(hs, xy{x, y})
					orders = append(orders, base+int64((x*nTop+y)*nTop+(x+s)%nTop))
				}
			}
			batch([]cfgState{topIdentity, shifted(top, s)}, orders, func(i, e int) []string {
				if e == 0 {
					return []string{envName(hs[i].x), envName(hs[i].y)}
				}
				return []string{envName(hs[i].x)}
			}, 1)
		})
		base += int64(nTop * nTop * nTop)
		shapes = append(shapes, fmt.Sprintf("B3: create e = X, create e' = Y | RELOAD e := Z | create e: all %d ordered triples of the %d top-level definitions", nTop*nTop*nTop, nTop))

		// B4: three definitions in a row on one environment, over DynamicSampler and TotalThroughputSampler
		var red []int
		for i, d := range fdefs {
			if d.typ == 0 || d.typ == 4 {
				red = append(red, i)
			}
		}
		nr := len(red)
		eachBatch(r, "factory-B4", []int{nr, nr}, func(idx []int) {
			s, t := idx[0], idx[1]
			var orders []int64
			for k := 0; k < nr; k++ {
				orders = append(orders, base+int64((k*nr+(k+s)%nr)*nr+(k+s+t)%nr))
			}
			batch([]cfgState{shifted(red, 0), shifted(red, s), shifted(red, s+t)}, orders, func(i, e int) []string { return []string{envName(i)} }, 2)
		})
		base += int64(nr * nr * nr)
		shapes = append(shapes, fmt.Sprintf("B4: create e = X | RELOAD e := Y | create e | RELOAD e := Z | create e: all %d ordered triples of the %d DynamicSampler and TotalThroughputSampler definitions", nr*nr*nr, nr))
	}
	orderBase = base

	r.Set("factory_bounds", map[string]any{"definitions": nAll, "definition_space": "5 sampler types x field lists {[f],[f,g],[g,f],[root.f,g]} x UseTraceLength x {top-level sampler of an environment, downstream sampler of a rule}",
		"histories": shapes, "trace_set": traceBounds, "trace_set_span_types": "{f=a,g=b} {f=c,g=b} {f=b,g=a} {f=a} (3 spans: the first two)", "traces": len(fT)})
	r.Set("factory_rule", "after every creation, every live sampler's key for every trace of the set equals the key of a sampler with the same definition built alone by a fresh factory (whose keys satisfy: one key per determinant; the span count tells keys apart with UseTraceLength; distinct rendered value sets of eligible traces => distinct keys); rate >= 1")
	r.Assume("factory part: 'the key is determined by the value sets of the configured fields (+ the span count with UseTraceLength)' is read as: for one sampler definition and one trace the key is the same whichever other samplers the same SamplerFactory built earlier, in whichever order, before or after a configuration reload; the reference is the same definition built alone, which is judged against the determinant on the same trace set")
	r.Assume("factory part: the configuration is a real file configuration (config.NewConfig on generated YAML, rules reloaded with fileConfig.Reload); the reload callback does what InMemCollector.reloadConfigs does to the factory (ClearDynsamplers) and every sampler is dropped, as the collector workers do; histories with the same sequence of configurations run in lockstep on one configuration object, each on its own factory; one goroutine per factory (concurrent workers on one factory are C12/C13/C35)")
}
