// C11: dynamic / throughput sample keys depend only on the distinct value set of each configured field
// (root.-prefixed fields: the root span only) plus the span count when UseTraceLength is set.
//
// Engine E2 (enumx): every ORDERED span sequence up to a length bound over a small typed value domain, every
// choice of root span, x field lists {[f],[f,g],[g,f],[root.f,g]} x UseTraceLength, on the five REAL samplers
// (built by the real SamplerFactory), keys observed through GetSampleRate. Oracles (reference = the
// "determinant" the statement names, computed independently from the trace description):
//
//	O1 functional dependence: two traces with the same determinant (typed value sets per field [+ span count])
//	   get the same key  -> covers every permutation and every duplication of spans, and irrelevance of
//	   everything else (unconfigured fields, which span is root for non-root fields, ...);
//	O2 separation: among traces in which every configured field is present on every span (root. fields: on an
//	   existing root), no nil values, all values delimiter-free: different rendered value sets => different keys;
//	O3 every sampler returns rate >= 1, and over the enumerated values of the random draw exactly one keeps;
//	O4 cap: O1 still holds for a trace family with 99 distinct values (nothing is demanded at 100 and 101).
//	O5 re-evaluation: a trace evaluated before its last span arrived and again afterwards gets the key of the same
//	   trace evaluated once (the key is a function of the trace's current content, not of earlier evaluations).
//	F  (factory.go) several samplers built by ONE SamplerFactory over a real file configuration, in every order, with
//	   configuration reloads in between: every sampler's key is the key of the same definition built alone.
//
//go:debug randseednop=0
package main

import (
	"fmt"
	"math/rand"
	"sort"
	"strings"
	"sync"
	"time"

	"github.com/honeycombio/refinery/config"
	"github.com/honeycombio/refinery/logger"
	"github.com/honeycombio/refinery/metrics"
	"github.com/honeycombio/refinery/sample"
	"github.com/honeycombio/refinery/types"

	"verif/engine/enumx"
	"verif/engine/ev"
)

// ---- value domain ---------------------------------------------------------------------------------

type val struct {
	present bool
	v       any
}

func (v val) typed() string { // typed identity (finer than any rendering)
	if !v.present {
		return "-"
	}
	switch x := v.v.(type) {
	case nil:
		return "nil"
	case string:
		return "s:" + x
	case int64:
		return fmt.Sprintf("i:%d", x)
	case float64:
		return fmt.Sprintf("f:%g", x)
	case bool:
		return fmt.Sprintf("b:%v", x)
	}
	panic("unknown value type")
}

// rendered: the textual value (reference rendering: decimal ints, shortest floats, true/false, strings as is).
// nil has no documented rendering -> ok=false (such traces are left out of O2).
func (v val) rendered() (string, bool) {
	switch x := v.v.(type) {
	case nil:
		if nullIsAValue { // null.go: a present null is a member of the value set, distinct from every other value of the domain
			return nullMark, true
		}
		return "", false
	case string:
		return x, true
	case int64:
		return fmt.Sprintf("%d", x), true
	case float64:
		return fmt.Sprintf("%g", x), true
	case bool:
		return fmt.Sprintf("%v", x), true
	}
	panic("unknown value type")
}

var absent = val{}

func pv(x any) val { return val{true, x} }

type spanT struct{ f, g val }

type traceD struct {
	spans []spanT
	root  int     // -1 none
	reps  []uint8 // payload representation per span (null.go); nil = every span map-backed
}

func (t traceD) String() string {
	var p []string
	for i, s := range t.spans {
		x := fmt.Sprintf("{f=%s g=%s}", s.f.typed(), s.g.typed())
		if t.reps != nil {
			x = repNames[t.reps[i]] + x
		}
		if i == t.root {
			x = "ROOT" + x
		}
		p = append(p, x)
	}
	return strings.Join(p, " ")
}

// multiset signature (root marking included): equal for permutations of one another
func (t traceD) multiset() string {
	var p []string
	for i, s := range t.spans {
		x := s.f.typed() + "|" + s.g.typed()
		if t.reps != nil {
			x = repNames[t.reps[i]] + x
		}
		if i == t.root {
			x = "R" + x
		}
		p = append(p, x)
	}
	sort.Strings(p)
	return strings.Join(p, ";")
}

var mockCfg = &config.MockConfig{}

func (t traceD) build() *types.Trace {
	tr := &types.Trace{TraceID: "t1"}
	t.addSpans(tr, 0, len(t.spans))
	return tr
}

// addSpans appends spans [from, to) of the description to tr.
func (t traceD) addSpans(tr *types.Trace, from, to int) {
	for i, s := range t.spans[from:to] {
		i += from
		m := map[string]any{"other": "x", "span.no": int64(i)}
		if s.f.present {
			m["f"] = s.f.v
		}
		if s.g.present {
			m["g"] = s.g.v
		}
		data := types.NewPayload(mockCfg, m)
		if t.reps != nil && t.reps[i] != repMap {
			data = msgpackPayload(m, t.reps[i] == repMsgpMemo)
		}
		sp := &types.Span{TraceID: "t1", Event: &types.Event{Data: data}}
		tr.AddSpan(sp)
		if i == t.root {
			tr.RootSpan = sp
		}
	}
}

// ---- configurations -----------------------------------------------------------------------------------

type keyCfg struct {
	name   string
	fields []string
	utl    bool
}

var fieldLists = [][]string{{"f"}, {"f", "g"}, {"g", "f"}, {"root.f", "g"}}

func (t traceD) field(name string, i int) val {
	if name == "f" {
		return t.spans[i].f
	}
	return t.spans[i].g
}

// determinant: what the statement says the key is a function of.
// typed=true: typed value sets (for O1); typed=false: rendered sets, ok=false if the trace is not eligible for O2.
func (t traceD) determinant(c keyCfg, typed bool) (det string, valueSets string, ok bool) {
	fs := append([]string{}, c.fields...)
	sort.Strings(fs)
	ok = true
	var parts []string
	for _, f := range fs {
		set := map[string]bool{}
		if strings.HasPrefix(f, "root.") {
			if t.root < 0 {
				ok = false
			} else {
				v := t.field(f[5:], t.root)
				if !v.present {
					ok = false
				} else if typed {
					set[v.typed()] = true
				} else if s, r := v.rendered(); r {
					set[s] = true
				} else {
					ok = false
				}
			}
		} else {
			for i := range t.spans {
				v := t.field(f, i)
				if !v.present {
					ok = false
					continue
				}
				if typed {
					set[v.typed()] = true
				} else if s, r := v.rendered(); r {
					set[s] = true
				} else {
					ok = false
				}
			}
		}
		var m []string
		for s := range set {
			if s == nullMark {
				m = append(m, "null") // unquoted: distinct from every (quoted) string
			} else {
				m = append(m, fmt.Sprintf("%q", s))
			}
		}
		sort.Strings(m)
		parts = append(parts, f+"={"+strings.Join(m, ",")+"}")
	}
	valueSets = strings.Join(parts, " ")
	det = valueSets
	if c.utl {
		det += fmt.Sprintf(" n=%d", len(t.spans))
	}
	return
}

// ---- the real samplers ----------------------------------------------------------------------------------

var typeNames = []string{"DynamicSampler", "EMADynamicSampler", "EMAThroughputSampler", "WindowedThroughputSampler", "TotalThroughputSampler"}

const never = config.Duration(24 * time.Hour) // third-party adjustment tickers never fire within a run

func samplerConfig(typ int, fields []string, utl bool, rate int) any {
	switch typ {
	case 0:
		return &config.DynamicSamplerConfig{SampleRate: int64(rate), ClearFrequency: never, FieldList: fields, UseTraceLength: utl}
	case 1:
		return &config.EMADynamicSamplerConfig{GoalSampleRate: rate, AdjustmentInterval: never, Weight: 0.5, FieldList: fields, UseTraceLength: utl}
	case 2:
		return &config.EMAThroughputSamplerConfig{GoalThroughputPerSec: 100, InitialSampleRate: rate, AdjustmentInterval: never, Weight: 0.5, FieldList: fields, UseTraceLength: utl}
	case 3:
		return &config.WindowedThroughputSamplerConfig{GoalThroughputPerSec: 100, UpdateFrequency: never, LookbackFrequency: 2 * never, FieldList: fields, UseTraceLength: utl}
	default:
		return &config.TotalThroughputSamplerConfig{GoalThroughputPerSec: 100, ClearFrequency: never, FieldList: fields, UseTraceLength: utl}
	}
}

func newSampler(typ int, fields []string, utl bool, rate int) sample.Sampler {
	cfg := &config.MockConfig{GetSamplerTypeVal: samplerConfig(typ, fields, utl, rate), GetSamplerTypeName: typeNames[typ]}
	f := &sample.SamplerFactory{Config: cfg, Logger: &logger.NullLogger{}, Metrics: &metrics.NullMetrics{}}
	if err := f.Start(); err != nil {
		ev.Harness("factory start: %v", err)
	}
	s := f.GetSamplerImplementationForKey("env")
	if s == nil {
		ev.Harness("factory returned no %s", typeNames[typ])
	}
	return s
}

// one set of samplers per worker (a trace key builder is not goroutine safe — in Refinery each collector
// worker owns its samplers too)
type samplerSet struct {
	s    [][]sample.Sampler  // [cfg][type]
	seen map[string]struct{} // non-trivial cases this worker already reported (saves the run-global lock)
}

var cfgs []keyCfg
var setFree = make(chan *samplerSet, 64)

func getSet() *samplerSet {
	select {
	case s := <-setFree:
		return s
	default:
	}
	ss := &samplerSet{seen: map[string]struct{}{}}
	for _, c := range cfgs {
		var row []sample.Sampler
		for typ := range typeNames {
			row = append(row, newSampler(typ, c.fields, c.utl, 2))
		}
		ss.s = append(ss.s, row)
	}
	return ss
}
func putSet(s *samplerSet) { setFree <- s }

// ---- observation stores ---------------------------------------------------------------------------------

type rep struct {
	order int64
	desc  string
	ms    string
}

type store struct {
	mu sync.RWMutex
	m  map[string]map[string]rep // a -> b -> minimal representative
}

func (s *store) add(a, b string, order int64, t traceD) {
	// fast path (shared lock): the pair is known with an earlier representative — the overwhelmingly common case
	s.mu.RLock()
	if r, ok := s.m[a][b]; ok && r.order <= order {
		s.mu.RUnlock()
		return
	}
	s.mu.RUnlock()
	s.mu.Lock()
	in := s.m[a]
	if in == nil {
		in = map[string]rep{}
		s.m[a] = in
	}
	if r, ok := in[b]; !ok || order < r.order {
		in[b] = rep{order, t.String(), t.multiset()}
	}
	s.mu.Unlock()
}

var (
	byDet [][]*store // [cfg][type]: determinant -> key
	byKey [][]*store // [cfg][type]: key -> value sets (eligible traces only)
)

type viol struct {
	order  int64
	what   string
	replay any
}

var (
	vmu   sync.Mutex
	viols = map[string]viol{}
)

func report(sig string, order int64, what string, replay any) {
	vmu.Lock()
	if v, ok := viols[sig]; !ok || order < v.order {
		viols[sig] = viol{order, what, replay}
	}
	vmu.Unlock()
}

var orderBase int64

func evalTrace(r *ev.Run, ss *samplerSet, t traceD, order int64) {
	tr := t.build()
	for ci, c := range cfgs {
		det, _, _ := t.determinant(c, true)
		_, vs, elig := t.determinant(c, false)
		for typ := range typeNames {
			rate, _, _, key := ss.s[ci][typ].GetSampleRate(tr)
			if rate < 1 {
				report("rate-below-1/"+typeNames[typ], order, fmt.Sprintf("%s %s returned rate %d for %s", typeNames[typ], c.name, rate, t), map[string]any{"sampler": typeNames[typ], "config": c.name, "trace": t.String()})
			}
			byDet[ci][typ].add(det, key, order, t)
			if elig {
				byKey[ci][typ].add(key, vs, order, t)
			}
		}
		// O5: the key is a function of what the trace holds NOW: a trace that was evaluated before its last span
		// arrived gets the key of the same trace evaluated once (nothing about the earlier evaluation may stick)
		if n := len(t.spans); n >= 2 {
			typ := int(order) % len(typeNames)
			_, _, _, whole := ss.s[ci][typ].GetSampleRate(tr)
			inc := &types.Trace{TraceID: "t1"}
			t.addSpans(inc, 0, n-1)
			ss.s[ci][typ].GetSampleRate(inc)
			t.addSpans(inc, n-1, n)
			if _, _, _, again := ss.s[ci][typ].GetSampleRate(inc); again != whole {
				report("key-depends-on-an-earlier-evaluation/"+c.name, order, fmt.Sprintf("%s %s: trace %s gets key %q when evaluated once, but %q when it had been evaluated before its last span arrived",
					typeNames[typ], c.name, t, whole, again), map[string]any{"sampler": typeNames[typ], "config": c.name, "trace": t.String()})
			}
		}
		if elig {
			k := c.name + "|" + vs
			if _, ok := ss.seen[k]; !ok {
				ss.seen[k] = struct{}{}
				r.Distinct("distinct_nontrivial", k)
			}
		}
	}
}

func judge(r *ev.Run) {
	for ci, c := range cfgs {
		for typ, tn := range typeNames {
			// O1
			for det, keys := range byDet[ci][typ].m {
				if len(keys) < 2 {
					continue
				}
				type kv struct {
					key string
					rep rep
				}
				var l []kv
				for k, rp := range keys {
					l = append(l, kv{k, rp})
				}
				sort.Slice(l, func(i, j int) bool { return l[i].rep.order < l[j].rep.order })
				a, b := l[0], l[1]
				class := "span-duplication-or-irrelevant-data"
				if a.rep.ms == b.rep.ms {
					class = "span-order"
				}
				report("same-value-sets-different-keys/"+class, b.rep.order,
					fmt.Sprintf("%s %s: traces with the same determinant %s get different keys: %q for [%s] but %q for [%s]", tn, c.name, det, a.key, a.rep.desc, b.key, b.rep.desc),
					map[string]any{"sampler": tn, "config": c.name, "determinant": det, "trace_a": a.rep.desc, "key_a": a.key, "trace_b": b.rep.desc, "key_b": b.key})
			}
			// O2
			for key, sets := range byKey[ci][typ].m {
				if len(sets) < 2 {
					continue
				}
				type sv struct {
					vs  string
					rep rep
				}
				var l []sv
				for s, rp := range sets {
					l = append(l, sv{s, rp})
				}
				sort.Slice(l, func(i, j int) bool { return l[i].rep.order < l[j].rep.order })
				a, b := l[0], l[1]
				report("distinct-value-sets-same-key/"+collisionClass(a.vs, b.vs), b.rep.order,
					fmt.Sprintf("%s %s: key %q is shared by traces whose value sets differ: %s  [%s]  versus  %s  [%s]", tn, c.name, key, a.vs, a.rep.desc, b.vs, b.rep.desc),
					map[string]any{"sampler": tn, "config": c.name, "key": key, "value_sets_a": a.vs, "trace_a": a.rep.desc, "value_sets_b": b.vs, "trace_b": b.rep.desc})
			}
			r.Add("determinants_seen", int64(len(byDet[ci][typ].m)))
			r.Add("keys_seen_eligible", int64(len(byKey[ci][typ].m)))
		}
	}
}

// collisionClass: which field differs, and whether the difference is exactly the empty-string member.
func collisionClass(a, b string) string {
	pa, pb := strings.Split(a, " "), strings.Split(b, " ")
	for i := range pa {
		if i >= len(pb) || pa[i] == pb[i] {
			continue
		}
		fa, sa, _ := strings.Cut(pa[i], "=")
		_, sb, _ := strings.Cut(pb[i], "=")
		kind := "field"
		if strings.HasPrefix(fa, "root.") {
			kind = "root-field"
		}
		stripM := func(s, member string) string {
			s = strings.TrimSuffix(strings.TrimPrefix(s, "{"), "}")
			var keep []string
			for _, e := range strings.Split(s, ",") {
				if e != member && e != "" {
					keep = append(keep, e)
				}
			}
			return strings.Join(keep, ",")
		}
		if stripM(sa, "null") == stripM(sb, "null") {
			return kind + "/sets-differ-only-by-the-null-member"
		}
		strip := func(s string) string { return stripM(s, `""`) }
		if strip(sa) == strip(sb) {
			return kind + "/sets-differ-only-by-the-empty-string-member"
		}
		return kind + "/other"
	}
	return "unknown"
}

// ---- draws ----------------------------------------------------------------------------------------------

// seedFor returns a seed after which the first rand.Intn(n) of the global stream is d.
func seedFor(n, d int) int64 {
	for s := int64(1); ; s++ {
		if rand.New(rand.NewSource(s)).Intn(n) == d {
			return s
		}
	}
}

func drawPhase(r *ev.Run) {
	// self-test: the harness really owns the process-global math/rand stream
	for n := 1; n <= 4; n++ {
		for d := 0; d < n; d++ {
			rand.Seed(seedFor(n, d))
			if got := rand.Intn(n); got != d {
				ev.Harness("global math/rand is not owned by the harness (Seed has no effect): wanted draw %d of %d, got %d", d, n, got)
			}
		}
	}
	traces := []traceD{
		{[]spanT{{pv("a"), absent}}, 0, nil},
		{[]spanT{{pv("a"), pv("a")}, {pv(int64(1)), pv("")}}, 1, nil},
		{[]spanT{{absent, absent}}, -1, nil},
		{[]spanT{{pv("a"), absent}, {pv("b"), absent}, {pv("a"), absent}}, -1, nil},
	}
	rates := map[string]bool{}
	for typ, tn := range typeNames {
		for _, goal := range []int{1, 2, 3, 4} {
			for ci, c := range []keyCfg{{"[f]", []string{"f"}, false}, {"[root.f,g]+len", []string{"root.f", "g"}, true}} {
				s := newSampler(typ, c.fields, c.utl, goal)
				for ti, t := range traces {
					tr := t.build()
					rate, _, _, _ := s.GetSampleRate(tr)
					if rate < 1 {
						report("rate-below-1/"+tn, int64(ti), fmt.Sprintf("%s returned rate %d", tn, rate), nil)
						continue
					}
					if rate > 64 {
						ev.Harness("unexpected large rate %d from an untrained %s", rate, tn)
					}
					keeps := 0
					var kept []int
					for d := 0; d < int(rate); d++ {
						rand.Seed(seedFor(int(rate), d))
						rate2, keep, _, _ := s.GetSampleRate(tr)
						if rate2 != rate {
							ev.Harness("%s: rate moved from %d to %d between two calls without any adjustment tick", tn, rate, rate2)
						}
						if keep {
							keeps++
							kept = append(kept, d)
						}
						r.Add("draws_enumerated", 1)
					}
					rates[fmt.Sprintf("%s:%d", tn, rate)] = true
					r.Distinct("distinct_nontrivial", fmt.Sprintf("draw|%s|%d", tn, rate))
					if keeps != 1 {
						report("keep-not-1-in-rate/"+tn, int64(goal*100+ci*10+ti), fmt.Sprintf("%s %s goal %d: at rate %d the trace is kept for draws %v of 0..%d — %d of %d instead of exactly 1", tn, c.name, goal, rate, kept, rate-1, keeps, rate),
							map[string]any{"sampler": tn, "config": c.name, "rate": rate, "kept_for_draws": kept, "trace": t.String()})
					}
				}
			}
		}
	}
	var rl []string
	for k := range rates {
		rl = append(rl, k)
	}
	sort.Strings(rl)
	r.Set("rates_with_every_draw_enumerated", rl)
}

// ---- cap family -------------------------------------------------------------------------------------------

func capFamily(r *ev.Run) {
	info := map[string]any{}
	for _, c := range []keyCfg{{"[f]", []string{"f"}, false}, {"[f,g]", []string{"f", "g"}, false}, {"[f,g]+len", []string{"f", "g"}, true}} {
		for _, distinct := range []int{98, 99, 100, 101} {
			// base trace: `distinct` distinct values spread over the configured non-root fields, every field on every span
			var base []spanT
			if len(c.fields) == 1 {
				for i := 0; i < distinct; i++ {
					base = append(base, spanT{pv(fmt.Sprintf("v%03d", i)), absent})
				}
			} else {
				nf := (distinct + 1) / 2
				ng := distinct - nf
				for i := 0; i < nf; i++ {
					base = append(base, spanT{pv(fmt.Sprintf("v%03d", i)), pv(fmt.Sprintf("w%03d", i%ng))})
				}
			}
			n := len(base)
			variants := map[string][]spanT{"identity": base}
			rev := make([]spanT, n)
			rot := make([]spanT, n)
			inter := make([]spanT, 0, n)
			for i := range base {
				rev[n-1-i] = base[i]
				rot[(i+1)%n] = base[i]
			}
			for i := 0; i < (n+1)/2; i++ {
				inter = append(inter, base[i])
				if n-1-i > i {
					inter = append(inter, base[n-1-i])
				}
			}
			variants["reversed"], variants["rotated"], variants["interleaved"] = rev, rot, inter
			if !c.utl {
				variants["first-span-duplicated-at-end"] = append(append([]spanT{}, base...), base[0])
				variants["last-span-duplicated-at-front"] = append([]spanT{base[n-1]}, base...)
			}
			var names []string
			for k := range variants {
				names = append(names, k)
			}
			sort.Strings(names)
			for typ, tn := range typeNames {
				s := newSampler(typ, c.fields, c.utl, 2)
				keys := map[string]string{}
				for _, vn := range names {
					_, _, _, key := s.GetSampleRate(traceD{variants[vn], 0, nil}.build())
					keys[vn] = key
					r.Add("cap_family_evaluations", 1)
				}
				differ := ""
				for _, vn := range names {
					if keys[vn] != keys["identity"] {
						differ = vn
						break
					}
				}
				if distinct < 100 && differ != "" {
					report("same-value-sets-different-keys/below-the-100-value-cap", int64(distinct), fmt.Sprintf("%s %s: a trace with %d distinct values gets a different key when %s (key lengths %d vs %d)", tn, c.name, distinct, differ, len(keys["identity"]), len(keys[differ])),
						map[string]any{"sampler": tn, "config": c.name, "distinct_values": distinct, "variant": differ})
				}
				if typ == 0 {
					info[fmt.Sprintf("%s/%d", c.name, distinct)] = map[string]any{"order_or_duplication_changes_key": differ != ""}
				}
			}
		}
	}
	r.Set("cap_family_observed", info)
}

func main() {
	r := ev.New("C11", "exploration")
	for _, fl := range fieldLists {
		for _, utl := range []bool{false, true} {
			n := "[" + strings.Join(fl, ",") + "]"
			if utl {
				n += "+len"
			}
			cfgs = append(cfgs, keyCfg{n, fl, utl})
		}
	}
	for range cfgs {
		var a, b []*store
		for range typeNames {
			a = append(a, &store{m: map[string]map[string]rep{}})
			b = append(b, &store{m: map[string]map[string]rep{}})
		}
		byDet, byKey = append(byDet, a), append(byKey, b)
	}

	fFull := []val{absent, pv(int64(1)), pv("1"), pv(1.5), pv("a"), pv(""), pv(true), pv(nil)}
	gFull := []val{absent, pv("a"), pv(""), pv(int64(1))}
	fSmall := []val{absent, pv("a"), pv(""), pv("1"), pv(int64(1))}
	gSmall := []val{absent, pv("a")}
	mk := func(fs, gs []val) []spanT {
		var out []spanT
		for _, f := range fs {
			for _, g := range gs {
				out = append(out, spanT{f, g})
			}
		}
		return out
	}
	type phase struct {
		n     int
		types []spanT
	}
	phases := []phase{{1, mk(fFull, gFull)}, {2, mk(fFull, gFull)}, {3, mk(fFull, gFull)}, {4, mk(fSmall, gSmall)}}
	if r.Thorough() {
		phases = append(phases, phase{4, mk(fFull, gSmall)}, phase{5, mk(fSmall, gSmall)})
	}
	var bounds []string
	for _, ph := range phases {
		dims := []int{ph.n + 1}
		for i := 0; i < ph.n; i++ {
			dims = append(dims, len(ph.types))
		}
		base := orderBase
		total := int64(1)
		for _, d := range dims {
			total *= int64(d)
		}
		orderBase += total
		bounds = append(bounds, fmt.Sprintf("%d spans over %d span types x %d root choices", ph.n, len(ph.types), ph.n+1))
		ph := ph
		enumx.Each(r, fmt.Sprintf("n=%d", ph.n), dims, 16, func(idx []int) {
			ss := getSet()
			t := traceD{root: idx[0] - 1}
			var order int64
			for _, i := range idx {
				order = order*int64(len(ph.types)+1) + int64(i)
			}
			for _, i := range idx[1:] {
				t.spans = append(t.spans, ph.types[i])
			}
			evalTrace(r, ss, t, base+order)
			putSet(ss)
			r.Add("sampler_calls", int64(len(cfgs)*len(typeNames)))
		})
	}
	judge(r)
	nullPhase(r) // present-null values on map-backed and msgpack-backed payloads, null counted as a value in O2 (null.go)
	capFamily(r)
	factoryPhase(r) // several samplers built by ONE real factory over a real file configuration (factory.go)
	drawPhase(r)    // sequential, after all parallel work: nothing else touches math/rand now

	var sigs []string
	for s := range viols {
		sigs = append(sigs, s)
	}
	sort.Strings(sigs)
	for _, s := range sigs {
		r.Violation(s, viols[s].what, viols[s].replay)
	}
	r.Set("rule", "same typed value sets per configured field (+ span count with UseTraceLength) => same key; all fields present everywhere, no nil, different rendered value sets => different keys; rate >= 1; exactly one value of the random draw in 0..rate-1 keeps; the key does not depend on the other samplers the factory built (factory_rule)")
	r.Set("bounds", map[string]any{"traces": bounds, "field_lists": fieldLists, "use_trace_length": []bool{false, true}, "samplers": typeNames,
		"f_values": "absent,1,\"1\",1.5,\"a\",\"\",true,nil", "g_values": "absent,\"a\",\"\",1", "cap_family": "98/99/100/101 distinct values, 6 orderings/duplications"})
	r.Sample(map[string]any{"example_trace": traceD{[]spanT{{pv(""), pv("a")}, {pv("a"), pv("a")}}, 0, nil}.String()})
	r.Assume("O2 uses the weakest reading of 'fields are all present': every configured non-root field is present on EVERY span and every root. field on an existing root span; values 1, \"1\", 1.5, \"a\", \"\", true contain neither of the key delimiters ('•' and ','), the empty string included")
	r.Assume("values are compared by their rendered text for O2 (int 1 and string \"1\" are the same value there) and by type+value for O1 (weaker obligation each time); nil has no documented rendering and is left out of O2")
	r.Assume("the random draw is the process-global math/rand stream (rand.Intn(rate) in every sampler); it is owned by re-seeding it (GODEBUG randseednop=0) with seeds chosen so that the first Intn(rate) yields each of 0..rate-1 in turn; WindowedThroughput/TotalThroughput only ever report rate 1 (0 clamped to 1) because their adjustment tickers are third-party wall-clock daemons that are never fired")
	r.Assume("wyhash collisions between two different rendered values inside distinctValue are outside the bound")
	r.Finish()
}
