// C25: query endpoints require the configured token.
// Engine E2 (enumx) on fix/pipeline: configured QueryAuthToken x presented header variant x every route
// registered under /query/ (with parameter variants) x listener is served by the real mux of a real
// route.Router (real queryTokenChecker middleware, real handlers, real sharder). The request is built from
// HTTP/1.1 wire text with net/http's own server-side parser (http.ReadRequest), so header folding / optional
// whitespace / multiple field lines arrive exactly as they would from a socket.
// Oracle (from the statement): data only when a non-empty token is configured and the request carries exactly
// it; otherwise an error status and a body/headers that contain none of the planted configuration, rules and
// ownership strings.
package main

import (
	"bufio"
	"encoding/json"
	"fmt"
	"net/http"
	"net/http/httptest"
	"regexp"
	"sort"
	"strings"
	"sync"
	"unicode"

	"github.com/pelletier/go-toml/v2"
	"gopkg.in/yaml.v3"

	"github.com/honeycombio/refinery/config"
	"github.com/honeycombio/refinery/route"

	"verif/engine/enumx"
	"verif/engine/ev"
	"verif/fix/pipeline"
)

// Everything planted into configuration / rules / cluster membership carries the marker "zq7" (compared
// case-insensitively) or one of the two distinctive sample rates, so one scan decides "reveals nothing".
const (
	mark        = "zq7"
	selfAddr    = "http://c25-self-zq7.test:8081"
	peerAddr    = "http://c25-peer-zq7.test:8081"
	upstreamURL = "http://c25-upstream-zq7.test"
	ruleName    = "C25RULE-ZQ7-keep"
	ruleField   = "c25field.zq7"
	ruleValue   = "C25VALUE-ZQ7"
	ruleRate    = 731973
	defaultRate = 732173
	allRuleName = "C25ALLRULE-ZQ7"
	allRuleRate = 732373
	cfgHash     = "c25hash-zq7"
	cfgID       = "c25-cfgid-zq7"
	header      = "X-Honeycomb-Refinery-Query" // types.QueryTokenHeader, written out: the documented name
)

var secrets = []string{mark, fmt.Sprint(ruleRate), fmt.Sprint(defaultRate), fmt.Sprint(allRuleRate)}

// " " and "Tok " : tokens that only differ from nothing / from "Tok" by white space. HTTP strips optional white space
// around a field value, so no request can carry them exactly: every request must be refused.
var tokens = []string{"", "t", "Tok", " ", "Tok "}

// longTokens: configured tokens of the lengths in real use (hex-16, 31/32/33 around a common fixed-width boundary,
// UUID-36, hex SHA-256 64, and a 200-character one); part 2 below derives every near miss from each.
var longTokens = []string{
	"0123456789abcdef",
	"Zq3vX8mK1pL7wRt5yB9nC2dF6gH0jS4",
	"Zq3vX8mK1pL7wRt5yB9nC2dF6gH0jS4a",
	"Zq3vX8mK1pL7wRt5yB9nC2dF6gH0jS4aU",
	"3f2b8c1e-7a4d-4e9b-b6c5-0d1e2f3a4b5c",
	"9f86d081884c7d659a2feaa0c55ad015a3bf4f1b2b0b822cd15d6c15b0f00a08",
	strings.Repeat("Ab3-", 50),
}

// nearMisses: the exact token (must be accepted) and every derived wrong value (must be refused).
func nearMisses(tok string) []hv {
	l := func(v string) string { return header + ": " + v }
	out := []hv{{"exact", []string{l(tok)}, []string{tok}}}
	add := func(name, v string) {
		if v != tok && v == strings.TrimSpace(v) {
			out = append(out, hv{name, []string{l(v)}, []string{v}})
		}
	}
	for k := 1; k < len(tok); k++ {
		add(fmt.Sprintf("prefix-%d", k), tok[:k])
		add(fmt.Sprintf("prefix-%d+foreign-tail", k), tok[:k]+"~~~~")
		add(fmt.Sprintf("prefix-%d+padded-to-length", k), tok[:k]+strings.Repeat("~", len(tok)-k))
		add(fmt.Sprintf("suffix-from-%d", k), tok[k:])
	}
	for k := 0; k < len(tok); k++ {
		c := byte('#')
		if tok[k] == c {
			c = '%'
		}
		add(fmt.Sprintf("substitute-at-%d", k), tok[:k]+string(c)+tok[k+1:])
	}
	for _, tail := range []string{"x", "0", "xy", "~~~", tok} {
		add("exact+"+tail[:1]+fmt.Sprintf("(%d more)", len(tail)), tok+tail)
	}
	add("case-variant", swapCase(tok))
	return out
}

var digits = regexp.MustCompile(`[0-9]+`)

// hv is one way of presenting (or not presenting) a token.
type hv struct {
	Name  string
	Lines []string // raw header field lines as on the wire
	Vals  []string // the field values HTTP semantics give to the query-token header (OWS stripped), in order
}

func swapCase(s string) string {
	return strings.Map(func(r rune) rune {
		if unicode.IsUpper(r) {
			return unicode.ToLower(r)
		}
		return unicode.ToUpper(r)
	}, s)
}

// variants: built around `base` = the configured token, or "Tok" when nothing is configured (then every one of
// them must be refused).
func variants(token string) []hv {
	b := token
	if b == "" {
		b = "Tok"
	}
	l := func(v string) string { return header + ": " + v }
	return owsStripped([]hv{
		{"absent", nil, nil},
		{"empty", []string{header + ":"}, []string{""}},
		{"prefix", []string{l(b[:len(b)-1])}, []string{b[:len(b)-1]}},
		{"case-variant", []string{l(swapCase(b))}, []string{swapCase(b)}},
		{"exact", []string{l(b)}, []string{b}},
		{"exact+trailing-space-on-wire", []string{l(b + " ")}, []string{b}},
		{"exact+leading-spaces-on-wire", []string{header + ":   \t" + b}, []string{b}},
		{"exact+extra-char", []string{l(b + "x")}, []string{b + "x"}},
		{"inner-space", []string{l(b + " " + b)}, []string{b + " " + b}},
		{"two-lines-exact-wrong", []string{l(b), l("nope")}, []string{b, "nope"}},
		{"two-lines-wrong-exact", []string{l("nope"), l(b)}, []string{"nope", b}},
		{"two-lines-exact-exact", []string{l(b), l(b)}, []string{b, b}},
		{"two-lines-wrong-wrong", []string{l("nope"), l(swapCase(b))}, []string{"nope", swapCase(b)}},
		{"one-line-comma-list", []string{l(b + "," + b)}, []string{b + "," + b}},
		{"quoted", []string{l(`"` + b + `"`)}, []string{`"` + b + `"`}},
		{"lower-case-header-name", []string{strings.ToLower(header) + ": " + b}, []string{b}},
		{"exact-but-in-api-key-header", []string{"X-Honeycomb-Team: " + b}, nil},
		{"exact-but-in-authorization", []string{"Authorization: Bearer " + b}, nil},
	})
}

// owsStripped: what HTTP delivers as the field value (optional white space around it is not part of it).
func owsStripped(vs []hv) []hv {
	for i := range vs {
		for j := range vs[i].Vals {
			vs[i].Vals[j] = strings.Trim(vs[i].Vals[j], " \t")
		}
	}
	return vs
}

// rt is one route variant.
type rt struct {
	Method string
	Path   string // may contain {self} / {peer}
	Kind   string // trace | rules | allrules | configmetadata | invalid-format | not-an-endpoint
	Format string
	Want   []string // substrings the data answer must contain (after {self}/{peer}/{selfaddr}/{peeraddr} expansion)
}

func routes() []rt {
	var out []rt
	// registered: /query/trace/{traceID}
	out = append(out,
		rt{"GET", "/query/trace/{self}", "trace", "json", []string{`"traceID":"{self}"`, `"node":"` + selfAddr + `"`}},
		rt{"GET", "/query/trace/{peer}", "trace", "json", []string{`"traceID":"{peer}"`, `"node":"` + peerAddr + `"`}},
	)
	// registered: /query/rules/{format}/{dataset}
	for _, f := range []string{"json", "yaml", "toml", "JSON"} {
		out = append(out,
			rt{"GET", "/query/rules/" + f + "/ds-rules", "rules", strings.ToLower(f), []string{ruleName, ruleField, ruleValue, fmt.Sprint(ruleRate)}},
			rt{"GET", "/query/rules/" + f + "/ds-norules", "rules", strings.ToLower(f), []string{fmt.Sprint(defaultRate)}},
		)
	}
	out = append(out, rt{"GET", "/query/rules/xml/ds-rules", "invalid-format", "", nil})
	// registered: /query/allrules/{format}
	for _, f := range []string{"json", "yaml", "toml"} {
		out = append(out, rt{"GET", "/query/allrules/" + f, "allrules", f, []string{allRuleName, fmt.Sprint(allRuleRate)}})
	}
	out = append(out, rt{"GET", "/query/allrules/xml", "invalid-format", "", nil})
	// registered: /query/configmetadata
	out = append(out, rt{"GET", "/query/configmetadata", "configmetadata", "json", []string{cfgHash, cfgID}})
	out = append(out, rt{"GET", "/query/configmetadata?x=1", "configmetadata", "json", []string{cfgHash, cfgID}})
	// not endpoints of Refinery (other method, unregistered path): whatever happens, nothing planted may come back
	// every other method on every registered path (whatever answers them - the proxy today - nothing planted may come back)
	for _, m := range []string{"HEAD", "POST", "PUT", "DELETE", "PATCH", "OPTIONS"} {
		for _, p := range []string{"/query/trace/{peer}", "/query/rules/json/ds-rules", "/query/allrules/json", "/query/allrules/yaml", "/query/configmetadata"} {
			if (m == "HEAD" || m == "POST") && p == "/query/trace/{peer}" || m == "POST" && p == "/query/allrules/json" {
				continue // listed below
			}
			out = append(out, rt{m, p, "not-an-endpoint", "", nil})
		}
	}
	out = append(out,
		rt{"HEAD", "/query/trace/{peer}", "not-an-endpoint", "", nil},
		rt{"POST", "/query/trace/{peer}", "not-an-endpoint", "", nil},
		rt{"POST", "/query/allrules/json", "not-an-endpoint", "", nil},
		rt{"GET", "/query/", "not-an-endpoint", "", nil},
		rt{"GET", "/query/trace", "not-an-endpoint", "", nil},
		rt{"GET", "/query/rules/json", "not-an-endpoint", "", nil},
		rt{"GET", "/query/allrules", "not-an-endpoint", "", nil},
		rt{"GET", "/query/configmetadata/extra", "not-an-endpoint", "", nil},
	)
	return out
}

func newConfig() *config.MockConfig {
	c := pipeline.DefaultConfig()
	c.GetHoneycombAPIVal = upstreamURL
	c.Samplers = map[string]*config.V2SamplerChoice{
		"ds-rules": {RulesBasedSampler: &config.RulesBasedSamplerConfig{Rules: []*config.RulesBasedSamplerRule{{
			Name: ruleName, SampleRate: ruleRate,
			Conditions: []*config.RulesBasedSamplerCondition{{Field: ruleField, Operator: "=", Value: ruleValue}},
		}}}},
		"__default__": {DeterministicSampler: &config.DeterministicSamplerConfig{SampleRate: defaultRate}},
	}
	c.GetSamplerTypeName = "RulesBasedSampler"
	c.GetSamplerTypeVal = &config.RulesBasedSamplerConfig{Rules: []*config.RulesBasedSamplerRule{{Name: allRuleName, SampleRate: allRuleRate}}}
	c.CfgMetadata = []config.ConfigMetadata{{Type: "config", ID: cfgID, Hash: cfgHash, LoadedAt: "2031-07-09T00:00:00Z"}}
	return c
}

func wireRequest(method, target string, lines []string) *http.Request {
	raw := method + " " + target + " HTTP/1.1\r\nHost: refinery.test\r\n"
	for _, l := range lines {
		raw += l + "\r\n"
	}
	raw += "\r\n"
	req, err := http.ReadRequest(bufio.NewReader(strings.NewReader(raw)))
	if err != nil {
		ev.Harness("request text does not parse: %v: %q", err, raw)
	}
	req.RemoteAddr = "192.0.2.7:40123"
	return req
}

func leaks(resp *httptest.ResponseRecorder) string {
	hay := strings.ToLower(resp.Body.String())
	var keys []string
	for k := range resp.Header() {
		keys = append(keys, k)
	}
	sort.Strings(keys)
	for _, k := range keys {
		hay += "\n" + strings.ToLower(k+": "+strings.Join(resp.Header()[k], ","))
	}
	for _, s := range secrets {
		if strings.Contains(hay, s) {
			return s
		}
	}
	return ""
}

func parses(format string, body []byte) error {
	var v any
	switch format {
	case "json":
		return json.Unmarshal(body, &v)
	case "yaml":
		return yaml.Unmarshal(body, &v)
	case "toml":
		return toml.Unmarshal(body, &v)
	}
	return nil
}

type caseDesc struct {
	Token, Header, Method, Path, Listener string
	Lines                                 []string
}

func main() {
	r := ev.New("C25", "exploration")
	workers := 16
	pool := make(chan *pipeline.Node, workers)
	var selfID, peerID string
	for i := 0; i < workers; i++ {
		n := pipeline.New(pipeline.Options{Config: newConfig(), Self: selfAddr, Peers: []string{peerAddr}})
		for _, rr := range n.Routers {
			// in-memory run: no wall-clock timeout may decide anything (unregistered /query/ paths are proxied)
			route.VerifProxyClient(rr).Timeout = 0
		}
		if i == 0 {
			selfID = n.TraceIDs(n.Self, 1, "c25t")[0]
			peerID = n.TraceIDs(n.Peers[0], 1, "c25t")[0]
		}
		pool <- n
	}
	expand := strings.NewReplacer("{self}", selfID, "{peer}", peerID)
	rts := routes()
	listeners := []pipeline.Listener{pipeline.Incoming, pipeline.Peer}
	nv := len(variants("Tok"))

	dims := []int{len(tokens), nv, len(rts), len(listeners)}
	// violations are collected per signature and the case with the smallest enumeration index is reported, so the
	// replay of every signature is the same (simplest) case in every run, whatever the worker interleaving
	type pending struct {
		ord    int
		what   string
		replay any
	}
	var pmu sync.Mutex
	pend := map[string]pending{}
	runCase := func(token string, h hv, rtv rt, l pipeline.Listener, ord int) {
		n := <-pool
		defer func() { pool <- n }()
		path := expand.Replace(rtv.Path)
		c := caseDesc{Token: token, Header: h.Name, Method: rtv.Method, Path: path, Listener: l.String(), Lines: h.Lines}

		n.Cfg.Mux.Lock()
		n.Cfg.QueryAuthToken = token
		n.Cfg.Mux.Unlock()

		req := wireRequest(rtv.Method, path, h.Lines)
		if got := req.Header.Values(header); strings.Join(got, "\x00") != strings.Join(h.Vals, "\x00") || len(got) != len(h.Vals) {
			ev.Harness("variant %s: the HTTP parser delivers %q, the table says %q", h.Name, got, h.Vals)
		}
		w := httptest.NewRecorder()
		n.ServeHTTP(l, w, req)
		outgoing := n.Net.Requests()
		n.Net.Reset()

		// ---- what the statement demands
		exact, other := 0, 0
		for _, v := range h.Vals {
			if v == token {
				exact++
			} else {
				other++
			}
		}
		verdict := "either" // several field lines, some exact and some not: "carries exactly that token" is open
		switch {
		case token == "" || exact == 0:
			verdict = "deny"
		case other == 0:
			verdict = "allow"
		}
		body := w.Body.String()
		fail := func(class, what string) {
			pmu.Lock()
			if p, ok := pend[class]; !ok || ord < p.ord {
				pend[class] = pending{ord, fmt.Sprintf("%s; case=%s; answer: %d %s", what, ev.J(c), w.Code, trunc(body, 300)), c}
			}
			pmu.Unlock()
		}
		r.Distinct("observed_outcomes", fmt.Sprintf("%s|%s|%s|%d", rtv.Kind, verdict, l, w.Code))

		if rtv.Kind == "not-an-endpoint" {
			// not answered by a /query/ endpoint at all (mux falls through to the proxy): must still reveal nothing
			// (with the exact token presented nothing is demanded: a version that serves this method too, behind the
			// same check, would be within the statement)
			if s := leaks(w); s != "" && verdict != "allow" {
				fail("leak:not-an-endpoint:"+rtv.Method+" "+rtv.Path, "planted string "+s+" returned without the configured token for a path/method that is not a query endpoint today")
			}
			for _, o := range outgoing {
				for k, vs := range o.Header {
					for _, v := range vs {
						if strings.Contains(strings.ToLower(k+v), mark) && !strings.EqualFold(k, "Host") {
							fail("leak-upstream:not-an-endpoint", "planted string sent upstream in header "+k)
						}
					}
				}
			}
			r.Add("not_endpoint_cases", 1)
			return
		}
		if len(outgoing) > 0 {
			fail("query-endpoint-caused-outgoing-request:"+rtv.Kind, fmt.Sprintf("%d outgoing request(s), first %s %s%s", len(outgoing), outgoing[0].Method, outgoing[0].BaseURL, outgoing[0].Path))
			return
		}

		switch verdict {
		case "deny":
			r.Add("must_deny_cases", 1)
			why := "token-mismatch:" + digits.ReplaceAllString(h.Name, "N")
			if token == "" {
				why = "no-token-configured:" + h.Name
			}
			if w.Code < 400 {
				fail("answered-without-authorisation:"+rtv.Kind+":"+why, fmt.Sprintf("status %d is not an error although %s", w.Code, why))
				return
			}
			if s := leaks(w); s != "" {
				fail("leak-in-refusal:"+rtv.Kind+":"+why, "refusal contains planted string "+s)
				return
			}
			// the configured token itself must not be echoed (checkable when the presented values do not contain it)
			// (a refusal may echo what was PRESENTED; for a token with white space around it the trimmed form is what is compared)
			if tt := strings.TrimSpace(token); len(tt) >= 3 && !strings.Contains(strings.Join(h.Lines, "\n"), tt) && strings.Contains(body, tt) {
				fail("token-leak-in-refusal:"+rtv.Kind, "refusal contains the configured token")
				return
			}
		case "allow":
			r.Add("must_allow_cases", 1)
			if rtv.Kind == "invalid-format" {
				return // no data defined for an unknown format; nothing demanded
			}
			r.Distinct("distinct_nontrivial", fmt.Sprintf("%s|%s|%s|%s|%s", rtv.Path, rtv.Method, token, h.Name, l))
			if w.Code != 200 {
				fail("refused-with-exact-token:"+rtv.Kind+":"+h.Name, fmt.Sprintf("status %d although the configured non-empty token was presented exactly", w.Code))
				return
			}
			if strings.HasPrefix(body, "got error ") && strings.Contains(body, "trying to marshal") {
				// the handler was reached (authorisation granted) but could not render its data in this format:
				// not an authorisation matter, recorded as a side observation (see r.Assume below)
				r.Distinct("side_marshal_failures", rtv.Path+": "+strings.TrimSpace(body))
				return
			}
			for _, want := range rtv.Want {
				want = expand.Replace(want)
				if !strings.Contains(body, want) {
					fail("data-missing:"+rtv.Kind+":"+rtv.Format, fmt.Sprintf("answer lacks %q", want))
					return
				}
			}
			if err := parses(rtv.Format, w.Body.Bytes()); err != nil {
				fail("data-unparsable:"+rtv.Kind+":"+rtv.Format, fmt.Sprintf("answer is not %s: %v", rtv.Format, err))
				return
			}
			if r.Count("sampled") < 8 && h.Name == "exact" {
				r.Add("sampled", 1)
				r.Sample(map[string]any{"case": c, "status": w.Code, "body": trunc(body, 160)})
			}
		default:
			r.Add("either_cases", 1)
			// even under the open reading: data needs a configured token and at least one exact value (true here by
			// construction); if it is refused the refusal must be clean.
			if w.Code >= 400 {
				if s := leaks(w); s != "" {
					fail("leak-in-refusal:"+rtv.Kind+":mixed:"+h.Name, "refusal contains planted string "+s)
				}
			}
			r.Distinct("mixed_value_outcomes", fmt.Sprintf("%s:%v", h.Name, w.Code < 400))
		}
	}
	enumx.Each(r, "query-auth", dims, workers, func(idx []int) {
		ord := ((idx[0]*dims[1]+idx[1])*dims[2]+idx[2])*dims[3] + idx[3]
		runCase(tokens[idx[0]], variants(tokens[idx[0]])[idx[1]], rts[idx[2]], listeners[idx[3]], ord)
	})
	// ---- part 2: token shapes. Tokens of the lengths operators really configure (16 .. 200 characters) x every
	// near miss derivable from the token (every proper prefix, every one-character substitution, every prefix
	// followed by foreign text, the token followed by 1..3 more characters, the token repeated) x one route per kind.
	base := dims[0] * dims[1] * dims[2] * dims[3]
	var shapeRts []rt
	seenKind := map[string]bool{}
	for _, x := range rts {
		if x.Kind != "not-an-endpoint" && x.Kind != "invalid-format" && !seenKind[x.Kind] && !strings.Contains(x.Path, "{self}") {
			seenKind[x.Kind] = true
			shapeRts = append(shapeRts, x)
		}
	}
	type shapeCase struct {
		token string
		h     hv
		rtv   rt
	}
	var shapes []shapeCase
	for _, tok := range longTokens {
		for _, h := range nearMisses(tok) {
			for _, x := range shapeRts {
				shapes = append(shapes, shapeCase{tok, h, x})
			}
		}
	}
	enumx.Each(r, "token-shapes", []int{len(shapes)}, workers, func(idx []int) {
		c := shapes[idx[0]]
		runCase(c.token, c.h, c.rtv, pipeline.Incoming, base+idx[0])
	})
	r.Add("token_shape_cases", int64(len(shapes)))
	for i := 0; i < workers; i++ {
		(<-pool).Close()
	}
	var sigs []string
	for sig := range pend {
		sigs = append(sigs, sig)
	}
	sort.Strings(sigs)
	for _, sig := range sigs {
		r.Violation(sig, pend[sig].what, pend[sig].replay)
	}
	var vn []string
	for _, v := range variants("Tok") {
		vn = append(vn, v.Name)
	}
	var rn []string
	for _, x := range rts {
		rn = append(rn, x.Method+" "+x.Path)
	}
	r.Set("rule", "deny (token unconfigured, or no presented field value equals it) => status >= 400 and neither body nor headers contain any planted rules/config/ownership string; allow (non-empty token, every presented value equals it) => 200 with the route's data in the requested format")
	r.Set("bounds", map[string]any{"tokens": tokens, "token_shape_tokens": longTokens, "token_shape_family": "exact; every proper prefix (bare, + foreign tail, padded to the token's length); every proper suffix; one-character substitution at every position; token + 1..3 more characters; token repeated; case variant", "header_variants": vn, "routes": rn, "listeners": []string{"incoming", "peer"}})
	r.Set("peer_router_exposes_query_routes", true)
	r.Assume("requests are built from HTTP/1.1 text with net/http's server-side parser, so optional whitespace around a field value is not part of the value: 'token + trailing space' on the wire IS the exact token and must be accepted")
	r.Assume("when the header is present on two field lines of which only one is the exact token, the statement ('carries exactly that token') is read as open: either outcome is accepted (observed outcome recorded under mixed_value_outcomes); two lines that are both exact must be accepted, two wrong ones refused")
	r.Assume("'an error' = HTTP status >= 400; 'reveals no configuration or trace placement' = none of the planted marker strings (peer/self/upstream addresses, rule names/fields/values/sample rates, config hash/ID) in body or response headers; the configured token must not be echoed either")
	r.Assume("the peer listener builds the same mux (LnS), so it exposes the /query/ routes too; the same oracle is applied there")
	r.Assume("methods other than GET and unregistered paths below /query/ are not query endpoints (the mux hands them to the proxy); for them only 'nothing planted is returned or sent upstream' is demanded")
	r.Assume("authorised side: status 200 and the route's data are demanded as a vacuity guard; a handler-internal rendering failure under a valid token (observed: /query/rules/toml/<dataset with rule conditions> answers 'got error toml: cannot encode value of type func' because RulesBasedSamplerCondition.Matches has no toml:\"-\" tag) is not an authorisation matter and is recorded under side_marshal_failures instead of being reported as a C25 violation")
	r.Assume("config.MockConfig supplies the settings (its GetAllSamplerRules/GetSamplerConfigForDestName/GetConfigMetadata), not the file-backed config")
	r.Finish()
}

func trunc(s string, n int) string {
	if len(s) > n {
		return s[:n] + "…"
	}
	return s
}
