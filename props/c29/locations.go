// C29, locations part: "the config files (later files overriding earlier ones)" where the files are given as
// locations of different kinds. --config / REFINERY_CONFIG accept local paths and http(s) URLs; precedence is by
// position in the list, whatever kind a location is and however long it takes to answer. Exhaustive product: every
// sequence of 2 and 3 locations over {local file, URL whose server answers at once, URL whose server answers late};
// each location sets Network.ListenAddr to a value naming its position, the first also sets Traces.SendDelay (which
// no later one overrides); the same for the rules locations (the __default__ sampler's rate). Real config.NewConfig
// on real files and real http servers on the loopback interface. Oracle: ListenAddr / the rate are those of the LAST
// location, SendDelay that of the first. The late server's delay (150 ms) only orders the answers of a loader that
// asks concurrently; the verdict on a sequential loader does not depend on it.
package main

import (
	"fmt"
	"net"
	"net/http"
	"net/http/httptest"
	"os"
	"path/filepath"
	"time"

	"github.com/honeycombio/refinery/config"

	"verif/engine/ev"
)

func locationsPart(r *ev.Run) {
	kinds := []string{"file", "url", "slow-url"}
	if l, err := net.Listen("tcp", "127.0.0.1:0"); err != nil {
		// no loopback interface to serve URLs from: say so instead of failing
		r.Cap("locations part skipped: cannot listen on the loopback interface (" + err.Error() + ")")
		return
	} else {
		l.Close()
	}
	dir, err := os.MkdirTemp("", "c29loc")
	if err != nil {
		ev.Harness("%v", err)
	}
	defer os.RemoveAll(dir)
	n := 0
	var seqs [][]int
	for a := 0; a < 3; a++ {
		for b := 0; b < 3; b++ {
			seqs = append(seqs, []int{a, b})
			for c := 0; c < 3; c++ {
				seqs = append(seqs, []int{a, b, c})
			}
		}
	}
	for si, seq := range seqs {
		var servers []*httptest.Server
		mk := func(i int, kind, name, body string) string {
			if kind == "file" {
				p := filepath.Join(dir, fmt.Sprintf("s%d-%s-%d.yaml", si, name, i))
				if err := os.WriteFile(p, []byte(body), 0o644); err != nil {
					ev.Harness("%v", err)
				}
				return p
			}
			delay := time.Duration(0)
			if kind == "slow-url" {
				delay = 150 * time.Millisecond
			}
			s := httptest.NewServer(http.HandlerFunc(func(w http.ResponseWriter, _ *http.Request) {
				time.Sleep(delay)
				w.Header().Set("Content-Type", "application/yaml")
				w.Write([]byte(body))
			}))
			servers = append(servers, s)
			return s.URL + "/" + name + ".yaml"
		}
		var cfgLocs, rulesLocs, desc []string
		for i, k := range seq {
			body := fmt.Sprintf("General:\n  ConfigurationVersion: 2\nNetwork:\n  ListenAddr: 0.0.0.0:%d\n", 9000+i)
			if i == 0 {
				body += "Traces:\n  SendDelay: 7s\n"
			}
			cfgLocs = append(cfgLocs, mk(i, kinds[k], "config", body))
			rulesLocs = append(rulesLocs, mk(i, kinds[k], "rules", fmt.Sprintf("RulesVersion: 2\nSamplers:\n  __default__:\n    DeterministicSampler:\n      SampleRate: %d\n", 10+i)))
			desc = append(desc, kinds[k])
		}
		n++
		c, err := config.NewConfig(&config.CmdEnv{ConfigLocations: cfgLocs, RulesLocations: rulesLocs})
		for _, s := range servers {
			s.Close()
		}
		if c == nil {
			ev.Harness("C29 locations part: NewConfig over %v failed: %v", desc, err)
		}
		last := len(seq) - 1
		replay := map[string]any{"scenario": "locations", "kinds": desc}
		if got, want := c.GetListenAddr(), fmt.Sprintf("0.0.0.0:%d", 9000+last); got != want {
			r.Violation("locations:later-config-location-does-not-override-earlier",
				fmt.Sprintf("config locations %v (in this order), each setting Network.ListenAddr to port 9000+its position: the effective value is %s, the last location says %s", desc, got, want), replay)
		}
		if got := time.Duration(c.GetTracesConfig().SendDelay); got != 7*time.Second {
			r.Violation("locations:setting-of-an-earlier-location-lost",
				fmt.Sprintf("config locations %v: Traces.SendDelay is set by the first location only (7s), effective value %v", desc, got), replay)
		}
		sc, _ := c.GetSamplerConfigForDestName("anything")
		if d, ok := sc.(*config.DeterministicSamplerConfig); !ok || d.SampleRate != 10+last {
			r.Violation("locations:later-rules-location-does-not-override-earlier",
				fmt.Sprintf("rules locations %v (in this order), each setting the __default__ sampler's rate to 10+its position: the effective sampler is %+v, the last location says rate %d", desc, sc, 10+last), replay)
		}
		r.Distinct("distinct_location_sequences", fmt.Sprint(desc))
	}
	r.Add("location_sequences", int64(n))
	r.Set("locations_bounds", map[string]any{"kinds": kinds, "lengths": "2,3", "settings": "Network.ListenAddr (every location), Traces.SendDelay (first only), __default__ sampler rate (every rules location)"})
}
