// C29: settings resolve with the documented precedence (flag > env > later file > earlier file > default),
// ${VAR} references are expanded in every string-valued setting, and what validation checks is what is used.
//
// Engine E2 (enumx): a reflection walk over the real effective-config struct (every yaml-tagged leaf of
// config.configContents, obtained through the VerifMainConfig hook) produces the case list; every case builds
// real config files under $VERIF_WORK, real command-line arguments (parsed by the real NewCmdEnvOptions /
// go-flags, which also reads the real process environment) and loads them with the real config.NewConfig.
// The effective value of the leaf is read back from the struct and compared with a reference resolver written
// from the statement. The process environment is global state, so every case is evaluated in one of N worker
// SUBPROCESSES (this binary re-executed with "c29-worker"); a worker evaluates one case at a time and sets /
// unsets exactly the variables of that case. enumx.Each walks the (cases) product and hands each index to a
// free worker.
package main

import (
	"bufio"
	"encoding/json"
	"fmt"
	"os"
	"os/exec"
	"path/filepath"
	"reflect"
	"sort"
	"strconv"
	"strings"
	"sync"
	"time"

	"github.com/honeycombio/refinery/config"

	"verif/engine/enumx"
	"verif/engine/ev"
)

// ---------------------------------------------------------------------------------------------
// leaves of the configuration struct

type leaf struct {
	Path        string
	Group, Name string
	gi, fi      int
	T           reflect.Type
	Tags        []string // cmdenv sources (names of CmdEnv fields), in tag order
	Meta        *config.Field
}

func yamlName(f reflect.StructField) string { return strings.Split(f.Tag.Get("yaml"), ",")[0] }

func walk(root reflect.Value, md *config.Metadata) []leaf {
	var out []leaf
	t := root.Type()
	for i := 0; i < t.NumField(); i++ {
		g := t.Field(i)
		if g.Type.Kind() != reflect.Struct {
			ev.Harness("top-level config field %s is not a group struct (walk needs updating)", g.Name)
		}
		for j := 0; j < g.Type.NumField(); j++ {
			f := g.Type.Field(j)
			n := yamlName(f)
			if n == "-" || n == "" {
				continue
			}
			if f.Type.Kind() == reflect.Struct {
				ev.Harness("nested struct setting %s.%s (walk needs updating)", g.Name, f.Name)
			}
			l := leaf{Path: yamlName(g) + "." + n, Group: yamlName(g), Name: n, gi: i, fi: j, T: f.Type}
			if tg := f.Tag.Get("cmdenv"); tg != "" {
				l.Tags = strings.Split(tg, ",")
			}
			l.Meta = md.GetField(l.Path)
			out = append(out, l)
		}
	}
	return out
}

var (
	tDuration = reflect.TypeOf(config.Duration(0))
	tMemory   = reflect.TypeOf(config.MemorySize(0))
	tLevel    = reflect.TypeOf(config.Level(0))
)

// norm renders the effective value of a leaf in a canonical comparable form.
func norm(v reflect.Value) string {
	switch {
	case v.Type() == tLevel:
		return v.Interface().(config.Level).String()
	case v.Kind() == reflect.Ptr:
		if v.IsNil() {
			return "<nil>"
		}
		return norm(v.Elem())
	}
	switch v.Kind() {
	case reflect.String:
		return v.String()
	case reflect.Bool:
		return strconv.FormatBool(v.Bool())
	case reflect.Int, reflect.Int8, reflect.Int16, reflect.Int32, reflect.Int64:
		return strconv.FormatInt(v.Int(), 10)
	case reflect.Uint, reflect.Uint8, reflect.Uint16, reflect.Uint32, reflect.Uint64:
		return strconv.FormatUint(v.Uint(), 10)
	case reflect.Slice:
		s := []string{}
		for i := 0; i < v.Len(); i++ {
			s = append(s, norm(v.Index(i)))
		}
		return ev.J(s)
	case reflect.Map:
		m := map[string]string{}
		for _, k := range v.MapKeys() {
			m[k.String()] = norm(v.MapIndex(k))
		}
		return ev.J(m)
	}
	return fmt.Sprintf("%v", v.Interface())
}

// ---------------------------------------------------------------------------------------------
// typed values: a value is a scalar text, a list or a map

type value struct {
	S string            `json:"s,omitempty"`
	L []string          `json:"l,omitempty"`
	M map[string]string `json:"m,omitempty"`
	K string            `json:"k"` // "s" | "l" | "m"
}

func sv(s string) value { return value{K: "s", S: s} }

// yamlText renders a value as YAML (JSON flow syntax is YAML) for a leaf of type t.
func (v value) yamlText(t reflect.Type) string {
	switch v.K {
	case "l":
		return ev.J(v.L)
	case "m":
		return ev.J(v.M)
	}
	switch {
	case t == tDuration || t == tMemory || t == tLevel || t.Kind() == reflect.String:
		return ev.J(v.S) // quoted
	}
	return v.S // bool / number: plain scalar
}

// want is the canonical form (see norm) the effective value must have when this value wins.
func (v value) want(t reflect.Type) string {
	switch v.K {
	case "l":
		return ev.J(append([]string{}, v.L...))
	case "m":
		return ev.J(v.M)
	}
	switch t {
	case tDuration:
		d, err := time.ParseDuration(v.S)
		if err != nil {
			ev.Harness("bad duration %q", v.S)
		}
		return strconv.FormatInt(int64(d), 10)
	case tMemory:
		return strconv.FormatUint(memBytes(v.S), 10)
	}
	return v.S
}

// memBytes: the documented meaning of the units used by this check (config.md: MiB = 2^20 bytes, GiB = 2^30).
func memBytes(s string) uint64 {
	for suffix, mult := range map[string]uint64{"MiB": 1 << 20, "GiB": 1 << 30} {
		if strings.HasSuffix(s, suffix) {
			n, err := strconv.ParseUint(strings.TrimSuffix(s, suffix), 10, 64)
			if err != nil {
				ev.Harness("bad memory size %q", s)
			}
			return n * mult
		}
	}
	ev.Harness("bad memory size %q", s)
	return 0
}

func hasValidation(l leaf, typ string, arg string) bool {
	if l.Meta == nil {
		return false
	}
	for _, v := range l.Meta.Validations {
		if v.Type == typ && (arg == "" || fmt.Sprint(v.Arg) == arg) {
			return true
		}
	}
	return false
}

func validationArg(l leaf, typ string) (string, bool) {
	if l.Meta == nil {
		return "", false
	}
	for _, v := range l.Meta.Validations {
		if v.Type == typ {
			return fmt.Sprint(v.Arg), true
		}
	}
	return "", false
}

// stringFor returns the i-th valid, non-default string for a string-typed setting (or list element) whose
// metadata type / validations are given. Used for addressing only: whether the value really is valid is
// established by loading it (a value the loader rejects as a literal is never used as an expectation).
func stringFor(l leaf, elemType string, i int) string {
	mt := ""
	if l.Meta != nil {
		mt = l.Meta.Type
	}
	if elemType != "" {
		mt = elemType
	}
	switch {
	case mt == "hostport":
		return fmt.Sprintf("127.0.0.1:90%02d", i+1)
	case mt == "url":
		return fmt.Sprintf("https://h%d.verif.example.com", i+1)
	case hasValidation(l, "format", "apikey") || hasValidation(l, "format", "apikeyOrBlank"):
		return fmt.Sprintf("%032x", 0xabcd00+i+1)
	case hasValidation(l, "format", "version"):
		return fmt.Sprintf("v2.%d", i+1)
	case hasValidation(l, "format", "alphanumeric"):
		return fmt.Sprintf("alnum%d", i+1)
	case l.Meta != nil && len(l.Meta.Choices) > 0:
		var ch []string
		for _, c := range l.Meta.Choices { // non-default choices first
			if c != fmt.Sprint(l.Meta.Default) {
				ch = append(ch, c)
			}
		}
		for _, c := range l.Meta.Choices {
			if c == fmt.Sprint(l.Meta.Default) {
				ch = append(ch, c)
			}
		}
		return ch[i%len(ch)]
	case l.Path == "StressRelief.Mode":
		return []string{"always", "monitor", "never", "always"}[i%4]
	}
	return fmt.Sprintf("verif%d", i+1)
}

// values returns n distinct valid values for the leaf (nil if the leaf has fewer than 2 usable values).
func values(l leaf, n int) []value {
	var out []value
	elemType, _ := validationArg(l, "elementType")
	if elemType == "string" {
		elemType = ""
	}
	numeric := func(def, min, max int64) {
		base := def
		if base < min {
			base = min
		}
		for i := 0; i < n; i++ {
			x := base + 1 + int64(i)
			if max > 0 && x > max {
				x = base - 1 - int64(i)
			}
			out = append(out, sv(strconv.FormatInt(x, 10)))
		}
	}
	switch {
	case l.T == tDuration:
		for _, s := range []string{"17m", "19m", "23m", "29m"}[:n] {
			out = append(out, sv(s))
		}
	case l.T == tMemory:
		for _, s := range []string{"2MiB", "3MiB", "5MiB", "7MiB"}[:n] {
			out = append(out, sv(s))
		}
	case l.T == tLevel:
		for _, s := range []string{"debug", "info", "error", "panic"}[:n] {
			out = append(out, sv(s))
		}
	case l.T.Kind() == reflect.Ptr && l.T.Elem().Kind() == reflect.Bool:
		out = []value{sv("false"), sv("true")}
	case l.T.Kind() == reflect.Bool:
		out = []value{sv("true"), sv("false")}
	case l.T.Kind() == reflect.String:
		for i := 0; i < n; i++ {
			out = append(out, sv(stringFor(l, "", i)))
		}
	case l.T.Kind() == reflect.Slice && l.T.Elem().Kind() == reflect.String:
		for i := 0; i < n; i++ {
			out = append(out, value{K: "l", L: []string{stringFor(l, elemType, 2*i), stringFor(l, elemType, 2*i+1)}})
		}
	case l.T.Kind() == reflect.Map:
		for i := 0; i < n; i++ {
			out = append(out, value{K: "m", M: map[string]string{"shared": fmt.Sprintf("val%d", i+1), fmt.Sprintf("own%d", i+1): "x"}})
		}
	case l.T.Kind() >= reflect.Int && l.T.Kind() <= reflect.Uint64:
		if l.Path == "General.ConfigurationVersion" {
			return nil // exactly one valid value
		}
		var def, min, max int64
		if l.Meta != nil {
			def, _ = strconv.ParseInt(strings.ReplaceAll(fmt.Sprint(l.Meta.Default), "_", ""), 10, 64)
			if a, ok := validationArg(l, "minimum"); ok {
				min, _ = strconv.ParseInt(a, 10, 64)
			}
			if a, ok := validationArg(l, "maximum"); ok {
				max, _ = strconv.ParseInt(a, 10, 64)
			}
			if l.Meta.Type == "percentage" {
				max = 100
			}
		}
		numeric(def, min, max)
	default:
		ev.Harness("no value generator for %s of type %v", l.Path, l.T)
	}
	// distinct?
	seen := map[string]bool{}
	for _, v := range out {
		seen[v.want(l.T)] = true
	}
	if len(seen) < 2 {
		return nil
	}
	return out
}

// companions: settings that must accompany a leaf for the file to be valid at all (cross-field validations
// "requiredWith"); they are written into the same file as the leaf.
var companions = map[string]map[string]string{
	"AccessKeys.AcceptOnlyListedKeys": {"AccessKeys.ReceiveKeys": `["` + fmt.Sprintf("%032x", 0x77) + `"]`},
}

// ---------------------------------------------------------------------------------------------
// cases

type source struct {
	Kind string `json:"kind"` // flag | env | file1 | file2
	Tag  string `json:"tag,omitempty"`
	V    value  `json:"v"`
}

type kase struct {
	Kind    string            `json:"kind"` // files | sources | cross | expand | expand-cmd | validated | default
	Leaf    string            `json:"leaf"`
	Sources []source          `json:"sources,omitempty"`
	Env     map[string]string `json:"env,omitempty"` // extra variables (${VAR} targets); "" value = set-but-empty
	Mode    string            `json:"mode,omitempty"`
	Format  string            `json:"format,omitempty"` // yaml (default) | toml | json
	// expectations
	Winner string `json:"winner,omitempty"`
	Want   string `json:"want,omitempty"`
	// together: another setting of the same group supplied through the same channel in the same invocation
	Also     *source `json:"also,omitempty"`
	AlsoLeaf string  `json:"also_leaf,omitempty"`
	li       int
}

type result struct {
	Idx        int    `json:"idx"`
	Sig        string `json:"sig,omitempty"`
	What       string `json:"what,omitempty"`
	Outcome    string `json:"outcome"`
	Nontrivial string `json:"nontrivial,omitempty"`
	Skip       string `json:"skip,omitempty"`
	Harness    string `json:"harness,omitempty"`
}

func cmdEnvField(tag string) reflect.StructField {
	f, ok := reflect.TypeOf(config.CmdEnv{}).FieldByName(tag)
	if !ok {
		ev.Harness("cmdenv tag %q names no CmdEnv field", tag)
	}
	return f
}

func buildCases(leaves []leaf, thorough bool) []kase {
	var cs []kase
	formats := []string{"yaml"}
	if thorough {
		formats = []string{"yaml", "toml", "json"}
	}
	for li, l := range leaves {
		vs := values(l, 4)
		if vs == nil {
			continue
		}
		add := func(k kase) { k.Leaf = l.Path; k.li = li; cs = append(cs, k) }
		// --- later file overrides earlier file, for EVERY setting
		for _, fm := range formats {
			a, b := vs[0], vs[1]
			add(kase{Kind: "files", Format: fm, Sources: []source{{Kind: "file1", V: a}}, Winner: "file1"})
			add(kase{Kind: "files", Format: fm, Sources: []source{{Kind: "file2", V: b}}, Winner: "file2"})
			add(kase{Kind: "files", Format: fm, Sources: []source{{Kind: "file1", V: a}, {Kind: "file2", V: b}}, Winner: "file2"})
			add(kase{Kind: "files", Format: fm, Sources: []source{{Kind: "file1", V: b}, {Kind: "file2", V: a}}, Winner: "file2"})
		}
		// --- flag > env > file2 > file1 > default: all 16 presence combinations, per cmdenv source
		for ti, tag := range l.Tags {
			_ = ti
			for mask := 0; mask < 16; mask++ {
				k := kase{Kind: "sources", Mode: tag}
				order := []string{"flag", "env", "file2", "file1"}
				bit := map[string]int{"flag": 8, "env": 4, "file1": 2, "file2": 1}
				vi := map[string]int{"flag": 0, "env": 1, "file1": 2, "file2": 3}
				for _, s := range []string{"flag", "env", "file1", "file2"} {
					if mask&bit[s] != 0 {
						k.Sources = append(k.Sources, source{Kind: s, Tag: tag, V: vs[vi[s]%len(vs)]})
					}
				}
				k.Winner = "default"
				for _, s := range order {
					if mask&bit[s] != 0 {
						k.Winner = s
						break
					}
				}
				add(k)
			}
		}
		// --- two cmdenv sources for one setting: the first-listed (specific) one wins within the same channel
		// (README: the setting-specific key wins over the shared REFINERY_HONEYCOMB_API_KEY; which of the two is
		// the specific one is decided here by name, not by the order of the cmdenv tag under test)
		if len(l.Tags) == 2 && (l.Tags[0] == "HoneycombAPIKey") != (l.Tags[1] == "HoneycombAPIKey") {
			specific, generic := l.Tags[0], l.Tags[1]
			if specific == "HoneycombAPIKey" {
				specific, generic = generic, specific
			}
			for _, ch := range []string{"flag", "env"} {
				add(kase{Kind: "cross", Mode: ch, Sources: []source{{Kind: ch, Tag: specific, V: vs[0]}, {Kind: ch, Tag: generic, V: vs[1]}}, Winner: ch + ":" + specific})
			}
		}
		// --- two settings of one group through the same channel in one invocation: each gets its own value
		// (the flag/env walk over a group's fields must not stop at one of them)
		if len(l.Tags) > 0 {
			group, _, _ := strings.Cut(l.Path, ".")
			for _, o := range leaves {
				og, _, _ := strings.Cut(o.Path, ".")
				if og != group || o.Path == l.Path || len(o.Tags) == 0 {
					continue
				}
				ovs := values(o, 4)
				if ovs == nil {
					continue
				}
				for _, ch := range []string{"flag", "env"} {
					add(kase{Kind: "together", Mode: ch + "+" + o.Path, Sources: []source{{Kind: ch, Tag: l.Tags[0], V: vs[0]}}, Winner: ch,
						Also: &source{Kind: ch, Tag: o.Tags[0], V: ovs[1]}, AlsoLeaf: o.Path})
				}
			}
		}
		// --- ${VAR} expansion in string-valued settings
		strLeaf := l.T.Kind() == reflect.String || l.T == tLevel
		strList := l.T.Kind() == reflect.Slice
		strMap := l.T.Kind() == reflect.Map
		if strLeaf || strList || strMap {
			modes := []string{"set", "embedded", "twice", "unset"}
			if thorough {
				modes = append(modes, "empty")
			}
			if l.T == tLevel {
				modes = []string{"set"}
			}
			for _, m := range modes {
				add(kase{Kind: "expand", Mode: m})
			}
			if strList {
				// placement inside a list: the reference in every position, next to a literal, another
				// reference or an unset reference
				for _, m := range []string{"list:ref,lit", "list:ref,ref", "list:ref,unset", "list:unset,ref", "list:ref,lit,lit", "list:lit,ref,lit"} {
					add(kase{Kind: "expand", Mode: m})
				}
			}
			// "after processing any command lines": a reference delivered by flag / env is expanded as well
			if l.T.Kind() == reflect.String {
				for _, tag := range l.Tags {
					for _, ch := range []string{"flag", "env"} {
						add(kase{Kind: "expand-cmd", Mode: ch + ":" + tag})
					}
				}
			}
		}
		// --- what validation checks is what is used
		if l.T.Kind() == reflect.String || strList {
			routes := []string{"literal", "expanded"}
			for _, tag := range l.Tags {
				routes = append(routes, "flag:"+tag, "env:"+tag)
			}
			for _, r := range routes {
				add(kase{Kind: "validated", Mode: r})
			}
		}
		// --- documented default
		add(kase{Kind: "default"})
	}
	return cs
}

// ---------------------------------------------------------------------------------------------
// worker side: evaluate one case on the real loader

type worker struct {
	dir    string
	leaves []leaf
	cases  []kase
	base   map[string]string // leaf -> effective value with nothing set
}

func renderFile(format string, settings map[string]string, types map[string]reflect.Type) string {
	// settings: "Group.Field" -> YAML/JSON flow text
	groups := map[string]map[string]string{}
	for k, v := range settings {
		g, f, _ := strings.Cut(k, ".")
		if groups[g] == nil {
			groups[g] = map[string]string{}
		}
		groups[g][f] = v
	}
	var gn []string
	for g := range groups {
		gn = append(gn, g)
	}
	sort.Strings(gn)
	var b strings.Builder
	switch format {
	case "json":
		b.WriteString("{")
		for i, g := range gn {
			if i > 0 {
				b.WriteString(",")
			}
			b.WriteString(ev.J(g) + ":{")
			var fn []string
			for f := range groups[g] {
				fn = append(fn, f)
			}
			sort.Strings(fn)
			for j, f := range fn {
				if j > 0 {
					b.WriteString(",")
				}
				b.WriteString(ev.J(f) + ":" + groups[g][f])
			}
			b.WriteString("}")
		}
		b.WriteString("}\n")
	case "toml":
		for _, g := range gn {
			b.WriteString("[" + g + "]\n")
			var fn []string
			for f := range groups[g] {
				fn = append(fn, f)
			}
			sort.Strings(fn)
			for _, f := range fn {
				v := groups[g][f]
				if strings.HasPrefix(v, "{") { // inline table: TOML wants key = value
					var m map[string]string
					json.Unmarshal([]byte(v), &m)
					var ks []string
					for k := range m {
						ks = append(ks, k)
					}
					sort.Strings(ks)
					var parts []string
					for _, k := range ks {
						parts = append(parts, k+" = "+ev.J(m[k]))
					}
					v = "{ " + strings.Join(parts, ", ") + " }"
				}
				b.WriteString(f + " = " + v + "\n")
			}
		}
	default:
		for _, g := range gn {
			b.WriteString(g + ":\n")
			var fn []string
			for f := range groups[g] {
				fn = append(fn, f)
			}
			sort.Strings(fn)
			for _, f := range fn {
				b.WriteString("  " + f + ": " + groups[g][f] + "\n")
			}
		}
	}
	return b.String()
}

const rulesYAML = "RulesVersion: 2\nSamplers:\n  __default__:\n    DeterministicSampler:\n      SampleRate: 1\n"

// load runs the real loader: files f1, f2 (settings maps), command-line args, environment.
// Returns the effective-config struct value (invalid Value when rejected) and the loader's error text.
func (w *worker) load(format string, f1, f2 map[string]string, args []string, env map[string]string) (reflect.Value, string) {
	if format == "" {
		format = "yaml"
	}
	for _, m := range []map[string]string{f1, f2} {
		m["General.ConfigurationVersion"] = "2"
	}
	p1 := filepath.Join(w.dir, "config1."+format)
	p2 := filepath.Join(w.dir, "config2."+format)
	pr := filepath.Join(w.dir, "rules.yaml")
	for p, body := range map[string]string{p1: renderFile(format, f1, nil), p2: renderFile(format, f2, nil), pr: rulesYAML} {
		if err := os.WriteFile(p, []byte(body), 0o644); err != nil {
			panic(err)
		}
	}
	for k, v := range env {
		os.Setenv(k, v)
	}
	defer func() {
		for k := range env {
			os.Unsetenv(k)
		}
	}()
	all := append([]string{"--config", p1, "--config", p2, "--rules_config", pr}, args...)
	opts, err := config.NewCmdEnvOptions(all)
	if err != nil {
		return reflect.Value{}, "command line rejected: " + err.Error()
	}
	c, err := config.NewConfig(opts)
	if c == nil {
		return reflect.Value{}, oneLine(err)
	}
	mc := config.VerifMainConfig(c)
	if mc == nil {
		panic("VerifMainConfig returned nil")
	}
	return reflect.ValueOf(mc).Elem(), oneLine(err)
}

func oneLine(err error) string {
	if err == nil {
		return ""
	}
	s := strings.Join(strings.Fields(err.Error()), " ")
	if d := os.Getenv("C29_CASE_DIR"); d != "" {
		s = strings.ReplaceAll(s, d, "$DIR")
	}
	s = strings.ReplaceAll(s, os.Getenv("VERIF_WORK"), "$WORK")
	if len(s) > 300 {
		s = s[:300] + "…"
	}
	return s
}

func flagArgs(tag string, v value) []string {
	long := cmdEnvField(tag).Tag.Get("long")
	switch v.K {
	case "l":
		var a []string
		for _, e := range v.L {
			a = append(a, "--"+long, e)
		}
		return a
	case "m":
		var ks []string
		for k := range v.M {
			ks = append(ks, k)
		}
		sort.Strings(ks)
		var a []string
		for _, k := range ks {
			a = append(a, "--"+long, k+":"+v.M[k])
		}
		return a
	}
	return []string{"--" + long, v.S}
}

func envPair(tag string, v value) (string, string) {
	f := cmdEnvField(tag)
	name, delim := f.Tag.Get("env"), f.Tag.Get("env-delim")
	switch v.K {
	case "l":
		return name, strings.Join(v.L, delim)
	case "m":
		var ks []string
		for k := range v.M {
			ks = append(ks, k)
		}
		sort.Strings(ks)
		var a []string
		for _, k := range ks {
			a = append(a, k+":"+v.M[k])
		}
		return name, strings.Join(a, delim)
	}
	return name, v.S
}

func (w *worker) eff(root reflect.Value, l leaf) string { return norm(root.Field(l.gi).Field(l.fi)) }

func withCompanions(l leaf, m map[string]string) map[string]string {
	for k, v := range companions[l.Path] {
		m[k] = v
	}
	return m
}

func (w *worker) eval(idx int) (res result) {
	res.Idx = idx
	k := w.cases[idx]
	l := w.leaves[k.li]
	defer func() {
		if p := recover(); p != nil {
			res = result{Idx: idx, Sig: "panic:" + k.Kind + ":" + l.Path, What: fmt.Sprintf("loading panicked: %v", p), Outcome: "panic"}
		}
	}()
	switch k.Kind {
	case "files", "sources", "cross", "together":
		f1, f2 := map[string]string{}, map[string]string{}
		var args []string
		env := map[string]string{}
		if k.Also != nil {
			if k.Also.Kind == "flag" {
				args = append(args, flagArgs(k.Also.Tag, k.Also.V)...)
			} else {
				n, v := envPair(k.Also.Tag, k.Also.V)
				env[n] = v
			}
		}
		var present []string
		wantV := value{}
		for _, s := range k.Sources {
			present = append(present, s.Kind)
			switch s.Kind {
			case "file1":
				withCompanions(l, f1)[l.Path] = s.V.yamlText(l.T)
			case "file2":
				withCompanions(l, f2)[l.Path] = s.V.yamlText(l.T)
			case "flag":
				args = append(args, flagArgs(s.Tag, s.V)...)
			case "env":
				n, v := envPair(s.Tag, s.V)
				env[n] = v
			}
			if s.Kind == k.Winner || s.Kind+":"+s.Tag == k.Winner {
				wantV = s.V
			}
		}
		root, errText := w.load(k.Format, f1, f2, args, env)
		if !root.IsValid() {
			// all values were generated as valid: a rejection means the generator does not know a cross-field rule
			res.Skip = "rejected: " + errText
			res.Outcome = "rejected"
			return
		}
		got := w.eff(root, l)
		want := w.base[l.Path]
		if k.Winner != "default" {
			want = wantV.want(l.T)
		}
		ok := got == want
		if !ok && wantV.K == "m" {
			// maps: only the winner's own keys are demanded (whether keys of overridden sources survive is left open)
			var gm map[string]string
			json.Unmarshal([]byte(got), &gm)
			ok = true
			for kk, vv := range wantV.M {
				if gm[kk] != vv {
					ok = false
				}
			}
		}
		res.Outcome = k.Kind + ":" + k.Winner
		if k.Winner != "default" {
			res.Nontrivial = k.Kind + "|" + l.Path + "|" + strings.Join(present, "+") + "|" + k.Format
		}
		if !ok {
			// classify what was observed instead: the value of another present source, the default, a truncated list...
			obs := "other-value"
			switch {
			case got == w.base[l.Path] && k.Winner != "default":
				obs = "default"
			case wantV.K == "l" && got != "[]" && strings.HasPrefix(want, strings.TrimSuffix(got, "]")):
				obs = "only-a-prefix-of-the-list"
			}
			for _, s := range k.Sources {
				if s.V.want(l.T) == got {
					obs = "value-of-" + s.Kind
					if s.Tag != "" && k.Kind == "cross" {
						obs += ":" + s.Tag
					}
				}
			}
			res.Sig = fmt.Sprintf("precedence:%s:%s-should-win:got=%s", l.Path, k.Winner, obs)
			res.What = fmt.Sprintf("%s with %s: effective value %s, expected %s (value of %s)", l.Path, ev.J(k.Sources), got, want, k.Winner)
			if k.Also != nil {
				res.Sig += ":when-" + k.AlsoLeaf + "-is-given-by-" + k.Also.Kind + "-too"
				res.What += fmt.Sprintf(" [in the same invocation %s is given by %s as well]", k.AlsoLeaf, k.Also.Kind)
			}
		}
	case "expand", "expand-cmd":
		w.evalExpand(k, l, &res)
	case "validated":
		w.evalValidated(k, l, &res)
	case "default":
		w.evalDefault(k, l, &res)
	default:
		panic("unknown case kind " + k.Kind)
	}
	return
}

// the valid target value V of an expansion case, and where it sits inside the setting
func expandTarget(l leaf) (v value, target string, rebuild func(elem string) value) {
	vs := values(l, 4)
	v = vs[0]
	switch v.K {
	case "l":
		target = v.L[1]
		rebuild = func(e string) value { return value{K: "l", L: []string{v.L[0], e}} }
	case "m":
		target = "expandedvalue"
		v = value{K: "m", M: map[string]string{"plain": "p", "ref": target}}
		rebuild = func(e string) value { return value{K: "m", M: map[string]string{"plain": "p", "ref": e}} }
	default:
		target = v.S
		rebuild = func(e string) value { return sv(e) }
	}
	return
}

// evalExpandList: list placements. Mode "list:<e1>,<e2>[,<e3>]" with elements lit | ref | unset.
func (w *worker) evalExpandList(k kase, l leaf, res *result) {
	elemType, _ := validationArg(l, "elementType")
	if elemType == "string" {
		elemType = ""
	}
	shape := strings.Split(strings.TrimPrefix(k.Mode, "list:"), ",")
	env := map[string]string{}
	var written, want []string
	for i, e := range shape {
		lit := stringFor(l, elemType, i)
		switch e {
		case "lit":
			written, want = append(written, lit), append(want, lit)
		case "ref":
			name := fmt.Sprintf("VERIF_L%d", i)
			env[name] = lit
			written, want = append(written, "${"+name+"}"), append(want, lit)
		case "unset":
			// an unset reference stays as written; settings whose validation refuses that text reject the file
			written, want = append(written, "${VERIF_NOT_SET}"), append(want, "${VERIF_NOT_SET}")
		}
	}
	f1 := map[string]string{}
	withCompanions(l, f1)[l.Path] = value{K: "l", L: written}.yamlText(l.T)
	root, errText := w.load("", f1, map[string]string{}, nil, env)
	hasUnset := strings.Contains(k.Mode, "unset")
	res.Outcome = "expand:" + k.Mode
	if !root.IsValid() {
		if hasUnset {
			res.Outcome = "expand:" + k.Mode + ":literal-rejected"
			return
		}
		res.Sig = fmt.Sprintf("expand:%s:rejected:%s:%s", k.Mode, l.T.String(), l.Path)
		res.What = fmt.Sprintf("%s written as %s with %s is rejected: %s", l.Path, ev.J(written), ev.J(env), errText)
		return
	}
	res.Nontrivial = k.Kind + "|" + l.Path + "|" + k.Mode
	wantText := value{K: "l", L: want}.want(l.T)
	if got := w.eff(root, l); got != wantText {
		res.Sig = fmt.Sprintf("expand:%s:not-expanded:%s:%s", k.Mode, l.T.String(), l.Path)
		res.What = fmt.Sprintf("%s written as %s with %s: effective value %s, expected %s", l.Path, ev.J(written), ev.J(env), got, wantText)
	}
}

func (w *worker) evalExpand(k kase, l leaf, res *result) {
	if strings.HasPrefix(k.Mode, "list:") {
		w.evalExpandList(k, l, res)
		return
	}
	full, target, rebuild := expandTarget(l)
	if len(target) < 3 {
		panic("target too short")
	}
	env := map[string]string{}
	var written string
	switch k.Mode {
	case "set", "unset", "empty":
		written = "${VERIF_A}"
		if k.Mode == "set" {
			env["VERIF_A"] = target
		}
		if k.Mode == "empty" {
			env["VERIF_A"] = ""
		}
	case "embedded":
		written = target[:1] + "${VERIF_A}" + target[len(target)-1:]
		env["VERIF_A"] = target[1 : len(target)-1]
	case "twice":
		h := len(target) / 2
		written = "${VERIF_A}${VERIF_B}"
		env["VERIF_A"], env["VERIF_B"] = target[:h], target[h:]
	default: // expand-cmd: "flag:<tag>" | "env:<tag>"
		written = "${VERIF_A}"
		env["VERIF_A"] = target
	}
	f1 := map[string]string{}
	var args []string
	if k.Kind == "expand-cmd" {
		ch, tag, _ := strings.Cut(k.Mode, ":")
		if ch == "flag" {
			args = flagArgs(tag, sv(written))
		} else {
			n, v := envPair(tag, sv(written))
			env[n] = v
		}
	} else {
		withCompanions(l, f1)[l.Path] = rebuild(written).yamlText(l.T)
	}
	root, errText := w.load("", f1, map[string]string{}, args, env)
	want := full.want(l.T)
	unexpanded := rebuild(written).want(l.T)
	kindOfString := "string"
	if l.T == tLevel {
		kindOfString = "documented-string(" + l.T.String() + ")"
	} else if l.T.Kind() != reflect.String {
		kindOfString = l.T.String()
	}
	switch k.Mode {
	case "unset", "empty":
		// unset: the reference must stay as written (a loader that then rejects the literal text is fine).
		// set-but-empty: the statement only speaks about "unset"; both readings (left as written, or replaced by
		// the empty string) are accepted.
		res.Outcome = "expand:" + k.Mode + ":kept"
		if !root.IsValid() {
			res.Outcome = "expand:" + k.Mode + ":literal-rejected"
			return
		}
		got := w.eff(root, l)
		okEmpty := k.Mode == "empty" && got == rebuild("").want(l.T)
		if got != unexpanded && !okEmpty {
			res.Sig = fmt.Sprintf("expand:%s:reference-not-left-unchanged:%s:%s", k.Mode, kindOfString, l.Path)
			res.What = fmt.Sprintf("%s written as %s with VERIF_A %s: effective value %s, expected it unchanged (%s)", l.Path, rebuild(written).yamlText(l.T), k.Mode, got, unexpanded)
		}
		return
	}
	res.Outcome = "expand:" + k.Mode
	res.Nontrivial = k.Kind + "|" + l.Path + "|" + k.Mode
	if !root.IsValid() {
		res.Sig = fmt.Sprintf("expand:%s:rejected:%s:%s", k.Kind+"/"+k.Mode, kindOfString, l.Path)
		res.What = fmt.Sprintf("%s written as %s with %s (expands to the valid value %s) is rejected: %s", l.Path, ev.J(written), ev.J(env), want, errText)
		return
	}
	if got := w.eff(root, l); got != want {
		res.Sig = fmt.Sprintf("expand:%s:not-expanded:%s:%s", k.Kind+"/"+k.Mode, kindOfString, l.Path)
		res.What = fmt.Sprintf("%s written as %s with %s: effective value %s, expected %s", l.Path, ev.J(written), ev.J(env), got, want)
	}
}

// a value that validation must refuse for this setting (by its documented type / format), or "".
func badFor(l leaf) (bad string, why string) {
	elem, _ := validationArg(l, "elementType")
	mt := ""
	if l.Meta != nil {
		mt = l.Meta.Type
	}
	if l.T.Kind() == reflect.Slice {
		mt = elem
	}
	switch {
	case mt == "hostport":
		return "nocolonhere", "hostport"
	case mt == "url":
		return "ftp://not-http.example.com", "url"
	case hasValidation(l, "format", "apikey"), hasValidation(l, "format", "apikeyOrBlank"):
		return "short", "apikey"
	case hasValidation(l, "format", "version"):
		return "two.oh", "version"
	case hasValidation(l, "format", "alphanumeric"):
		return "has-dash", "alphanumeric"
	case l.Meta != nil && len(l.Meta.Choices) > 0 && (hasValidation(l, "choice", "") || l.Meta.ValueType == "choice"):
		return "nosuchchoice", "choice"
	}
	return "", ""
}

func (w *worker) evalValidated(k kase, l leaf, res *result) {
	bad, why := badFor(l)
	if bad == "" {
		res.Outcome = "validated:no-format-rule"
		return
	}
	mk := func(s string) value {
		if l.T.Kind() == reflect.Slice {
			return value{K: "l", L: []string{s}}
		}
		return sv(s)
	}
	// reference: the bad value written literally must be rejected, else this setting has no usable rule
	lit := withCompanions(l, map[string]string{})
	lit[l.Path] = mk(bad).yamlText(l.T)
	root, _ := w.load("", lit, map[string]string{}, nil, nil)
	if root.IsValid() {
		res.Outcome = "validated:" + why + ":literal-accepted(no rule enforced)"
		return
	}
	if k.Mode == "literal" {
		res.Outcome = "validated:" + why + ":literal-rejected"
		res.Nontrivial = "validated|" + l.Path + "|literal"
		return
	}
	f1 := withCompanions(l, map[string]string{})
	env := map[string]string{}
	var args []string
	ch, tag, _ := strings.Cut(k.Mode, ":")
	switch ch {
	case "expanded":
		f1[l.Path] = mk("${VERIF_A}").yamlText(l.T)
		env["VERIF_A"] = bad
	case "flag":
		args = flagArgs(tag, mk(bad))
	case "env":
		n, v := envPair(tag, mk(bad))
		env[n] = v
	}
	root, _ = w.load("", f1, map[string]string{}, args, env)
	res.Outcome = "validated:" + why + ":" + ch + ":rejected"
	res.Nontrivial = "validated|" + l.Path + "|" + k.Mode
	if root.IsValid() {
		got := w.eff(root, l)
		if got == mk(bad).want(l.T) {
			res.Sig = fmt.Sprintf("validated-vs-used:%s-rule-not-applied-to-value-from-%s:%s", why, ch, l.Path)
			res.What = fmt.Sprintf("%s = %q is rejected when written literally in the file, but the same value arriving via %s is accepted and used (effective value %s)", l.Path, bad, k.Mode, got)
		} else {
			res.Outcome = "validated:" + why + ":" + ch + ":accepted-but-not-used"
		}
	}
}

func (w *worker) evalDefault(k kase, l leaf, res *result) {
	res.Outcome = "default:undocumented"
	if l.Meta == nil || l.Meta.Default == nil || l.Meta.LastVersion != "" {
		return
	}
	doc := fmt.Sprint(l.Meta.Default)
	got := w.base[l.Path]
	var want string
	switch {
	case l.T == tDuration:
		d, err := time.ParseDuration(doc)
		if err != nil {
			return
		}
		want = strconv.FormatInt(int64(d), 10)
	case l.T == tMemory:
		var m config.MemorySize
		if doc == "0" {
			want = "0"
		} else if err := m.UnmarshalText([]byte(doc)); err == nil {
			// the documented default is a text in the product's own unit syntax; only used for equality with itself
			want = strconv.FormatUint(uint64(m), 10)
		} else {
			return
		}
	case l.T.Kind() == reflect.Slice || l.T.Kind() == reflect.Map:
		return // documented as prose
	default:
		want = strings.ReplaceAll(doc, "_", "")
		if l.T.Kind() == reflect.String || l.T == tLevel {
			want = doc
		}
	}
	res.Outcome = "default:documented"
	if want != "" && want != "0" && want != "false" {
		res.Nontrivial = "default|" + l.Path
	}
	if got != want {
		res.Sig = "default:effective-differs-from-documented:" + l.Path
		res.What = fmt.Sprintf("%s with no source set: effective value %s, documented default %s", l.Path, got, want)
	}
}

// ---------------------------------------------------------------------------------------------

func setup(dir string, thorough bool) *worker {
	for _, e := range os.Environ() {
		n, _, _ := strings.Cut(e, "=")
		if strings.HasPrefix(n, "REFINERY_") || n == "VERIF_A" || n == "VERIF_B" || n == "HONEYCOMB_CONFIG_KEY" {
			os.Unsetenv(n)
		}
	}
	if err := os.MkdirAll(dir, 0o755); err != nil {
		ev.Harness("%v", err)
	}
	w := &worker{dir: dir, base: map[string]string{}}
	os.Setenv("C29_CASE_DIR", dir) // scrubbed from messages so that results do not depend on which worker ran a case
	md, err := config.LoadConfigMetadata()
	if err != nil {
		ev.Harness("metadata: %v", err)
	}
	root, errText := w.load("", map[string]string{}, map[string]string{}, nil, nil)
	if !root.IsValid() {
		ev.Harness("baseline configuration rejected: %s", errText)
	}
	w.leaves = walk(root, md)
	for _, l := range w.leaves {
		w.base[l.Path] = w.eff(root, l)
	}
	w.cases = buildCases(w.leaves, thorough)
	return w
}

func workerMain() {
	thorough := os.Getenv("VERIF_TIER") == "thorough"
	w := setup(os.Getenv("C29_WORKER_DIR"), thorough)
	in := bufio.NewScanner(os.Stdin)
	// anything the code under test prints to stdout is discarded by the parent; the protocol uses fd 3
	out := bufio.NewWriter(os.NewFile(3, "proto"))
	for in.Scan() {
		idx, err := strconv.Atoi(strings.TrimSpace(in.Text()))
		if err != nil || idx < 0 || idx >= len(w.cases) {
			fmt.Fprintln(out, ev.J(result{Idx: -1, Harness: "bad index " + in.Text()}))
			out.Flush()
			continue
		}
		fmt.Fprintln(out, ev.J(w.eval(idx)))
		out.Flush()
	}
}

type proc struct {
	cmd *exec.Cmd
	in  *bufio.Writer
	out *bufio.Scanner
}

func startWorker(i int, work string) *proc {
	pr, pw, err := os.Pipe()
	if err != nil {
		ev.Harness("%v", err)
	}
	cmd := exec.Command(os.Args[0], "c29-worker")
	cmd.Env = append(os.Environ(), "C29_WORKER_DIR="+filepath.Join(work, fmt.Sprintf("w%02d", i)))
	cmd.ExtraFiles = []*os.File{pw}
	cmd.Stdout = nil // whatever the code under test prints is discarded
	cmd.Stderr = os.Stderr
	stdin, err := cmd.StdinPipe()
	if err != nil {
		ev.Harness("%v", err)
	}
	if err := cmd.Start(); err != nil {
		ev.Harness("cannot start worker: %v", err)
	}
	pw.Close()
	sc := bufio.NewScanner(pr)
	sc.Buffer(make([]byte, 1<<20), 1<<24)
	return &proc{cmd: cmd, in: bufio.NewWriter(stdin), out: sc}
}

func (p *proc) ask(idx int) result {
	fmt.Fprintf(p.in, "%d\n", idx)
	p.in.Flush()
	if !p.out.Scan() {
		ev.Harness("worker died while evaluating case %d", idx)
	}
	var r result
	if err := json.Unmarshal(p.out.Bytes(), &r); err != nil {
		ev.Harness("worker protocol: %v: %q", err, p.out.Text())
	}
	if r.Harness != "" || r.Idx != idx {
		ev.Harness("worker: %s (asked %d got %d)", r.Harness, idx, r.Idx)
	}
	return r
}

func main() {
	if len(os.Args) > 1 && os.Args[1] == "c29-worker" {
		workerMain()
		return
	}
	r := ev.New("C29", "exploration")
	work := os.Getenv("VERIF_WORK")
	if work == "" {
		ev.Harness("VERIF_WORK not set (run through ./vcheck)")
	}
	work = filepath.Join(work, "files")
	os.RemoveAll(work)
	defer os.RemoveAll(work)
	os.Setenv("VERIF_TIER", r.Tier)
	// the parent builds the same case list (only to know its size and to describe cases in replays)
	w := setup(filepath.Join(work, "parent"), r.Thorough())

	if path := replayArg(); path != "" {
		replay(w, path)
	}

	const nWorkers = 16
	pool := make(chan *proc, nWorkers)
	var procs []*proc
	for i := 0; i < nWorkers; i++ {
		p := startWorker(i, work)
		procs = append(procs, p)
		pool <- p
	}
	results := make([]result, len(w.cases))
	enumx.Each(r, "cases", []int{len(w.cases)}, nWorkers, func(idx []int) {
		p := <-pool
		results[idx[0]] = p.ask(idx[0])
		pool <- p
	})
	for _, p := range procs {
		p.in.Flush()
		p.cmd.Process.Kill()
		p.cmd.Wait()
	}
	// determinism self-check: re-evaluate a spread of cases in the parent process itself (different process,
	// different order) and demand identical results
	for i := 0; i < len(w.cases); i += 37 {
		again := w.eval(i)
		if ev.J(again) != ev.J(results[i]) {
			ev.Harness("case %d evaluated twice gives different results:\n %s\n %s", i, ev.J(results[i]), ev.J(again))
		}
	}
	kinds := map[string]int{}
	outcomes := map[string]int{}
	skipped := map[string]string{}
	var mu sync.Mutex
	_ = mu
	for i, res := range results {
		k := w.cases[i]
		kinds[k.Kind]++
		r.Distinct("distinct_outcomes", res.Outcome)
		outcomes[strings.SplitN(res.Outcome, ":", 3)[0]+":"+lastPart(res.Outcome)]++
		if res.Nontrivial != "" && res.Skip == "" {
			r.Distinct("distinct_nontrivial", res.Nontrivial)
		}
		if res.Skip != "" {
			skipped[k.Leaf+" ["+k.Kind+"]"] = res.Skip
			continue
		}
		if res.Sig != "" {
			r.Violation(res.Sig, res.What, k)
		}
		if i%131 == 0 {
			r.Sample(map[string]any{"case": k, "outcome": res.Outcome})
		}
	}
	// a generated value the loader rejects means the value generator does not know a cross-field rule of that
	// setting: those cases check nothing, so they are reported and make the run non-exhaustive.
	if len(skipped) > 0 {
		var ks []string
		for k, v := range skipped {
			ks = append(ks, k+": "+v)
		}
		sort.Strings(ks)
		r.Set("cases_skipped_generated_value_rejected", ks)
		r.Cap(fmt.Sprintf("%d setting/kind combinations skipped because the generated value was rejected by the loader", len(skipped)))
	}
	var covered, all []string
	have := map[string]bool{}
	for _, k := range w.cases {
		have[k.Leaf] = true
	}
	for _, l := range w.leaves {
		all = append(all, l.Path)
		if have[l.Path] {
			covered = append(covered, l.Path)
		}
	}
	r.Set("settings_total", len(all))
	r.Set("settings_covered", len(covered))
	r.Set("cases_by_kind", kinds)
	r.Set("outcome_counts", outcomes)
	r.Set("rule", "effective(setting) = value of the highest-priority source present among flag > env var > later file > earlier file > default; ${VAR} in a string-valued setting -> value of VAR (unchanged when unset); a value validation refuses literally is refused by every route that would make it the used value")
	r.Set("bounds", map[string]any{"files": 2, "values_per_setting": 4, "formats": ev.Pick(r, "yaml", "yaml,toml,json"), "expansion_modes": ev.Pick(r, "set,embedded,twice,unset", "set,embedded,twice,unset,empty"), "workers": nWorkers})
	r.Assume("precedence follows the statement (flag > env); README.md states the opposite order for flag vs env, config/cmdenv.go documents flag > env")
	r.Assume("maps: only the keys of the winning source are demanded; whether keys of overridden sources survive is left open")
	r.Assume("settings with two cmdenv sources: only same-channel competition (flag vs flag, env vs env: first-listed, specific one wins, README note) is checked; specific-env vs generic-flag is left open")
	r.Assume("'string-valued setting' = documented type string/hostport/url (incl. Logger.Level, documented as string), string list elements and string map values; map keys are not values")
	r.Assume("set-but-empty variable: both 'left unchanged' and 'replaced by the empty string' accepted (the statement only defines unset)")
	r.Assume("'validated = used' is checked in the direction: a value that validation refuses literally must be refused whenever another route (expansion, flag, env) would make it the used value; an invalid file value that is overridden by a valid flag/env value and still rejected is not flagged")
	r.Assume("NewConfig is called without a version string (as the repository's own tests do), so deprecated settings load with a warning; zero-valued file entries for settings with non-zero defaults are outside the alphabet (except explicit false for booleans)")
	locationsPart(r)
	r.Finish()
}

func lastPart(s string) string {
	p := strings.Split(s, ":")
	return p[len(p)-1]
}

func replayArg() string {
	for i, a := range os.Args {
		if a == "--replay" && i+1 < len(os.Args) {
			return os.Args[i+1]
		}
	}
	return ""
}

func replay(w *worker, path string) {
	b, err := os.ReadFile(path)
	if err != nil {
		ev.Harness("replay: %v", err)
	}
	var rec struct {
		Replay kase `json:"replay"`
	}
	if err := json.Unmarshal(b, &rec); err != nil {
		ev.Harness("replay: %v", err)
	}
	want := ev.J(rec.Replay)
	for i, k := range w.cases {
		if ev.J(k) == want {
			res := w.eval(i)
			os.RemoveAll(filepath.Dir(w.dir))
			if res.Sig != "" {
				fmt.Printf("VIOLATION property=C29 replay=%s\n  detail: %s :: %s\n", path, res.Sig, res.What)
				os.Exit(1)
			}
			fmt.Printf("replay: no violation (%s %s)\n", res.Outcome, res.Skip)
			os.Exit(0)
		}
	}
	ev.Harness("replay: case not in this tier's case list")
}
