// C15: stress relief switches with hysteresis on a bounded stress level.
//
// Engine E1 (seqx): breadth-first search over histories of
//   - own-level recalculations (the real Recalc(), fed through the real metrics seam: queue-length and
//     heap gauges chosen so that the node's own level is exactly 0, D-1, D, A-1, A, 100 for both
//     threshold sets),
//   - peer stress reports delivered to the real pubsub subscription callback (2 peers x 3 levels),
//   - clock advances (1ns, MinimumActivationDuration-1ns, PeerEntryTimeout-1ns; sums land exactly on,
//     1ns before and 1ns after both deadlines),
//   - reloads of mode, thresholds and minimum duration (MockConfig + the real UpdateFromConfig()),
//
// on a real collect.StressRelief started with its real Start() (the 100ms background loop is disabled
// with the switch the repository's own tests use; its body - Recalc() - is an explicit event).
//
// Oracle, written from the property statement:
//  1. acted level (the stress_level gauge) = max(own, RMS of the recent non-zero reports), in [0,100];
//  2. never / always: relief off / on after every recalculation;
//  3. monitor: on when the level is >= ActivationLevel; switches on only then; switches off only if the
//     level is < DeactivationLevel and >= MinimumActivationDuration has passed since the last sample
//     that was >= DeactivationLevel.
package main

import (
	"context"
	"fmt"
	"math"
	"os"
	"runtime/pprof"
	"sort"
	"strings"
	"sync"
	"time"

	"github.com/honeycombio/refinery/collect"
	"github.com/honeycombio/refinery/config"
	"github.com/honeycombio/refinery/logger"
	"github.com/honeycombio/refinery/metrics"
	"github.com/honeycombio/refinery/pubsub"
	"github.com/jonboulle/clockwork"

	"verif/engine/ev"
	"verif/engine/seqx"
)

var t0 = time.Date(2024, 1, 1, 0, 0, 0, 0, time.UTC)

const selfID = "self"

const peerTimeout = collect.VerifC15PeerEntryTimeout

// configuration domain (DeactivationLevel <= ActivationLevel in both)
type thresholds struct{ A, D uint }

var thrSets = []thresholds{{80, 50}, {100, 80}}
var minDurs = []time.Duration{2 * time.Second, 3 * time.Second}
var modes = []string{"monitor", "never", "always"}
var levels = []int{0, 49, 50, 79, 80, 99, 100}
var peerLevels = []int{0, 30, 100}
var peerIDs = []string{"p1", "p2"}

type event struct {
	Op string // recalc | peer | adv | mode | thr | mind
	L  int    // recalc/peer: level; mode: index into modes
	P  string // peer id
	D  string // adv: "1ns" | "min-1ns" | "T-1ns"
}

func (e event) String() string {
	switch e.Op {
	case "recalc":
		return fmt.Sprintf("recalc(%d)", e.L)
	case "peer":
		return fmt.Sprintf("peer(%s,%d)", e.P, e.L)
	case "adv":
		return "adv(" + e.D + ")"
	case "mode":
		return "mode(" + modes[e.L] + ")"
	}
	return e.Op
}

// ---- the seam that determines the node's own level: three gauges against three constants ----------
type gaugeSet struct{ peerQ, incomingQ, heap float64 }

const (
	capPeer     = 10000
	capIncoming = 10000
	capHeap     = 1000
)

// chosen so that the maximum over the three documented formulas truncates to the wanted level; which
// formula wins varies, the others carry smaller non-zero readings. Verified against the real Recalc
// at start-up (calibrate), never assumed.
var gaugesFor = map[int]gaugeSet{
	0:   {0, 0, 0},
	49:  {100, 49*49 + 1, 0},
	50:  {50*50 + 1, 0, 0},
	79:  {0, 79*79 + 1, 400},
	80:  {80*80 + 1, 79*79 + 1, 0},
	99:  {99*99 + 1, 0, 0},
	100: {99*99 + 1, 0, 2000},
}

// ---- environment stubs ------------------------------------------------------------------------------
type stubPubSub struct {
	cb pubsub.SubscriptionCallback
}
type stubSub struct{}

func (stubSub) Close() {}

func (p *stubPubSub) Publish(ctx context.Context, topic, message string) error { return nil }
func (p *stubPubSub) Subscribe(ctx context.Context, topic string, cb pubsub.SubscriptionCallback) pubsub.Subscription {
	p.cb = cb
	return stubSub{}
}
func (p *stubPubSub) FormatTopic(topic string) string { return topic }
func (p *stubPubSub) Close()                          {}
func (p *stubPubSub) Start() error                    { return nil }
func (p *stubPubSub) Stop() error                     { return nil }

type stubHealth struct{}

func (stubHealth) Register(string, time.Duration) {}
func (stubHealth) Unregister(string)              {}
func (stubHealth) Ready(string, bool)             {}

// cfgStub answers the one configuration question StressRelief asks (any other call would panic on the
// nil embedded interface, i.e. would be noticed).
type cfgStub struct {
	config.Config
	mu sync.Mutex
	sr config.StressReliefConfig
}

func (c *cfgStub) GetStressReliefConfig() config.StressReliefConfig {
	c.mu.Lock()
	defer c.mu.Unlock()
	return c.sr
}

type subject struct {
	clk *clockwork.FakeClock
	met *metrics.MockMetrics
	cfg *cfgStub
	ps  *stubPubSub
	sr  *collect.StressRelief
}

func build() *subject {
	s := &subject{clk: clockwork.NewFakeClockAt(t0), met: &metrics.MockMetrics{}, ps: &stubPubSub{}}
	s.met.Start()
	s.met.Store(collect.DENOMINATOR_PEER_CAP, capPeer)
	s.met.Store(collect.DENOMINATOR_INCOMING_CAP, capIncoming)
	s.met.Store(collect.DENOMINATOR_MEMORY_MAX_ALLOC, capHeap)
	s.cfg = &cfgStub{sr: config.StressReliefConfig{
		Mode: modes[0], ActivationLevel: thrSets[0].A, DeactivationLevel: thrSets[0].D,
		SamplingRate: 10, MinimumActivationDuration: config.Duration(minDurs[0])}}
	s.sr = &collect.StressRelief{
		RefineryMetrics: s.met, Config: s.cfg, Logger: &logger.NullLogger{}, Health: stubHealth{},
		PubSub: s.ps, Peer: collect.VerifC15Peers(selfID), Clock: s.clk, Done: make(chan struct{}),
	}
	collect.VerifC15NoBackground(s.sr)
	if err := s.sr.Start(); err != nil {
		ev.Harness("StressRelief.Start: %v", err)
	}
	if s.ps.cb == nil {
		ev.Harness("StressRelief.Start did not subscribe to the stress topic")
	}
	s.sr.UpdateFromConfig()
	return s
}

func (s *subject) setGauges(g gaugeSet) {
	s.met.Gauge(collect.NUMERATOR_PEER_QUEUE, g.peerQ)
	s.met.Gauge(collect.NUMERATOR_INCOMING_QUEUE, g.incomingQ)
	s.met.Gauge(collect.NUMERATOR_MEMORY_HEAP_ALLOC, g.heap)
}

func (s *subject) reload(mode int, thr int, min int) {
	s.cfg.mu.Lock()
	s.cfg.sr.Mode = modes[mode]
	s.cfg.sr.ActivationLevel = thrSets[thr].A
	s.cfg.sr.DeactivationLevel = thrSets[thr].D
	s.cfg.sr.MinimumActivationDuration = config.Duration(minDurs[min])
	s.cfg.mu.Unlock()
	s.sr.UpdateFromConfig()
}

func calibrate() {
	for _, l := range levels {
		s := build()
		s.setGauges(gaugesFor[l])
		if got := s.sr.Recalc(); int(got) != l {
			ev.Harness("seam calibration: gauges %+v give own level %d, wanted %d", gaugesFor[l], got, l)
		}
	}
}

// ---- reference model ----------------------------------------------------------------------------------
type report struct {
	level int
	at    time.Time
}

type stamp struct {
	has bool
	at  time.Time
	min time.Duration // MinimumActivationDuration in force at that sample
}

type model struct {
	mode, thr, min int
	peers          map[string]report
	// monitor-mode samples only (weakest reading: the monitor sentence speaks about monitor mode)
	lastOld stamp          // last sample >= the DeactivationLevel in force at that sample
	lastGE  map[uint]stamp // per possible DeactivationLevel d: last sample >= d
	episode bool           // relief is on because the monitor rule switched it on and only monitor-mode recalculations followed
	anyGE   map[uint]stamp // same, counting samples in every mode (strict reading, statistics only)
}

// allowedLevels returns every acted level the statement admits for this recalculation.
func (m *model) allowedLevels(own int, now time.Time) (map[int]bool, bool) {
	var definite, optional []int
	boundary := false
	var names []string
	for p := range m.peers {
		names = append(names, p)
	}
	sort.Strings(names)
	for _, p := range names {
		r := m.peers[p]
		age := now.Sub(r.at)
		if r.level == 0 || age > peerTimeout {
			continue
		}
		if age == peerTimeout {
			optional = append(optional, r.level) // "recent" leaves the exact instant open
			boundary = true
		} else {
			definite = append(definite, r.level)
		}
	}
	if own > 0 {
		optional = append(optional, own) // the node's own report may or may not count as a peer report
	}
	out := map[int]bool{}
	for mask := 0; mask < 1<<len(optional); mask++ {
		sum, n := 0.0, 0
		for _, v := range definite {
			sum += float64(v * v)
			n++
		}
		for i, v := range optional {
			if mask&(1<<i) != 0 {
				sum += float64(v * v)
				n++
			}
		}
		rms := 0.0
		if n > 0 {
			rms = math.Sqrt(sum / float64(n))
		}
		lo, hi := int(math.Floor(rms)), int(math.Ceil(rms))
		if math.Abs(rms-math.Round(rms)) < 1e-9 {
			lo, hi = int(math.Round(rms)), int(math.Round(rms))
		}
		for v := lo; v <= hi; v++ {
			a := v
			if own > a {
				a = own
			}
			out[a] = true
		}
	}
	return out, boundary
}

func keysOf(m map[int]bool) []int {
	var k []int
	for v := range m {
		k = append(k, v)
	}
	sort.Ints(k)
	return k
}

const clipOld = 4 * time.Second // > every MinimumActivationDuration in the domain

func offStamp(s stamp, now time.Time) string {
	if !s.has {
		return "-"
	}
	d := now.Sub(s.at)
	if d > clipOld {
		return "old"
	}
	return fmt.Sprintf("%d/%d", int64(d), int64(s.min))
}

// shortest (then lexicographically first) history in which the strict reading would object
var (
	debMu   sync.Mutex
	debBest string
	debLen  int
)

func noteDebatable(h []event) {
	k := fmt.Sprint(h)
	debMu.Lock()
	if debBest == "" || len(h) < debLen || (len(h) == debLen && k < debBest) {
		debBest, debLen = k, len(h)
	}
	debMu.Unlock()
}

func exec(r *ev.Run, h []event) (string, string, *seqx.Failure) {
	s := build()
	m := &model{peers: map[string]report{}, lastGE: map[uint]stamp{}, anyGE: map[uint]stamp{}}
	outcome := "init"
	for step, e := range h {
		last := step == len(h)-1
		switch e.Op {
		case "peer":
			s.ps.cb(context.Background(), fmt.Sprintf("%s|%d", e.P, e.L))
			m.peers[e.P] = report{e.L, s.clk.Now()}
			outcome = "peer"
		case "adv":
			var d time.Duration
			switch e.D {
			case "1ns":
				d = 1
			case "min-1ns":
				d = minDurs[m.min] - 1
			case "T-1ns":
				d = peerTimeout - 1
			}
			s.clk.Advance(d)
			outcome = "adv"
		case "mode":
			m.mode = e.L
			s.reload(m.mode, m.thr, m.min)
			outcome = "reload"
		case "thr":
			m.thr = 1 - m.thr
			s.reload(m.mode, m.thr, m.min)
			outcome = "reload"
		case "mind":
			m.min = 1 - m.min
			s.reload(m.mode, m.thr, m.min)
			outcome = "reload"
		case "recalc":
			now := s.clk.Now()
			s.setGauges(gaugesFor[e.L])
			before := s.sr.Stressed()
			own := int(s.sr.Recalc())
			after := s.sr.Stressed()
			lv, ok := s.met.Get("stress_level")
			if !ok {
				return "", "", &seqx.Failure{Sig: "level:gauge-missing", What: "stress_level gauge not emitted by Recalc"}
			}
			L := int(lv)
			where := fmt.Sprintf("step %d %v (own=%d, mode=%s A=%d D=%d min=%v)", step, e, own, modes[m.mode], thrSets[m.thr].A, thrSets[m.thr].D, minDurs[m.min])
			// 1. acted level
			allowed, boundary := m.allowedLevels(own, now)
			if L > 100 || L < 0 {
				return "", "", &seqx.Failure{Sig: "level:out-of-range", What: fmt.Sprintf("%s: acted level %d outside [0,100] with all reports in [0,100]", where, L)}
			}
			if !allowed[L] {
				tag := ""
				if boundary {
					tag = "@expiry-instant"
				}
				return "", "", &seqx.Failure{Sig: "level:not-max-own-rms" + tag,
					What: fmt.Sprintf("%s: acted level %d, statement admits %v (max(own, RMS of recent non-zero reports %v))", where, L, keysOf(allowed), m.peers)}
			}
			// model forgets reports that are past the timeout at a recalculation
			for p, rp := range m.peers {
				if now.Sub(rp.at) > peerTimeout {
					delete(m.peers, p)
				}
			}
			// 2./3. activation automaton
			A, D, minD := thrSets[m.thr].A, thrSets[m.thr].D, minDurs[m.min]
			switch modes[m.mode] {
			case "never":
				if after {
					return "", "", &seqx.Failure{Sig: "never:on", What: where + ": relief on in mode never"}
				}
				m.episode = false
			case "always":
				if !after {
					return "", "", &seqx.Failure{Sig: "always:off", What: where + ": relief off in mode always"}
				}
				m.episode = false
			case "monitor":
				switch {
				case uint(L) >= A:
					if !after {
						return "", "", &seqx.Failure{Sig: "monitor:not-on-at-activation-level", What: fmt.Sprintf("%s: level %d >= ActivationLevel but relief is off", where, L)}
					}
					m.episode = true
				case !before:
					if after {
						return "", "", &seqx.Failure{Sig: "monitor:on-below-activation-level", What: fmt.Sprintf("%s: relief switched on at level %d < ActivationLevel", where, L)}
					}
				case !m.episode:
					// Relief is on only as a left-over of `always` mode (it was not switched on by the monitor
					// rule, or non-monitor recalculations intervened). The statement's hysteresis sentence
					// describes monitor-mode episodes; for the left-over either answer is accepted (DESIGN C15 P).
					if last {
						r.Add("leftover_on_from_always_mode", 1)
						if !after {
							r.Add("leftover_switched_off", 1)
							c := m.anyGE[D]
							if uint(L) >= D || (c.has && now.Sub(c.at) < minD && now.Sub(c.at) < c.min) {
								// strict reading (every sample counts, whatever the mode) would object here
								r.Add("debatable_leftover_off_within_min_duration_of_a_sample_at_or_above_D", 1)
								noteDebatable(h)
							}
						}
					}
				case uint(L) >= D:
					if !after {
						return "", "", &seqx.Failure{Sig: "monitor:off-at-or-above-deactivation-level", What: fmt.Sprintf("%s: relief switched off at level %d >= DeactivationLevel", where, L)}
					}
				default: // monitor episode, level < D: switching off needs the minimum duration
					if !after {
						okOff := false
						var why []string
						for _, c := range []stamp{m.lastOld, m.lastGE[D]} {
							if !c.has {
								okOff = true
								continue
							}
							for _, md := range []time.Duration{c.min, minD} {
								if now.Sub(c.at) >= md {
									okOff = true
								}
							}
							why = append(why, fmt.Sprintf("last>=D %v ago (min %v|%v)", now.Sub(c.at), c.min, minD))
						}
						if !okOff {
							return "", "", &seqx.Failure{Sig: "monitor:off-before-minimum-duration",
								What: fmt.Sprintf("%s: relief switched off at level %d although %s", where, L, strings.Join(why, "; "))}
						}
						if last {
							r.Add("monitor_switch_off", 1)
							if c := m.lastGE[D]; c.has && now.Sub(c.at) == minD {
								r.Add("monitor_switch_off_exactly_at_min_duration", 1)
							}
						}
					} else if last {
						r.Add("monitor_held_on_below_D", 1)
					}
				}
				if last && !before && after {
					r.Add("monitor_switch_on", 1)
				}
				if !after {
					m.episode = false
				}
			}
			// record the sample
			for _, t := range thrSets {
				if uint(L) >= t.D {
					m.anyGE[t.D] = stamp{true, now, minD}
					if modes[m.mode] == "monitor" {
						m.lastGE[t.D] = stamp{true, now, minD}
					}
				}
			}
			if modes[m.mode] == "monitor" && uint(L) >= D {
				m.lastOld = stamp{true, now, minD}
			}
			cls := "L<D"
			if uint(L) >= A {
				cls = "L>=A"
			} else if uint(L) >= D {
				cls = "D<=L<A"
			}
			outcome = fmt.Sprintf("recalc/%s/%s/%v->%v/cluster>own=%v", modes[m.mode], cls, before, after, L > own)
			if last {
				r.Distinct("distinct_acted_levels", fmt.Sprint(L))
				if boundary {
					r.Add("recalc_at_exact_peer_expiry_instant", 1)
				}
			}
		}
	}
	// canonical state: configuration, relief flag, hidden hold-on deadline and report table of the real
	// object (time offsets relative to now), and the model's sample stamps.
	now := s.clk.Now()
	stay, reports := collect.VerifC15State(s.sr)
	so := int64(stay.Sub(now))
	if stay.Before(now) {
		so = -1 // only "now is after the deadline" matters once it has passed
	}
	var rp []string
	for _, x := range reports {
		if x.Key == selfID {
			continue // overwritten at the start of every recalculation before it is read
		}
		age := now.Sub(x.At)
		if age > peerTimeout {
			age = peerTimeout + 1
		}
		rp = append(rp, fmt.Sprintf("%s:%d:%d", x.Key, x.Level, int64(age)))
	}
	sort.Strings(rp)
	var mp []string
	for p, x := range m.peers {
		age := now.Sub(x.at)
		if age > peerTimeout {
			age = peerTimeout + 1
		}
		mp = append(mp, fmt.Sprintf("%s:%d:%d", p, x.level, int64(age)))
	}
	sort.Strings(mp)
	canon := fmt.Sprintf("%d|%d|%d|%v%v|%d|%s|%s|%s|%s|%s", m.mode, m.thr, m.min, s.sr.Stressed(), m.episode, so,
		strings.Join(rp, ","), strings.Join(mp, ","), offStamp(m.lastOld, now), offStamp(m.lastGE[50], now), offStamp(m.lastGE[80], now))
	return canon, outcome, nil
}

func main() {
	r := ev.New("C15", "model_checking")
	if p := os.Getenv("VERIF_PROF"); p != "" {
		f, _ := os.Create(p)
		pprof.StartCPUProfile(f)
	}
	calibrate()
	var alphabet []event
	for _, l := range levels {
		alphabet = append(alphabet, event{Op: "recalc", L: l})
	}
	for _, d := range []string{"1ns", "min-1ns", "T-1ns"} {
		alphabet = append(alphabet, event{Op: "adv", D: d})
	}
	for _, p := range peerIDs {
		for _, l := range peerLevels {
			alphabet = append(alphabet, event{Op: "peer", P: p, L: l})
		}
	}
	for i := range modes {
		alphabet = append(alphabet, event{Op: "mode", L: i})
	}
	alphabet = append(alphabet, event{Op: "thr"}, event{Op: "mind"})
	// VERIF_HISTORY="mode(always);recalc(100);mode(monitor);recalc(0)" runs one history and prints the verdict
	if hs := os.Getenv("VERIF_HISTORY"); hs != "" {
		var h []event
		for _, name := range strings.Split(hs, ";") {
			found := false
			for _, e := range alphabet {
				if e.String() == strings.TrimSpace(name) {
					h, found = append(h, e), true
				}
			}
			if !found {
				ev.Harness("unknown event %q", name)
			}
		}
		for i := 1; i <= len(h); i++ {
			c, o, f := exec(r, h[:i])
			fmt.Printf("%-16v outcome=%s canon=%s fail=%v\n", h[i-1], o, c, f)
		}
		for _, k := range []string{"leftover_on_from_always_mode", "leftover_switched_off", "debatable_leftover_off_within_min_duration_of_a_sample_at_or_above_D"} {
			fmt.Printf("%s=%d\n", k, r.Count(k))
		}
		os.Exit(0)
	}
	depth := ev.Pick(r, 7, 9)
	if d := os.Getenv("VERIF_DEPTH"); d != "" {
		fmt.Sscan(d, &depth)
	}
	seqx.Explore(r, seqx.Scenario[event]{
		Name:     "stress",
		Enabled:  func(h []event) []event { return alphabet },
		Exec:     func(h []event) (string, string, *seqx.Failure) { return exec(r, h) },
		MaxDepth: depth, Workers: 16,
		// every history of length <= 4 (21^4) is executed whatever the canonical key says
		NoMergeDepth: 3,
	})
	r.Set("traces_validated_against_impl", r.Count("transitions"))
	if debBest != "" {
		r.Set("debatable_example", "always->monitor left-over switched off within MinimumActivationDuration of a level >= DeactivationLevel: "+debBest)
	}
	var as []string
	for _, e := range alphabet {
		as = append(as, e.String())
	}
	r.Set("bounds", map[string]any{"alphabet": as, "depth": depth, "thresholds(A,D)": fmt.Sprint(thrSets), "min_durations": fmt.Sprint(minDurs),
		"peer_entry_timeout": peerTimeout.String(), "own_levels": levels, "peer_levels": peerLevels})
	r.Assume("Stressed() and the stress_level gauge are judged after every recalculation (that is when the level is 'acted on'); a reload takes effect at the next recalculation")
	r.Assume("rounding: any integer between floor and ceil of the RMS is accepted; a report aged exactly PeerEntryTimeout may or may not count as recent; the node's own non-zero level may or may not count among the peer reports")
	r.Assume("monitor sentence read weakly: the hysteresis sentence constrains relief that the monitor rule switched on (level reached ActivationLevel in monitor mode, only monitor-mode recalculations since); relief left on by `always` mode may be switched off or kept at the next monitor recalculation (counted as leftover_*/debatable_*, see FINDING.md); after a threshold/duration reload mid-episode either the value in force at that sample or the current one is accepted; 'switches off only when' is a necessary condition (staying on longer is never a violation)")
	r.Assume("configurations restricted to DeactivationLevel <= ActivationLevel; peer levels within [0,100]")
	r.Assume("canonical state = config indices, relief flag, real stayOnUntil and peer report table as offsets from now (deadline passed -> -1, age beyond timeout clipped), model sample stamps (older than 4s > every minimum duration clipped); the node's own table entry is excluded because every recalculation overwrites it before reading")
	pprof.StopCPUProfile()
	r.Finish()
}
