// C05: with DryRun on, every span handled by the collector is forwarded exactly once, with the client's sample
// rate and with meta.refinery.dryrun.kept = the decision the sampler made (see manifest.json / DESIGN §6 C05).
// The exploration (C01/C02 alphabet with DryRun on + client sample rates + stress-relief deliveries + the dry-run
// observer) lives in fix/collector/cx/c05_dryrun.go.
package main

import (
	"fmt"
	"strings"

	"github.com/honeycombio/refinery/collect"
	"github.com/honeycombio/refinery/config"

	"verif/engine/ev"
	"verif/fix/collector/cx"
)

func main() {
	r := ev.New("C05", "model_checking")
	cx.RunC05(r)

	// vacuity guard: the marker must have been judged on spans forwarded through EVERY decision path, for would-be-kept
	// and would-be-dropped traces alike
	seen := map[string]bool{}
	for _, p := range cx.DryPaths() {
		seen[p] = true
	}
	var missing []string
	for _, reason := range []string{collect.TraceSendGotRoot, collect.TraceSendExpired, collect.TraceSendSpanLimit, collect.TraceSendEjectedMemsize, collect.TraceSendLateSpan, "decided-by-stress-relief"} {
		for _, d := range []string{"kept", "dropped"} {
			if !seen[reason+"|"+d] {
				missing = append(missing, reason+"|"+d)
			}
		}
	}
	r.Set("decision_paths_judged", cx.DryPaths())
	if len(missing) > 0 && r.NViolations() == 0 {
		ev.Harness("the exploration never forwarded a span through: %s", strings.Join(missing, ", "))
	}
	if r.Count("forwarded_spans_checked") == 0 || r.Count("stress_relief_spans_dropped") == 0 || r.Count("stress_relief_spans_forwarded") == 0 ||
		r.Count("forwarded_spans_with_client_rate_above_1") == 0 || r.Count("markers_checked_against_reference_sampler") == 0 {
		if r.NViolations() == 0 {
			ev.Harness("vacuous run: a C05 counter is zero")
		}
	}
	r.Assume(fmt.Sprintf("the marker field is %q (the constant config.DryRunFieldName; the collector does not consult a configurable name)", config.DryRunFieldName))
	r.Assume("'the decision the sampler made' is read twice: the decision the collector recorded for the trace (decision cache / outgoing queue) and the verdict of an independently built sampler of the active configuration on the spans accepted when the trace was decided (deterministic and rules samplers); the marker must equal both")
	r.Assume("client sample rate unchanged = forwarded SampleRate equals the client's after mapping 0 (= absent at the collector) to 1 on both sides")
	r.Assume("spans handed to stress relief (ProcessSpanImmediately) may be dropped — the documented exception; when stress relief answers 'keep' the span must be forwarded exactly once with the client's rate. A trace DECIDED by stress relief has no sampler decision: its later spans must still be forwarded exactly once with the client's rate, the marker's value is not judged on them")
	r.Assume("stress-relief deliveries are offered only for traces that are not buffered (stress toggling while a trace is buffered is excluded by C01's statement); a late span of a forgotten kept decision legitimately starts a new trace (C01's proviso)")
	r.Assume("'forwarded' = handed to the capturing upstream transmission exactly once before or during the quiescence closure (advance past every deadline, tick every worker, run the sender) that follows every explored state; shutdown is C36's subject")
	r.Finish()
}
