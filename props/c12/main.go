// C12: sampler state is shared across workers and isolated between definitions.
// Engine E2 (enumx): every pair of sampler definitions (A, B) from
//
//	placement ∈ {two environments, environment vs prefixed dataset, top-level vs rule-downstream (two environments),
//	             top-level of an environment literally named like a downstream prefix vs that downstream,
//	             two downstream rules of two environments, two downstream rules of ONE environment}
//	× sampler type ∈ {Dynamic, EMADynamic, TotalThroughput, EMAThroughput, WindowedThroughput}
//	× B = A (identical, separately allocated) or B = A with exactly one configuration parameter changed
//	  (reflection over every field of the config struct; FieldList: other field / extra field / permuted / "a b" vs "a","b")
//
// is built on a fresh real sample.SamplerFactory through its public entry points, and the identity of the
// dynsampler-go instance behind each resulting sampler is read through a hook accessor.
// Oracle (from the statement): same instance ⇔ same environment ∧ entire configurations identical.
// Plus: 1..3 workers asking for one definition (top-level and downstream) all get one instance.
package main

import (
	"fmt"
	"reflect"
	"sort"
	"strings"
	"sync"
	"time"

	"github.com/honeycombio/refinery/config"
	"github.com/honeycombio/refinery/logger"
	"github.com/honeycombio/refinery/metrics"
	"github.com/honeycombio/refinery/sample"

	"verif/engine/enumx"
	"verif/engine/ev"
)

// ---- base definitions: every parameter set to a non-zero, non-default, valid value ----
func bases() []any {
	fl := []string{"a", "b"}
	return []any{
		&config.DynamicSamplerConfig{SampleRate: 10, ClearFrequency: config.Duration(45 * time.Second), FieldList: fl, MaxKeys: 100, UseTraceLength: true},
		&config.EMADynamicSamplerConfig{GoalSampleRate: 10, AdjustmentInterval: config.Duration(20 * time.Second), Weight: 0.4, AgeOutValue: 0.4,
			BurstMultiple: 3, BurstDetectionDelay: 4, FieldList: fl, MaxKeys: 100, UseTraceLength: true},
		&config.TotalThroughputSamplerConfig{GoalThroughputPerSec: 50, UseClusterSize: true, ClearFrequency: config.Duration(45 * time.Second), FieldList: fl, MaxKeys: 100, UseTraceLength: true},
		&config.EMAThroughputSamplerConfig{GoalThroughputPerSec: 50, UseClusterSize: true, InitialSampleRate: 7, AdjustmentInterval: config.Duration(20 * time.Second),
			Weight: 0.4, AgeOutValue: 0.4, BurstMultiple: 3, BurstDetectionDelay: 4, FieldList: fl, MaxKeys: 100, UseTraceLength: true},
		&config.WindowedThroughputSamplerConfig{UpdateFrequency: config.Duration(2 * time.Second), LookbackFrequency: config.Duration(20 * time.Second),
			GoalThroughputPerSec: 50, UseClusterSize: true, FieldList: fl, MaxKeys: 100, UseTraceLength: true},
	}
}

func typeName(c any) string {
	return strings.TrimSuffix(reflect.TypeOf(c).Elem().Name(), "Config")
}

type variant struct {
	Param string // "" = identical
	Note  string
	Cfg   any
	Rel   string // how B relates to A: "identical" | "different" | "same-as-set" (field list permuted: either answer accepted)
}

func clone(c any) any {
	v := reflect.ValueOf(c).Elem()
	n := reflect.New(v.Type())
	n.Elem().Set(v)
	if f := n.Elem().FieldByName("FieldList"); f.IsValid() {
		f.Set(reflect.ValueOf(append([]string{}, f.Interface().([]string)...)))
	}
	return n.Interface()
}

// variants returns B = identical copy, then one variant per struct field (several for the field list).
func variants(base any) []variant {
	out := []variant{{"", "identical", clone(base), "identical"}}
	t := reflect.TypeOf(base).Elem()
	for i := 0; i < t.NumField(); i++ {
		f := t.Field(i)
		mk := func(note string, rel string, set func(v reflect.Value)) {
			c := clone(base)
			set(reflect.ValueOf(c).Elem().Field(i))
			if reflect.DeepEqual(c, base) {
				ev.Harness("variant %s.%s (%s) does not differ from the base", t.Name(), f.Name, note)
			}
			out = append(out, variant{f.Name, note, c, rel})
		}
		switch {
		case f.Type.Kind() == reflect.Slice && f.Type.Elem().Kind() == reflect.String:
			mk("other field", "different", func(v reflect.Value) { v.Set(reflect.ValueOf([]string{"a", "c"})) })
			mk("extra field", "different", func(v reflect.Value) { v.Set(reflect.ValueOf([]string{"a", "b", "c"})) })
			mk("one field 'a b' instead of two", "different", func(v reflect.Value) { v.Set(reflect.ValueOf([]string{"a b"})) })
			mk("permuted", "same-as-set", func(v reflect.Value) { v.Set(reflect.ValueOf([]string{"b", "a"})) })
		case f.Type.Name() == "Duration":
			mk("doubled", "different", func(v reflect.Value) { v.SetInt(v.Int() * 2) })
		case f.Type.Kind() == reflect.Int || f.Type.Kind() == reflect.Int64:
			mk("+1", "different", func(v reflect.Value) { v.SetInt(v.Int() + 1) })
		case f.Type.Kind() == reflect.Uint:
			mk("+1", "different", func(v reflect.Value) { v.SetUint(v.Uint() + 1) })
		case f.Type.Kind() == reflect.Float64:
			mk("halved", "different", func(v reflect.Value) { v.SetFloat(v.Float() / 2) })
		case f.Type.Kind() == reflect.Bool:
			mk("flipped", "different", func(v reflect.Value) { v.SetBool(!v.Bool()) })
		default:
			ev.Harness("config field %s.%s has a kind (%v) this check cannot vary — extend variants()", t.Name(), f.Name, f.Type)
		}
	}
	return out
}

func topLevel(c any) *config.V2SamplerChoice {
	switch c := c.(type) {
	case *config.DynamicSamplerConfig:
		return &config.V2SamplerChoice{DynamicSampler: c}
	case *config.EMADynamicSamplerConfig:
		return &config.V2SamplerChoice{EMADynamicSampler: c}
	case *config.TotalThroughputSamplerConfig:
		return &config.V2SamplerChoice{TotalThroughputSampler: c}
	case *config.EMAThroughputSamplerConfig:
		return &config.V2SamplerChoice{EMAThroughputSampler: c}
	case *config.WindowedThroughputSamplerConfig:
		return &config.V2SamplerChoice{WindowedThroughputSampler: c}
	}
	ev.Harness("unknown config %T", c)
	return nil
}

func downstream(c any) *config.RulesBasedDownstreamSampler {
	switch c := c.(type) {
	case *config.DynamicSamplerConfig:
		return &config.RulesBasedDownstreamSampler{DynamicSampler: c}
	case *config.EMADynamicSamplerConfig:
		return &config.RulesBasedDownstreamSampler{EMADynamicSampler: c}
	case *config.TotalThroughputSamplerConfig:
		return &config.RulesBasedDownstreamSampler{TotalThroughputSampler: c}
	case *config.EMAThroughputSamplerConfig:
		return &config.RulesBasedDownstreamSampler{EMAThroughputSampler: c}
	case *config.WindowedThroughputSamplerConfig:
		return &config.RulesBasedDownstreamSampler{WindowedThroughputSampler: c}
	}
	ev.Harness("unknown config %T", c)
	return nil
}

// a rules-based sampler whose rules carry the given downstream definitions (rule 0 conditional, the rest catch-all)
func rulesWith(cs ...any) *config.V2SamplerChoice {
	rb := &config.RulesBasedSamplerConfig{}
	for i, c := range cs {
		rule := &config.RulesBasedSamplerRule{Name: fmt.Sprintf("rule%d", i), Sampler: downstream(c)}
		if i == 0 {
			rule.Conditions = []*config.RulesBasedSamplerCondition{{Field: "tier", Operator: "=", Value: "premium"}}
		}
		rb.Rules = append(rb.Rules, rule)
	}
	return &config.V2SamplerChoice{RulesBasedSampler: rb}
}

type placement struct {
	Name    string
	SameEnv bool
	// build returns the rules (destination -> sampler) and how to obtain the two samplers
	Build func(a, b any) (map[string]*config.V2SamplerChoice, func(f *sample.SamplerFactory) (sample.Sampler, sample.Sampler))
}

func get(f *sample.SamplerFactory, dest string) sample.Sampler {
	s := f.GetSamplerImplementationForKey(dest)
	if s == nil {
		ev.Harness("no sampler for %q", dest)
	}
	return s
}

func down(f *sample.SamplerFactory, dest string, i int) sample.Sampler {
	s := sample.VerifDownstreamOf(get(f, dest), i)
	if s == nil {
		ev.Harness("no downstream sampler %d for %q", i, dest)
	}
	return s
}

var placements = []placement{
	{"two-environments", false, func(a, b any) (map[string]*config.V2SamplerChoice, func(*sample.SamplerFactory) (sample.Sampler, sample.Sampler)) {
		return map[string]*config.V2SamplerChoice{"prod": topLevel(a), "staging": topLevel(b)},
			func(f *sample.SamplerFactory) (sample.Sampler, sample.Sampler) {
				return get(f, "prod"), get(f, "staging")
			}
	}},
	{"environments-differing-only-in-case", false, func(a, b any) (map[string]*config.V2SamplerChoice, func(*sample.SamplerFactory) (sample.Sampler, sample.Sampler)) {
		return map[string]*config.V2SamplerChoice{"prod": topLevel(a), "Prod": topLevel(b)},
			func(f *sample.SamplerFactory) (sample.Sampler, sample.Sampler) { return get(f, "prod"), get(f, "Prod") }
	}},
	{"environment-vs-prefixed-dataset", false, func(a, b any) (map[string]*config.V2SamplerChoice, func(*sample.SamplerFactory) (sample.Sampler, sample.Sampler)) {
		return map[string]*config.V2SamplerChoice{"prod": topLevel(a), "classic.prod": topLevel(b)},
			func(f *sample.SamplerFactory) (sample.Sampler, sample.Sampler) {
				return get(f, "prod"), get(f, "classic.prod")
			}
	}},
	{"top-level-vs-downstream", false, func(a, b any) (map[string]*config.V2SamplerChoice, func(*sample.SamplerFactory) (sample.Sampler, sample.Sampler)) {
		return map[string]*config.V2SamplerChoice{"prod": topLevel(a), "staging": rulesWith(b)},
			func(f *sample.SamplerFactory) (sample.Sampler, sample.Sampler) {
				return get(f, "prod"), down(f, "staging", 0)
			}
	}},
	{"environment-named-like-downstream-prefix", false, func(a, b any) (map[string]*config.V2SamplerChoice, func(*sample.SamplerFactory) (sample.Sampler, sample.Sampler)) {
		return map[string]*config.V2SamplerChoice{"rules:staging:": topLevel(a), "staging": rulesWith(b)},
			func(f *sample.SamplerFactory) (sample.Sampler, sample.Sampler) {
				return get(f, "rules:staging:"), down(f, "staging", 0)
			}
	}},
	{"downstream-rules-of-two-environments", false, func(a, b any) (map[string]*config.V2SamplerChoice, func(*sample.SamplerFactory) (sample.Sampler, sample.Sampler)) {
		return map[string]*config.V2SamplerChoice{"prod": rulesWith(a), "staging": rulesWith(b)},
			func(f *sample.SamplerFactory) (sample.Sampler, sample.Sampler) {
				return down(f, "prod", 0), down(f, "staging", 0)
			}
	}},
	// environments that have no entry of their own and share the __default__ definition (one configuration object
	// reached under two destination names): still two environments
	{"two-environments-falling-back-to-default", false, func(a, b any) (map[string]*config.V2SamplerChoice, func(*sample.SamplerFactory) (sample.Sampler, sample.Sampler)) {
		return map[string]*config.V2SamplerChoice{"__default__": topLevel(a), "other": topLevel(b)},
			func(f *sample.SamplerFactory) (sample.Sampler, sample.Sampler) {
				return get(f, "alpha"), get(f, "beta")
			}
	}},
	{"downstream-rules-of-two-environments-falling-back-to-default", false, func(a, b any) (map[string]*config.V2SamplerChoice, func(*sample.SamplerFactory) (sample.Sampler, sample.Sampler)) {
		return map[string]*config.V2SamplerChoice{"__default__": rulesWith(a), "other": topLevel(b)},
			func(f *sample.SamplerFactory) (sample.Sampler, sample.Sampler) {
				return down(f, "alpha", 0), down(f, "beta", 0)
			}
	}},
	{"environment-with-own-entry-vs-environment-falling-back-to-default", false, func(a, b any) (map[string]*config.V2SamplerChoice, func(*sample.SamplerFactory) (sample.Sampler, sample.Sampler)) {
		return map[string]*config.V2SamplerChoice{"__default__": topLevel(a), "prod": topLevel(b)},
			func(f *sample.SamplerFactory) (sample.Sampler, sample.Sampler) {
				return get(f, "alpha"), get(f, "prod")
			}
	}},
	{"two-downstream-rules-of-one-environment", true, func(a, b any) (map[string]*config.V2SamplerChoice, func(*sample.SamplerFactory) (sample.Sampler, sample.Sampler)) {
		return map[string]*config.V2SamplerChoice{"prod": rulesWith(a, b)},
			func(f *sample.SamplerFactory) (sample.Sampler, sample.Sampler) {
				s := get(f, "prod")
				return sample.VerifDownstreamOf(s, 0), sample.VerifDownstreamOf(s, 1)
			}
	}},
}

func newFactory(rules map[string]*config.V2SamplerChoice) *sample.SamplerFactory {
	if rules["__default__"] == nil {
		rules["__default__"] = &config.V2SamplerChoice{DeterministicSampler: &config.DeterministicSamplerConfig{SampleRate: 1}}
	}
	f := &sample.SamplerFactory{Config: &config.MockConfig{Samplers: rules}, Logger: &logger.NullLogger{}, Metrics: &metrics.NullMetrics{},
		Peers: sample.VerifMockPeers([]string{"http://p0:8081", "http://p1:8081"}, "http://p0:8081")}
	if err := f.Start(); err != nil {
		ev.Harness("factory start: %v", err)
	}
	return f
}

func uniq(s []string) []string {
	var o []string
	for i, v := range s {
		if i == 0 || v != s[i-1] {
			o = append(o, v)
		}
	}
	return o
}

func main() {
	r := ev.New("C12", "exploration")
	concurrentPart(r) // E3 part (in a shard worker process this runs its share and exits)
	bs := bases()
	vs := make([][]variant, len(bs))
	maxV := 0
	for i, b := range bs {
		vs[i] = variants(b)
		if len(vs[i]) > maxV {
			maxV = len(vs[i])
		}
		var ps []string
		for _, v := range vs[i] {
			ps = append(ps, v.Param+"("+v.Note+")")
		}
		r.Sample(map[string]any{"type": typeName(b), "variants_of_B": ps})
	}

	// violations are collected and reported after the enumeration in sorted order, so that the text of a
	// report never depends on which worker goroutine got there first
	type viol struct {
		what   []string
		replay any
	}
	var vmu sync.Mutex
	viols := map[string]*viol{}
	report := func(sig, what string, replay any) {
		vmu.Lock()
		defer vmu.Unlock()
		v := viols[sig]
		if v == nil {
			v = &viol{}
			viols[sig] = v
		}
		v.what = append(v.what, what)
		if v.replay == nil || fmt.Sprint(replay) < fmt.Sprint(v.replay) {
			v.replay = replay
		}
	}

	// ---- part 1: definition isolation ----
	enumx.Each(r, "definition-pairs", []int{len(placements), len(bs), maxV, 2}, 8, func(idx []int) {
		pl, base := placements[idx[0]], bs[idx[1]]
		if idx[2] >= len(vs[idx[1]]) {
			return
		}
		v := vs[idx[1]][idx[2]]
		// order: which of the two definitions is created first
		a, b := clone(base), v.Cfg
		swapped := idx[3] == 1
		rules, fetch := pl.Build(a, b)
		if swapped {
			rules, fetch = pl.Build(b, a)
		}
		f := newFactory(rules)
		defer f.Stop()
		sa, sb := fetch(f)
		da, db := sample.VerifDynsamplerOf(sa), sample.VerifDynsamplerOf(sb)
		if da == nil || db == nil {
			ev.Harness("no dynsampler behind %T / %T", sa, sb)
		}
		shared := da == db
		tn := typeName(base)
		caseKey := fmt.Sprintf("%s|%s|%s(%s)", pl.Name, tn, v.Param, v.Note)
		replay := map[string]any{"placement": pl.Name, "type": tn, "changed_parameter": v.Param, "change": v.Note,
			"A": fmt.Sprintf("%+v", reflect.ValueOf(a).Elem().Interface()), "B": fmt.Sprintf("%+v", reflect.ValueOf(b).Elem().Interface()), "B_created_first": swapped}
		switch {
		case !pl.SameEnv:
			r.Add("expect_isolated_other_environment", 1)
			if shared {
				report("state-shared-between-environments:"+pl.Name,
					fmt.Sprintf("%s %s, B %s: definitions of two different environments/datasets use the same dynsampler instance", pl.Name, tn, v.Rel), replay)
			}
		case v.Rel == "identical":
			r.Add("expect_shared", 1)
			r.Distinct("distinct_nontrivial", caseKey)
			if !shared {
				report("identical-definitions-not-shared:"+pl.Name, fmt.Sprintf("%s %s: identical definitions in one environment have separate state", pl.Name, tn), replay)
			}
		case v.Rel == "different":
			r.Add("expect_isolated_same_environment", 1)
			r.Distinct("distinct_nontrivial", caseKey)
			if shared {
				report("state-shared-despite-different-config:"+v.Param,
					fmt.Sprintf("%s %s: the two definitions differ in %s (%s) but use the same dynsampler instance", pl.Name, tn, v.Param, v.Note), replay)
			}
		default: // same-as-set: the key construction deliberately sorts field lists; the statement is read so that either answer is fine
			r.Add("either_accepted_field_order", 1)
			r.Distinct("field_order_outcomes", fmt.Sprint(shared))
		}
	})

	// ---- part 2: all workers of a node share one instance per definition ----
	// a rules-based sampler whose five rules carry one downstream sampler of every type with the same rate number
	// and the same field list: every rule's state must still be one instance per rule for all workers
	enumx.Each(r, "workers-mixed-types", []int{3}, 1, func(idx []int) {
		workers := idx[0] + 1
		var cs []any
		for _, b := range bs {
			c := clone(b)
			for _, fn := range []string{"SampleRate", "GoalSampleRate", "GoalThroughputPerSec"} {
				if f := reflect.ValueOf(c).Elem().FieldByName(fn); f.IsValid() {
					f.SetInt(10)
				}
			}
			cs = append(cs, c)
		}
		f := newFactory(map[string]*config.V2SamplerChoice{"prod": rulesWith(cs...)})
		defer f.Stop()
		first := make([]any, len(cs))
		for w := 0; w < workers; w++ {
			s := get(f, "prod")
			for i := range cs {
				d := sample.VerifDynsamplerOf(sample.VerifDownstreamOf(s, i))
				if d == nil {
					ev.Harness("no dynsampler behind rule %d", i)
				}
				if w == 0 {
					first[i] = d
				} else if d != first[i] {
					report("workers-do-not-share-state:downstream-mixed-types",
						fmt.Sprintf("rule %d (%s): worker %d of %d got a different dynsampler instance than worker 0", i, typeName(cs[i]), w, workers),
						map[string]any{"workers": workers, "rule": i})
				}
			}
		}
		for i := range first {
			for j := 0; j < i; j++ {
				if first[i] == first[j] {
					report("state-shared-between-sampler-types", fmt.Sprintf("rules %d and %d of one environment (different sampler types) use the same instance", j, i), map[string]any{"rules": []int{j, i}})
				}
			}
		}
		r.Distinct("distinct_nontrivial", fmt.Sprintf("workers-mixed|%d", workers))
		r.Add("worker_cases", 1)
	})

	enumx.Each(r, "workers", []int{len(bs), 3, 2}, 8, func(idx []int) {
		base, workers, downstreamToo := bs[idx[0]], idx[1]+1, idx[2] == 1
		tn := typeName(base)
		var f *sample.SamplerFactory
		if downstreamToo {
			f = newFactory(map[string]*config.V2SamplerChoice{"prod": rulesWith(clone(base))})
		} else {
			f = newFactory(map[string]*config.V2SamplerChoice{"prod": topLevel(clone(base))})
		}
		defer f.Stop()
		var first any
		distinctSamplers := map[sample.Sampler]bool{}
		for w := 0; w < workers; w++ {
			// each worker keeps its own sampler object (collector_worker.go datasetSamplers) obtained from the shared factory
			var s sample.Sampler
			if downstreamToo {
				s = down(f, "prod", 0)
			} else {
				s = get(f, "prod")
			}
			distinctSamplers[s] = true
			d := sample.VerifDynsamplerOf(s)
			if d == nil {
				ev.Harness("no dynsampler behind %T", s)
			}
			if w == 0 {
				first = d
			} else if d != first {
				report(fmt.Sprintf("workers-do-not-share-state:%s", map[bool]string{false: "top-level", true: "downstream"}[downstreamToo]),
					fmt.Sprintf("%s: worker %d of %d got a different dynsampler instance than worker 0 for the same definition", tn, w, workers),
					map[string]any{"type": tn, "workers": workers, "downstream": downstreamToo})
			}
		}
		r.Distinct("distinct_nontrivial", fmt.Sprintf("workers|%s|%d|%v", tn, workers, downstreamToo))
		live := sample.VerifC13Live(f)
		if len(live) != 1 {
			report("more-than-one-registered-instance-for-one-definition", fmt.Sprintf("%s: %d workers -> %d registered instances", tn, workers, len(live)),
				map[string]any{"type": tn, "workers": workers, "downstream": downstreamToo})
		}
		r.Add("worker_cases", 1)
	})

	var sigs []string
	for sig := range viols {
		sigs = append(sigs, sig)
	}
	sort.Strings(sigs)
	for _, sig := range sigs {
		v := viols[sig]
		sort.Strings(v.what)
		w := uniq(v.what)
		r.Violation(sig, fmt.Sprintf("%d case(s): %s", len(w), strings.Join(w, " || ")), v.replay)
	}

	var pn []string
	for _, p := range placements {
		pn = append(pn, p.Name)
	}
	sort.Strings(pn)
	r.Set("placements", pn)
	r.Set("rule", "same dynsampler instance ⇔ same environment ∧ every configuration parameter equal (field lists that differ only in order: either); 1..3 workers of one definition share one instance")
	r.Assume("field lists that are equal as sets but ordered differently may share or not (the key construction sorts them on purpose, and the repository's own tests require sharing); this is the weaker reading of 'entire configurations identical'")
	r.Assume("base definitions use non-zero, non-default values and every variant is another non-default value, so 'different configuration' never relies on an omitted value versus its default")
	r.Assume("deterministic and rules-based samplers carry no rate-tracking state and are not compared; the rules-based sampler appears only as the container of downstream samplers")
	r.Assume("sequential creation only (both creation orders); the schedule-level part (workers creating lazily while a reload clears the registry) is not covered by this check")
	r.Finish()
}
