package main

import (
	"fmt"
	"time"

	"github.com/honeycombio/refinery/config"
	"github.com/honeycombio/refinery/sample"

	"verif/engine/ev"
	"verif/engine/vsched"
	fx "verif/fix/collector"
)

// E3 part of C12 (DESIGN §6 C12 "E3"): all collector workers of a node use the same rate-tracking state
// for one sampler definition — also across a configuration reload that overlaps with workers deciding
// traces. Real collector in handler mode (2 workers), real SamplerFactory. Threads: the collector's
// reload (reloadConfigs: clears the shared registry and signals the workers) ∥ each worker doing what its
// loop does next (consume a pending reload signal through the real loop, then decide one trace, which lazily
// creates its sampler). Afterwards every worker processes what is still pending and decides one more trace;
// then all workers must hold samplers backed by ONE dynsampler, and it must be the one registered in the factory.
func concurrentPart(r *ev.Run) {
	bound := ev.Pick(r, 2, 3)
	kinds := []string{"dynamic", "totalthroughput"}
	r.Sharded(len(kinds), func(si, sn int) {
		kind := kinds[si]
		mk := func(rate int) func() any {
			return func() any {
				if kind == "dynamic" {
					return &config.DynamicSamplerConfig{SampleRate: int64(rate), FieldList: []string{"f"}, ClearFrequency: config.Duration(24 * time.Hour)}
				}
				return &config.TotalThroughputSamplerConfig{GoalThroughputPerSec: rate * 100, FieldList: []string{"f"}, ClearFrequency: config.Duration(24 * time.Hour)}
			}
		}
		var f *fx.Fixture
		var ids [2][]string
		decide := func(w int, n int) {
			id := ids[w][n]
			f.DeliverTo(w, f.MakeSpan(fx.SpanSpec{TraceID: id, Kind: fx.Root, Fields: map[string]any{"f": "v"}}))
			f.Coll.VerifTick(w, f.Clock.Now().Add(time.Minute)) // far past every deadline: the trace is decided now
		}
		e := &vsched.Explorer{Bound: bound, Stop: func() bool { return r.Expired("c12 concurrent") }, Setup: func() {
			if f != nil {
				f.Close()
			}
			f = fx.New(fx.Options{Workers: 2, Sampler: mk(1)})
			if ids[0] == nil {
				for i := 0; len(ids[0]) < 3 || len(ids[1]) < 3; i++ {
					id := fmt.Sprintf("trace-%d", i)
					w := f.WorkerFor(id)
					if len(ids[w]) < 3 {
						ids[w] = append(ids[w], id)
					}
				}
			}
			// both workers have decided a trace: both hold a sampler on the shared state
			decide(0, 0)
			decide(1, 0)
			// the rules change (a reload then has to give every worker the new definition)
			f.SetConfig(func(c *config.MockConfig) { c.GetSamplerTypeVal = mk(2)() })
			vsched.Go("collector.reloadConfigs", func() { f.Coll.VerifReloadConfigs() })
			for w := 0; w < 2; w++ {
				w := w
				vsched.Go(fmt.Sprintf("worker%d.loop", w), func() {
					f.Coll.VerifWorkerRunPending(w) // the real loop consumes a reload signal if one is pending
					decide(w, 1)
				})
			}
		}, Check: func(x *vsched.Exec) string {
			// epilogue (sequential): every worker catches up and decides one more trace
			for w := 0; w < 2; w++ {
				f.Coll.VerifWorkerRunPending(w)
				decide(w, 2)
			}
			live := map[any]bool{}
			for _, d := range sample.VerifC13Live(f.Factory) {
				live[d] = true
			}
			var dyn [2]any
			for w := 0; w < 2; w++ {
				ss := f.Coll.VerifC12WorkerSamplers(w)
				if len(ss) != 1 {
					return fmt.Sprintf("harness: worker %d caches %d samplers", w, len(ss))
				}
				for _, s := range ss {
					dyn[w] = sample.VerifDynsamplerOf(s)
				}
				if !live[dyn[w]] {
					return fmt.Sprintf("worker-keeps-unregistered-state: after the reload worker %d still decides with a dynsampler that is no longer in the factory's registry (stopped by the reload)", w)
				}
			}
			if dyn[0] != dyn[1] {
				return "workers-use-different-state-for-one-definition: after the reload the two workers hold different dynsamplers for the same sampler definition"
			}
			r.Distinct("distinct_outcomes", "conc:"+kind)
			return ""
		}}
		ok := e.Explore()
		e.Report(r)
		r.Sample(map[string]any{"concurrent_sampler": kind, "executions": e.Stats.Executions, "bound": bound})
		if !ok {
			r.Violation("concurrent:"+firstWord(e.Failure), kind+": "+e.Failure, map[string]any{"sampler": kind, "schedule": e.FailExec.Choices})
		}
		if f != nil {
			f.Close()
		}
	})
	r.Set("preemption_bound_completed", bound)
}

func firstWord(s string) string {
	for i, ch := range s {
		if ch == ':' || ch == ' ' {
			return s[:i]
		}
	}
	return s
}
