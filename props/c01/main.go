// C01: one keep/drop decision per trace, applied to every span (see manifest.json / DESIGN §6 C01).
package main

import (
	"verif/engine/ev"
	"verif/fix/collector/cx"
)

func main() {
	r := ev.New("C01", "model_checking")
	cx.RunProperty(r, "c01:")
	r.Finish()
}
