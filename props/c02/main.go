// C02: kept spans are forwarded exactly once, dropped spans never; every accepted span's trace is
// eventually decided (see manifest.json / DESIGN §6 C02).
package main

import (
	"verif/engine/ev"
	"verif/fix/collector/cx"
)

func main() {
	r := ev.New("C02", "model_checking")
	cx.RunProperty(r, "c02:")
	backpressurePart(r) // the outgoing queue is full (backpressure.go)
	r.Finish()
}
