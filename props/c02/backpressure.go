package main

// "Every accepted span's trace is eventually decided ... no accepted span of a kept trace is lost" when the
// outgoing queue (decided traces waiting for the sender) is FULL: a sender that has fallen behind a stalled
// upstream. The worker's send tick must then wait for room (back-pressure), never drop what it has already taken
// out of the trace buffer.
//
// Directed exhaustive part on the real collector (handler mode): K traces (one root span each, sampler keeps
// everything) expire at the same tick; the outgoing queue already holds cap-j sentinel entries, for every j in
// 0..K+1 (the queue becomes full before the first, between any two, after the last, or not at all); the harness
// plays the slowest possible sender (hook VerifTickUnderBackpressure: takes an entry only when the queue is
// completely full). Afterwards everything queued is sent. Oracle: each of the K traces has a recorded kept
// decision and its span was handed to the transmission exactly once; nothing stays in the buffer.

import (
	"fmt"
	"time"

	"github.com/honeycombio/refinery/config"

	"verif/engine/ev"
	fx "verif/fix/collector"
	"verif/fix/collector/cx"
)

func backpressurePart(r *ev.Run) {
	det1 := func() any { return &config.DeterministicSamplerConfig{SampleRate: 1} }
	ids := cx.PickIDs(1, det1, []cx.Want{{Worker: 0, Keep: cx.Bool(true)}, {Worker: 0, Keep: cx.Bool(true)}, {Worker: 0, Keep: cx.Bool(true)}})
	tc := config.TracesConfig{SendDelay: config.Duration(time.Second), TraceTimeout: config.Duration(4 * time.Second), SendTicker: config.Duration(100 * time.Millisecond)}
	n := 0
	for k := 1; k <= len(ids); k++ {
		for j := 0; j <= k+1; j++ {
			if r.Expired("back-pressure scenarios") {
				return
			}
			n++
			f := fx.New(fx.Options{Workers: 1, Traces: tc, Sampler: det1, KeptSize: 16})
			capq := f.Coll.VerifFillOutgoing(0)
			f.Coll.VerifFillOutgoing(capq - j)
			for _, id := range ids[:k] {
				f.Span(fx.SpanSpec{TraceID: id, Kind: fx.Root, ID: id + ".1"})
			}
			f.Advance(time.Second)
			taken := f.Coll.VerifTickUnderBackpressure(0, f.Now())
			f.SendAll()
			desc := fmt.Sprintf("%d traces expire at one tick, outgoing queue of capacity %d holds %d entries beforehand (room for %d)", k, capq, capq-j, j)
			replay := map[string]any{"scenario": "outgoing-queue-full", "traces": k, "room": j}
			if b := f.BufferedAll(); len(b) != 0 {
				r.Violation("c02:backpressure:trace-still-buffered-after-its-tick", fmt.Sprintf("%s: %d trace(s) still in the buffer after the tick", desc, len(b)), replay)
			}
			fwd := map[string]int{}
			for _, s := range f.Tx.Log(0) {
				fwd[s.TraceID]++
			}
			for _, t := range taken {
				if t != nil && t.TraceID != "verif-filler" {
					ev.Harness("back-pressure part: the harness sender took a real trace (%s) although sentinels were queued in front of it", t.TraceID)
				}
			}
			for _, id := range ids[:k] {
				d := f.Remembered(id)
				switch {
				case !d.Kept && fwd[id] == 0:
					r.Violation("c02:backpressure:trace-lost-when-the-outgoing-queue-is-full",
						fmt.Sprintf("%s: trace %s left the buffer at the tick, has no recorded decision and its span was never handed to the transmission", desc, id), replay)
				case fwd[id] != 1:
					r.Violation("c02:backpressure:kept-span-not-forwarded-exactly-once", fmt.Sprintf("%s: the span of kept trace %s was handed to the transmission %d times", desc, id, fwd[id]), replay)
				default:
					r.Add("backpressure_traces_forwarded_once", 1)
				}
			}
			if j < k {
				r.Add("backpressure_scenarios_where_the_tick_had_to_wait", 1)
			}
			f.Close()
		}
	}
	r.Add("backpressure_scenarios", int64(n))
	r.Add("transitions", int64(n))
}
