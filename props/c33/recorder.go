package main

// E3 part "recorder": the component that feeds a shared dynsampler's cumulative counters into the metrics
// store (sample.dynsamplerMetricsRecorder, one per shared dynsampler, entered by every collector worker that
// uses that dynsampler) on the real MultiMetrics.
//
// Threads: two workers, each doing `decisions` times { the dynsampler counts one more request; RecordMetrics }
// against one recorder, and a reader that Gets the counter between them. Scheduling points: every sync /
// atomic operation of packages sample and metrics, and the dynsampler's own lock inside GetMetrics (the stub
// below yields there). Oracle: the reader never sees the counter go down, and after both workers have finished
// the store holds exactly the dynsampler's cumulative count ("a counter reports what was recorded").

import (
	"fmt"

	"github.com/honeycombio/refinery/metrics"
	"github.com/honeycombio/refinery/sample"

	"verif/engine/ev"
	"verif/engine/vsched"
)

// stubDyn is a dynsampler whose only behaviour is a cumulative request counter.
type stubDyn struct{ requests int64 }

func (s *stubDyn) Start() error                       { return nil }
func (s *stubDyn) Stop() error                        { return nil }
func (s *stubDyn) GetSampleRate(string) int           { return 1 }
func (s *stubDyn) GetSampleRateMulti(string, int) int { s.requests++; return 1 }
func (s *stubDyn) SaveState() ([]byte, error)         { return nil, nil }
func (s *stubDyn) LoadState([]byte) error             { return nil }
func (s *stubDyn) GetMetrics(prefix string) map[string]int64 {
	vsched.Point("dynsampler.lock") // the real dynsamplers take their own lock here
	// one entry only: the recorder ranges over this map, and Go's map order is not a choice the scheduler owns
	return map[string]int64{prefix + "request_count": s.requests}
}

func recorderPart(r *ev.Run, bound int) {
	for _, decisions := range []int{1, 2} {
		decisions := decisions
		var m *metrics.MultiMetrics
		var dyn *stubDyn
		var reads []float64
		const counter = "verif_request_count"
		e := &vsched.Explorer{Bound: bound, Stop: func() bool { return r.Expired("recorder") }, Setup: func() {
			m = metrics.NewMultiMetrics()
			dyn = &stubDyn{}
			reads = reads[:0]
			record := sample.VerifC33Recorder("verif", m, dyn)
			for w := 0; w < 2; w++ {
				vsched.Go(fmt.Sprintf("worker-%d", w), func() {
					for i := 0; i < decisions; i++ {
						dyn.GetSampleRateMulti("k", 1)
						record(true, 1, 1)
					}
				})
			}
			vsched.Go("reader", func() {
				for i := 0; i < 2; i++ {
					v, _ := m.Get(counter)
					reads = append(reads, v)
				}
			})
		}, Check: func(x *vsched.Exec) string {
			for i := 1; i < len(reads); i++ {
				if reads[i] < reads[i-1] {
					return fmt.Sprintf("counter-decreased: two successive reads of %s returned %v and then %v", counter, reads[i-1], reads[i])
				}
			}
			if v, _ := m.Get(counter); v != float64(dyn.requests) {
				return fmt.Sprintf("counter-differs-from-what-was-recorded: the dynsampler counted %d requests, %s reads %v after both workers finished", dyn.requests, counter, v)
			}
			r.Distinct("recorder_final_values", fmt.Sprint(dyn.requests))
			return ""
		}}
		ok := e.Explore()
		e.Report(r)
		r.Add("recorder_scenarios", 1)
		if !ok {
			sig := "recorder:" + firstWordOf(e.Failure)
			r.Violation(sig, fmt.Sprintf("[2 workers x %d decisions on one shared recorder, preemption bound %d] %s", decisions, bound, e.Failure),
				map[string]any{"scenario": "recorder", "decisions_per_worker": decisions, "schedule": e.FailExec.Choices})
		}
	}
}

func firstWordOf(s string) string {
	for i, c := range s {
		if c == ':' || c == ' ' {
			return s[:i]
		}
	}
	return s
}
