package main

// E1 part "reload": the life cycle of the dynsampler metrics recorders across configuration reloads, on the REAL
// sample.SamplerFactory, real dynsampler-go instances and the real MultiMetrics.
//
// What refinery does (collect/collect.go reloadConfigs, collect/collector_worker.go): on a configuration reload the
// collector calls SamplerFactory.ClearDynsamplers() and signals every worker; a worker that receives the signal drops
// its local sampler cache and obtains a fresh sampler from SamplerFactory.GetSamplerImplementationForKey the next time
// a trace of that environment is decided; until it has seen the signal it keeps deciding with the sampler it holds.
// Every decision of a dynsampler-backed sampler ends with its recorder's RecordMetrics, which turns the dynsampler's
// cumulative counters into increments of <prefix>_request_count / <prefix>_event_count in the metrics store.
//
// Histories over {decide(worker, environment), reload(rules version), ack(worker)}:
//
//	decide(w,e)  worker w decides one trace of environment e with its cached sampler (created through the factory if
//	             it holds none) - the real GetSampleRate, hence the real GetSampleRateMulti + RecordMetrics
//	reload(v)    the rules are replaced by version v (v = the version in force: same sampler definitions, as when some
//	             other setting changed; v = the other version: the definition of env-a changes, env-b's does not),
//	             then ClearDynsamplers(), then every worker has a reload signal pending
//	ack(w)       worker w consumes its pending signal: clear(datasetSamplers)
//
// Oracle (the property text: a counter equals the sum of its increments since start and never decreases; a gauge
// equals its last value), after EVERY event, read with MultiMetrics.Get:
//
//	<prefix>_request_count                = number of decisions made since start
//	<prefix>_event_count                  = number of spans in the traces decided since start
//	<prefix>_num_kept + <prefix>_num_dropped = number of decisions made since start (the keep draw is random, the sum is not)
//	every counter of the prefix           >= its value after the previous event
//	every gauge of the recorder           = the value the dynsampler deciding last reports (last value recorded)
//	unique_dynsampler_count               = size of the shared registry at the last creation (last value recorded)
//
// "increments" of the two dynsampler counters are what the dynsampler-go instances counted; the harness cross-checks
// its own tally against the sum of the cumulative counters of ALL instances created in the history (a disagreement
// there is a harness error, not a violation).

import (
	"fmt"
	"sort"
	"strings"
	"time"

	"github.com/honeycombio/refinery/config"
	"github.com/honeycombio/refinery/logger"
	"github.com/honeycombio/refinery/metrics"
	"github.com/honeycombio/refinery/sample"
	"github.com/honeycombio/refinery/types"

	"verif/engine/ev"
	"verif/engine/seqx"
)

const never = config.Duration(24 * time.Hour) // no dynsampler ticker fires inside a history

type rkind struct {
	Name   string // scenario
	Prefix string // metric prefix of the dynsampler-backed sampler
	Rules  bool   // the dynsampler-backed sampler is downstream of a rules-based sampler
	// the sampler definition, version 0 or 1 (they differ in one parameter, hence in the registry key)
	Choice func(version int) *config.V2SamplerChoice
}

var fieldList = []string{"http.status_code"}

var rkinds = []rkind{
	{"dynamic", "dynamic", false, func(v int) *config.V2SamplerChoice {
		return &config.V2SamplerChoice{DynamicSampler: &config.DynamicSamplerConfig{SampleRate: int64(2 + v), ClearFrequency: never, FieldList: append([]string{}, fieldList...)}}
	}},
	{"emadynamic", "emadynamic", false, func(v int) *config.V2SamplerChoice {
		return &config.V2SamplerChoice{EMADynamicSampler: &config.EMADynamicSamplerConfig{GoalSampleRate: 2 + v, AdjustmentInterval: never, Weight: 0.5, FieldList: append([]string{}, fieldList...)}}
	}},
	{"totalthroughput", "totalthroughput", false, func(v int) *config.V2SamplerChoice {
		return &config.V2SamplerChoice{TotalThroughputSampler: &config.TotalThroughputSamplerConfig{GoalThroughputPerSec: 100 + v, ClearFrequency: never, FieldList: append([]string{}, fieldList...)}}
	}},
	{"emathroughput", "emathroughput", false, func(v int) *config.V2SamplerChoice {
		return &config.V2SamplerChoice{EMAThroughputSampler: &config.EMAThroughputSamplerConfig{GoalThroughputPerSec: 100 + v, InitialSampleRate: 2, AdjustmentInterval: never, Weight: 0.5, FieldList: append([]string{}, fieldList...)}}
	}},
	{"windowedthroughput", "windowedthroughput", false, func(v int) *config.V2SamplerChoice {
		return &config.V2SamplerChoice{WindowedThroughputSampler: &config.WindowedThroughputSamplerConfig{GoalThroughputPerSec: 100 + v, UpdateFrequency: never, LookbackFrequency: never, FieldList: append([]string{}, fieldList...)}}
	}},
	{"rules-dynamic", "dynamic", true, func(v int) *config.V2SamplerChoice {
		return &config.V2SamplerChoice{RulesBasedSampler: &config.RulesBasedSamplerConfig{Rules: []*config.RulesBasedSamplerRule{{
			Name:    "all",
			Sampler: &config.RulesBasedDownstreamSampler{DynamicSampler: &config.DynamicSamplerConfig{SampleRate: int64(2 + v), ClearFrequency: never, FieldList: append([]string{}, fieldList...)}},
		}}}}
	}},
}

type revent struct {
	Op  string // decide | reload | ack
	W   int    // decide, ack: worker
	Env int    // decide: environment (0 = env-a, 1 = env-b)
	V   int    // reload: rules version
}

func (e revent) String() string {
	switch e.Op {
	case "decide":
		return fmt.Sprintf("decide(w%d,%s)", e.W, envNames[e.Env])
	case "reload":
		return fmt.Sprintf("reload(v%d)", e.V)
	}
	return fmt.Sprintf("ack(w%d)", e.W)
}

var envNames = []string{"env-a", "env-b"}
var envSpans = []int{2, 3} // spans per trace of the environment: event_count differs from request_count

// (worker, environment) pairs that occur: worker 0 sees both environments, worker 1 only env-a
var slots = [][2]int{{0, 0}, {0, 1}, {1, 0}}

const nWorkers = 2

func reloadEnabled(h []revent) []revent {
	pending := [nWorkers]bool{}
	for _, e := range h {
		switch e.Op {
		case "reload":
			for w := range pending {
				pending[w] = true
			}
		case "ack":
			pending[e.W] = false
		}
	}
	var out []revent
	for _, s := range slots {
		out = append(out, revent{Op: "decide", W: s[0], Env: s[1]})
	}
	out = append(out, revent{Op: "reload", V: 0}, revent{Op: "reload", V: 1})
	for w, p := range pending {
		if p {
			out = append(out, revent{Op: "ack", W: w})
		}
	}
	return out
}

func rulesAt(k rkind, version int) map[string]*config.V2SamplerChoice {
	return map[string]*config.V2SamplerChoice{
		"__default__": {DeterministicSampler: &config.DeterministicSamplerConfig{SampleRate: 1}},
		envNames[0]:   k.Choice(version), // the definition a reload may change
		envNames[1]:   k.Choice(0),       // never changes
	}
}

// leaf returns the dynsampler-backed sampler behind what the factory handed out.
func leaf(k rkind, s sample.Sampler) sample.Sampler {
	if k.Rules {
		return sample.VerifDownstreamOf(s, 0)
	}
	return s
}

type dynMetrics interface {
	GetMetrics(prefix string) map[string]int64
}

func stopDyn(d any) {
	defer func() { recover() }() // already stopped
	switch s := d.(type) {
	case interface{ Stop() error }:
		s.Stop()
	case interface{ Stop() }:
		s.Stop()
	}
}

func sat(n int64) int64 {
	if n > 2 {
		return 2
	}
	return n
}

func reloadExec(k rkind, h []revent) (string, string, *seqx.Failure) {
	cfg := &config.MockConfig{Samplers: rulesAt(k, 0)}
	m := metrics.NewMultiMetrics()
	f := &sample.SamplerFactory{Config: cfg, Logger: &logger.NullLogger{}, Metrics: m}
	if err := f.Start(); err != nil {
		ev.Harness("factory start: %v", err)
	}
	dynPrefix := k.Prefix + "_"
	reqName, evName := dynPrefix+"request_count", dynPrefix+"event_count"
	keptName, droppedName := k.Prefix+"_num_kept", k.Prefix+"_num_dropped"

	var created []any // every dynsampler-go instance a sampler of this history has used
	seenDyn := map[any]bool{}
	defer func() {
		for _, d := range created {
			stopDyn(d)
		}
	}()

	version := 0
	var pending [nWorkers]bool
	cache := [nWorkers]map[string]sample.Sampler{}
	for w := range cache {
		cache[w] = map[string]sample.Sampler{}
	}
	var refReq, refEv int64
	refUnique := -1
	prev := map[string]float64{}
	fail := func(step int, e revent, clause, metric, what string) (string, string, *seqx.Failure) {
		return "", "", &seqx.Failure{Sig: "reload:" + clause + ":" + metric,
			What: fmt.Sprintf("[%s, real SamplerFactory + MultiMetrics] history %v, after step %d %v: %s", k.Name, h, step, e, what)}
	}

	for step, e := range h {
		var decided sample.Sampler
		switch e.Op {
		case "decide":
			env := envNames[e.Env]
			s, found := cache[e.W][env]
			if !found { // collector_worker.go: lazily, through the factory
				s = f.GetSamplerImplementationForKey(env)
				if s == nil || leaf(k, s) == nil {
					ev.Harness("%s: no sampler created for %s", k.Name, env)
				}
				cache[e.W][env] = s
				if d := sample.VerifDynsamplerOf(leaf(k, s)); !seenDyn[d] {
					seenDyn[d] = true
					created = append(created, d)
				}
				keys, _, _, _ := sample.VerifC33Shared(f)
				refUnique = len(keys)
			}
			tr := &types.Trace{TraceID: fmt.Sprintf("t%d", step)}
			for i := 0; i < envSpans[e.Env]; i++ {
				tr.AddSpan(&types.Span{TraceID: tr.TraceID, Event: &types.Event{Environment: env,
					Data: types.NewPayload(cfg, map[string]interface{}{"http.status_code": "200"})}})
			}
			s.GetSampleRate(tr)
			refReq++
			refEv += int64(envSpans[e.Env])
			decided = leaf(k, s)
		case "reload":
			version = e.V
			cfg.Mux.Lock()
			cfg.Samplers = rulesAt(k, version)
			cfg.Mux.Unlock()
			f.ClearDynsamplers() // InMemCollector.reloadConfigs
			for w := range pending {
				pending[w] = true // worker.reload <- struct{}{} (capacity 1)
			}
		case "ack":
			pending[e.W] = false
			clear(cache[e.W]) // collector_worker.go: case <-cl.reload
		}

		// ---- harness self-check: the reference is what the dynsampler-go instances counted ----
		var sumReq, sumEv int64
		counterNames := map[string]bool{reqName: true, evName: true, keptName: true, droppedName: true}
		for _, d := range created {
			for name, v := range d.(dynMetrics).GetMetrics(dynPrefix) {
				if strings.HasSuffix(name, "_count") {
					counterNames[name] = true
				}
				switch name {
				case reqName:
					sumReq += v
				case evName:
					sumEv += v
				}
			}
		}
		if sumReq != refReq || sumEv != refEv {
			ev.Harness("%s history %v step %d: the dynsampler instances counted %d requests / %d events, the harness %d / %d", k.Name, h, step, sumReq, sumEv, refReq, refEv)
		}
		if k.Rules {
			counterNames["rulesbased_num_kept"] = true
			counterNames["rulesbased_num_dropped"] = true
		}

		// ---- oracle ----
		names := make([]string, 0, len(counterNames))
		for n := range counterNames {
			names = append(names, n)
		}
		sort.Strings(names)
		cur := map[string]float64{}
		for _, n := range names {
			v, _ := m.Get(n)
			cur[n] = v
			if v < prev[n] {
				return fail(step, e, "counter-decreased", n, fmt.Sprintf("counter %s read %v after the previous event and reads %v now", n, prev[n], v))
			}
		}
		if cur[reqName] != float64(refReq) {
			return fail(step, e, "counter-not-sum-of-increments", reqName, fmt.Sprintf("%d decisions were made since start (each counted once by the dynsampler in force), %s reads %v", refReq, reqName, cur[reqName]))
		}
		if cur[evName] != float64(refEv) {
			return fail(step, e, "counter-not-sum-of-increments", evName, fmt.Sprintf("traces with %d spans in total were decided since start, %s reads %v", refEv, evName, cur[evName]))
		}
		if cur[keptName]+cur[droppedName] != float64(refReq) {
			return fail(step, e, "counter-not-sum-of-increments", keptName+"+"+droppedName, fmt.Sprintf("%d decisions were made since start, %s + %s reads %v + %v", refReq, keptName, droppedName, cur[keptName], cur[droppedName]))
		}
		if k.Rules && cur["rulesbased_num_kept"]+cur["rulesbased_num_dropped"] != float64(refReq) {
			return fail(step, e, "counter-not-sum-of-increments", "rulesbased_num_kept+rulesbased_num_dropped", fmt.Sprintf("%d decisions were made since start, rulesbased_num_kept + rulesbased_num_dropped reads %v + %v", refReq, cur["rulesbased_num_kept"], cur["rulesbased_num_dropped"]))
		}
		if decided != nil {
			var gnames []string
			last := sample.VerifDynsamplerOf(decided).(dynMetrics).GetMetrics(dynPrefix)
			for name := range last {
				if !strings.HasSuffix(name, "_count") {
					gnames = append(gnames, name)
				}
			}
			sort.Strings(gnames)
			for _, name := range gnames {
				if v, _ := m.Get(name); v != float64(last[name]) {
					return fail(step, e, "gauge-not-last-value", name, fmt.Sprintf("the deciding dynsampler reports %s = %d, which its recorder set last; the store reads %v", name, last[name], v))
				}
			}
		}
		if refUnique >= 0 {
			if v, _ := m.Get("unique_dynsampler_count"); v != float64(refUnique) {
				return fail(step, e, "gauge-not-last-value", "unique_dynsampler_count", fmt.Sprintf("the registry held %d instances when a sampler was created last, the store reads %v", refUnique, v))
			}
		}
		prev = cur
	}

	// ---- canonical state: who holds what, and for every reachable (dynsampler, recorder) pair how far the
	// recorder's baseline is from the dynsampler's cumulative counters (hidden state of the recorder) ----
	dynID, recID := map[any]int{}, map[any]int{}
	id := func(tab map[any]int, p any) int {
		if _, ok := tab[p]; !ok {
			tab[p] = len(tab)
		}
		return tab[p]
	}
	pair := func(d, rec any, base map[string]int64) string {
		cum := d.(dynMetrics).GetMetrics(dynPrefix)
		out := fmt.Sprintf("d%d/r%d/n%d", id(dynID, d), id(recID, rec), sat(cum[reqName]))
		if base != nil {
			out += fmt.Sprintf("/lag%d,%d", cum[reqName]-base[reqName], cum[evName]-base[evName])
		}
		return out
	}
	var parts []string
	for _, sl := range slots {
		s, ok := cache[sl[0]][envNames[sl[1]]]
		if !ok {
			parts = append(parts, "-")
			continue
		}
		l := leaf(k, s)
		rec, base := sample.VerifC33RecorderOf(l)
		parts = append(parts, pair(sample.VerifDynsamplerOf(l), rec, base))
	}
	keys, dyns, recs, bases := sample.VerifC33Shared(f)
	for i, key := range keys {
		parts = append(parts, key+"="+pair(dyns[i], recs[i], bases[i]))
	}
	canon := fmt.Sprintf("%s|v%d|p%v|%s", k.Name, version, pending, strings.Join(parts, ";"))
	return canon, fmt.Sprintf("instances=%d registry=%d", len(created), len(keys)), nil
}

func reloadPart(r *ev.Run) {
	depth := ev.Pick(r, 10, 12)
	noMerge := ev.Pick(r, 4, 5)
	for _, k := range rkinds {
		k := k
		if r.Expired("reload part") {
			return
		}
		// determinism self-check: one fixed history twice
		probe := []revent{{Op: "decide", W: 0, Env: 0}, {Op: "decide", W: 1, Env: 0}, {Op: "reload", V: 0}, {Op: "ack", W: 0}, {Op: "decide", W: 0, Env: 0}, {Op: "decide", W: 1, Env: 0}, {Op: "reload", V: 1}, {Op: "decide", W: 0, Env: 1}}
		c1, o1, f1 := reloadExec(k, probe)
		c2, o2, f2 := reloadExec(k, probe)
		if c1 != c2 || o1 != o2 || (f1 == nil) != (f2 == nil) {
			ev.Harness("reload part: replaying one history twice diverged: %q/%q vs %q/%q", c1, o1, c2, o2)
		}
		seqx.Explore(r, seqx.Scenario[revent]{
			Name:     "reload-" + k.Name,
			Enabled:  reloadEnabled,
			Exec:     func(h []revent) (string, string, *seqx.Failure) { return reloadExec(k, h) },
			MaxDepth: depth, Workers: 4,
			// every history of length <= noMerge+1 (5 / 6) is executed whatever the canonical key says
			NoMergeDepth: noMerge,
		})
		r.Add("reload_scenarios", 1)
	}
	r.Set("reload_bounds", map[string]any{
		"sampler_kinds":                       "Dynamic, EMADynamic, TotalThroughput, EMAThroughput, WindowedThroughput (top level), Dynamic downstream of a rules-based sampler",
		"workers":                             "2 (worker 0 decides env-a and env-b, worker 1 env-a); env-a and env-b have the same definition, hence two registry entries feeding ONE set of metric names",
		"alphabet":                            "decide(w,env) x3, reload(v0|v1) (same definitions / env-a's definition changed), ack(w) when a signal is pending",
		"depth":                               depth,
		"every_history_executed_up_to_length": noMerge + 1,
		"spans_per_trace":                     envSpans,
	})
	r.Assume("reload part: a decision is the sampler's real GetSampleRate (GetSampleRateMulti on the shared dynsampler-go instance, then the recorder's RecordMetrics); refinery has no separate metrics-report tick for these counters")
	r.Assume("reload part: sequential histories on one goroutine; the dynsampler-go tickers are configured to 24h and never fire inside a history; the keep/drop draw is math/rand and the oracle only uses num_kept + num_dropped, which does not depend on it")
	r.Assume("reload part: canonical state = rules version, pending signals, for every worker cache slot and registry entry the identity classes of its dynsampler and recorder, the dynsampler's request count saturated at 2 and the distance between the recorder's baseline and the dynsampler's cumulative counters (read through a hook); merged states differ only in absolute counter values, which the code never branches on")
}
