// C33: the metrics store reports what was recorded.
//
//	Part 0  (E3 vsched, recorder.go): the dynsampler metrics recorder under two workers and a reader.
//	Part 0b (E1 seqx, reload.go): histories of {decide, reload, ack} on the real SamplerFactory + real dynsampler-go
//	        instances + real MultiMetrics: the counters the recorders feed stay the sum of what was counted, and never
//	        decrease, across configuration reloads (ClearDynsamplers + lazy re-creation by each worker).
//	Part 1 (E1 seqx): every sequential history ≤ depth over {register, write ops, get} per metric kind on the
//	        real MultiMetrics against a plain sequential store.
//	Part 2 (E3 vsched): every 3-thread program with (2,2,1) ops from the kind's alphabet, every schedule up
//	        to the preemption bound (scheduling point at every sync.Map / atomic operation of package
//	        metrics), call/return history checked for linearizability (porcupine) against the same store.
package main

import (
	"fmt"
	"strings"

	"github.com/anishathalye/porcupine"
	"github.com/honeycombio/refinery/metrics"

	"verif/engine/ev"
	"verif/engine/seqx"
	"verif/engine/vsched"
)

type op struct {
	Kind string  // reg, add, set, get
	N    float64 // amount / value
}

func (o op) String() string { return fmt.Sprintf("%s(%v)", o.Kind, o.N) }

type kind struct {
	Name string
	Type metrics.MetricType
	Ops  []op
	// apply on the real store
	Do func(m *metrics.MultiMetrics, o op) (float64, bool)
}

const name = "m"

var kinds = []kind{
	{"counter", metrics.Counter, []op{{"reg", 0}, {"add", 1}, {"add", 3}, {"get", 0}}, func(m *metrics.MultiMetrics, o op) (float64, bool) {
		switch o.Kind {
		case "reg":
			m.Register(metrics.Metadata{Name: name, Type: metrics.Counter})
		case "add":
			if o.N == 1 {
				m.Increment(name)
			} else {
				m.Count(name, int64(o.N))
			}
		case "get":
			return m.Get(name)
		}
		return 0, true
	}},
	{"gauge", metrics.Gauge, []op{{"reg", 0}, {"set", 1.5}, {"set", 2}, {"get", 0}}, func(m *metrics.MultiMetrics, o op) (float64, bool) {
		switch o.Kind {
		case "reg":
			m.Register(metrics.Metadata{Name: name, Type: metrics.Gauge})
		case "set":
			m.Gauge(name, o.N)
		case "get":
			return m.Get(name)
		}
		return 0, true
	}},
	{"updown", metrics.UpDown, []op{{"reg", 0}, {"add", 1}, {"add", -1}, {"get", 0}}, func(m *metrics.MultiMetrics, o op) (float64, bool) {
		switch o.Kind {
		case "reg":
			m.Register(metrics.Metadata{Name: name, Type: metrics.UpDown})
		case "add":
			if o.N > 0 {
				m.Up(name)
			} else {
				m.Down(name)
			}
		case "get":
			return m.Get(name)
		}
		return 0, true
	}},
	{"store", -1, []op{{"set", 1.5}, {"set", 2}, {"get", 0}}, func(m *metrics.MultiMetrics, o op) (float64, bool) {
		switch o.Kind {
		case "set":
			m.Store(name, o.N)
		case "get":
			return m.Get(name)
		}
		return 0, true
	}},
}

// sequential reference: value only (a metric never written or registered reads as 0 / not found).
func step(state float64, o op) float64 {
	switch o.Kind {
	case "add":
		return state + o.N
	case "set":
		return o.N
	}
	return state
}

func seqExec(k kind, h []op) (string, string, *seqx.Failure) {
	m := metrics.NewMultiMetrics()
	st := 0.0
	touched := false
	for i, o := range h {
		v, ok := k.Do(m, o)
		st = step(st, o)
		if o.Kind != "get" {
			touched = true
			continue
		}
		if !touched {
			if ok && v != 0 {
				return "", "", &seqx.Failure{Sig: k.Name + ":get-before-any-use", What: fmt.Sprintf("history %v: Get on untouched metric = %v", h, v)}
			}
			continue
		}
		if !ok || v != st {
			prev := "write"
			for j := i - 1; j >= 0; j-- {
				if h[j].Kind != "get" {
					prev = h[j].Kind
					break
				}
			}
			return "", "", &seqx.Failure{Sig: fmt.Sprintf("%s:sequential-get-wrong-after-%s", k.Name, prev),
				What: fmt.Sprintf("history %v: step %d Get = (%v,%v), recorded value is %v", h, i, v, ok, st)}
		}
	}
	return "", fmt.Sprintf("%s=%v", k.Name, st), nil
}

type hop struct {
	Op  op
	Val float64
}

var pmodel = porcupine.Model{
	Init: func() interface{} { return 0.0 },
	Step: func(state, input, output interface{}) (bool, interface{}) {
		s := state.(float64)
		o := input.(op)
		if o.Kind == "get" {
			return output.(float64) == s, s
		}
		return true, step(s, o)
	},
	DescribeOperation: func(in, out interface{}) string { return fmt.Sprintf("%v->%v", in, out) },
}

func main() {
	r := ev.New("C33", "model_checking")
	bound := ev.Pick(r, 2, 3)
	_, _, isShard := ev.ShardInfo()
	if !isShard {
		recorderPart(r, bound) // Part 0: the dynsampler metrics recorder on the real store (recorder.go)
		reloadPart(r)          // Part 0b: recorders across configuration reloads, through the real SamplerFactory (reload.go)
		// Part 1: sequential histories
		depth := ev.Pick(r, 7, 9)
		for _, k := range kinds {
			k := k
			seqx.Explore(r, seqx.Scenario[op]{Name: "seq-" + k.Name, Enabled: func(h []op) []op { return k.Ops },
				Exec: func(h []op) (string, string, *seqx.Failure) { return seqExec(k, h) }, MaxDepth: depth, Workers: 16,
				// seqExec returns no canonical key (every history is executed anyway); stated explicitly so that it stays
				// true for the short histories should a key ever be added
				NoMergeDepth: 4})
		}
	}
	// Part 2: concurrent programs, sharded over processes
	type prog struct {
		k   kind
		ops [5]op // T0: ops[0],ops[1]; T1: ops[2],ops[3]; T2: ops[4]
	}
	var progs []prog
	for _, k := range kinds {
		n := len(k.Ops)
		total := 1
		for i := 0; i < 5; i++ {
			total *= n
		}
		for x := 0; x < total; x++ {
			var p prog
			p.k = k
			y := x
			gets, writes := 0, 0
			for i := 0; i < 5; i++ {
				p.ops[i] = k.Ops[y%n]
				y /= n
				if p.ops[i].Kind == "get" {
					gets++
				} else if p.ops[i].Kind != "reg" {
					writes++
				}
			}
			// prune programs that cannot distinguish anything: no write at all
			if writes == 0 {
				continue
			}
			// thread symmetry: T0 and T1 are interchangeable — keep one representative
			a := fmt.Sprint(p.ops[0], p.ops[1])
			b := fmt.Sprint(p.ops[2], p.ops[3])
			if a > b {
				continue
			}
			progs = append(progs, p)
		}
	}
	r.Sharded(16, func(si, sn int) {
		for pi, p := range progs {
			if pi%sn != si {
				continue
			}
			if r.Expired("concurrent programs") {
				return
			}
			var m *metrics.MultiMetrics
			var hist []porcupine.Operation
			var clock int64
			var final float64
			e := &vsched.Explorer{Bound: bound, Setup: func() {
				m = metrics.NewMultiMetrics()
				hist = hist[:0]
				clock = 0
				threads := [][]op{{p.ops[0], p.ops[1]}, {p.ops[2], p.ops[3]}, {p.ops[4]}}
				for ti, ops := range threads {
					ti, ops := ti, ops
					vsched.Go(fmt.Sprintf("T%d", ti), func() {
						for _, o := range ops {
							clock++
							call := clock
							v, _ := p.k.Do(m, o)
							clock++
							hist = append(hist, porcupine.Operation{ClientId: ti, Input: o, Call: call, Output: v, Return: clock})
						}
					})
				}
			}, Check: func(x *vsched.Exec) string {
				// final read after all threads joined is part of the history
				v, _ := m.Get(name)
				final = v
				h := append(append([]porcupine.Operation{}, hist...), porcupine.Operation{ClientId: 3, Input: op{"get", 0}, Call: clock + 1, Output: v, Return: clock + 2})
				if !porcupine.CheckOperations(pmodel, h) {
					var d []string
					for _, o := range h {
						d = append(d, fmt.Sprintf("T%d[%d,%d]%v->%v", o.ClientId, o.Call, o.Return, o.Input, o.Output))
					}
					return "history not linearizable w.r.t. the sequential store: " + strings.Join(d, " ")
				}
				return ""
			}}
			ok := e.Explore()
			e.Report(r)
			r.Add("programs", 1)
			r.Distinct("distinct_final_values", fmt.Sprintf("%s:%v", p.k.Name, final))
			if pi%97 == 0 {
				r.Sample(map[string]any{"kind": p.k.Name, "T0": fmt.Sprint(p.ops[0:2]), "T1": fmt.Sprint(p.ops[2:4]), "T2": fmt.Sprint(p.ops[4:5]), "executions": e.Stats.Executions, "bound": bound})
			}
			if !ok {
				hasReg := false
				for _, o := range p.ops {
					if o.Kind == "reg" {
						hasReg = true
					}
				}
				sig := p.k.Name + ":concurrent-not-linearizable"
				if hasReg {
					sig += ":with-register"
				}
				r.Violation(sig, e.Failure, map[string]any{"kind": p.k.Name, "T0": p.ops[0:2], "T1": p.ops[2:4], "T2": p.ops[4:5], "schedule": e.FailExec.Choices})
			}
		}
	})
	r.Set("preemption_bound_completed", bound)
	r.Set("traces_validated_against_impl", r.Count("executions")+r.Count("transitions"))
	r.Set("bounds", "reload part: see reload_bounds; sequential: depth 7/9 per kind over {register, two writes, get}; concurrent: all 3-thread programs with (2,2,1) ops per kind (thread-symmetric duplicates and write-free programs pruned), preemption bound 2/3, final Get appended")
	r.Assume("scheduling points at every sync.Map and atomic operation of package metrics (import rewrite); memory-model effects weaker than sequential consistency of those operations are outside")
	r.Assume("every execution runs the real MultiMetrics; there is no separate model to conform, so traces_validated_against_impl counts executions on the implementation")
	r.Finish()
}
