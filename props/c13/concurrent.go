package main

import (
	"fmt"
	"os"
	"strings"

	"github.com/honeycombio/refinery/config"
	"github.com/honeycombio/refinery/logger"
	"github.com/honeycombio/refinery/metrics"
	"github.com/honeycombio/refinery/sample"

	"verif/engine/ev"
	"verif/engine/vsched"
)

// E3 part of C13 (DESIGN §6 C13): membership changes overlap with lazy sampler creation — in the real
// wiring the peers callback runs on its own goroutine and every collector worker ends a sampler creation
// with updatePeerCounts(). Threads: two workers creating the UseClusterSize sampler of one definition, one
// worker creating a fixed-goal one, and the peers callback delivering one or two membership changes.
// All schedules up to the preemption bound; scheduling points at every mutex operation of package sample and
// of the mock peer list. Oracle at the end (nothing pending): every live sampler's goal is the statement's
// formula for the FINAL peer count.
func concurrentPart(r *ev.Run) {
	bound := ev.Pick(r, 1, 2)
	type scen struct {
		Name   string
		Type   string
		Goal   int
		Peers  [][]string // membership changes delivered, in order, by the callback thread
		TwoCbs bool       // deliver them from two callback goroutines instead of one
	}
	p := peerAddrs
	scens := []scen{
		{"total/one-change", "total", 120, [][]string{p[:3]}, false},
		{"ema/one-change", "ema", 120, [][]string{p[:3]}, false},
		{"windowed/one-change", "windowed", 120, [][]string{p[:3]}, false},
		{"total/two-changes-one-goroutine", "total", 120, [][]string{p[:3], p[:7]}, false},
		{"total/two-callback-goroutines", "total", 5, [][]string{p[:2], p[:7]}, true},
	}
	r.Sharded(len(scens), func(si, sn int) {
		sc := scens[si]
		defs := []def{{sc.Type, true, sc.Goal}, {sc.Type, false, sc.Goal}}
		var f *sample.SamplerFactory
		var got [3]sample.Sampler
		e := &vsched.Explorer{Bound: bound, Stop: func() bool { return r.Expired("c13 concurrent " + sc.Name) }, Setup: func() {
			cfg := &config.MockConfig{Samplers: rules(defs, 0)}
			peers := sample.VerifMockPeers([]string{p[0], p[1]}, p[0])
			f = &sample.SamplerFactory{Config: cfg, Logger: &logger.NullLogger{}, Metrics: &metrics.NullMetrics{}, Peers: peers}
			if err := f.Start(); err != nil {
				ev.Harness("factory start: %v", err)
			}
			got = [3]sample.Sampler{}
			vsched.Go("worker1.create(cluster-goal)", func() { got[0] = f.GetSamplerImplementationForKey(envName(0)) })
			vsched.Go("worker2.create(cluster-goal)", func() { got[1] = f.GetSamplerImplementationForKey(envName(0)) })
			vsched.Go("worker3.create(fixed-goal)", func() { got[2] = f.GetSamplerImplementationForKey(envName(1)) })
			if sc.TwoCbs {
				// two membership changes whose callbacks run on two goroutines (RedisPubsubPeers: `go cb()`):
				// the list itself changes in order, the callbacks may overtake each other
				vsched.Go("membership", func() {
					peers.VerifSetPeers(sc.Peers[0])
					vsched.Go("peers-callback-1", func() { sample.VerifC13UpdatePeerCounts(f) })
					peers.VerifSetPeers(sc.Peers[1])
					vsched.Go("peers-callback-2", func() { sample.VerifC13UpdatePeerCounts(f) })
				})
			} else {
				vsched.Go("peers-callback", func() {
					for _, l := range sc.Peers {
						peers.UpdatePeers(l)
					}
				})
			}
		}, Check: func(x *vsched.Exec) string {
			defer f.Stop()
			n := len(sc.Peers[len(sc.Peers)-1])
			for i, s := range got {
				if s == nil {
					return fmt.Sprintf("no-sampler: thread %d got no sampler", i)
				}
				d := defs[0]
				if i == 2 {
					d = defs[1]
				}
				g, ok := goalOf(sample.VerifDynsamplerOf(s))
				if !ok {
					ev.Harness("cannot read goal")
				}
				if want := expected(d, n); g != float64(want) {
					class := "fixed-goal"
					if d.UCS {
						class = "cluster-goal"
					}
					return fmt.Sprintf("%s:stale-goal-after-overlapping-membership-change: %v with %d peers in the end has goal %v in force, expected %d", class, d, n, g, want)
				}
			}
			if sample.VerifDynsamplerOf(got[0]) != sample.VerifDynsamplerOf(got[1]) {
				return "workers-do-not-share-state: two workers creating the same definition concurrently hold different dynsamplers"
			}
			r.Distinct("distinct_outcomes", "conc:"+sc.Name)
			return ""
		}}
		if rp := os.Getenv("C13_REPLAY"); rp != "" {
			var sched []int
			fmt.Sscan("", &sched)
			for _, w := range strings.Split(rp, ",") {
				var n int
				fmt.Sscan(w, &n)
				sched = append(sched, n)
			}
			vsched.KeepTrace = true
			for i := 0; i < 3; i++ {
				x := vsched.Run(sched, e.Setup)
				fmt.Printf("replay %d: %q deadlock=%v\n", i, e.Check(x), x.Deadlock)
				if i == 0 {
					for _, l := range x.Trace {
						fmt.Println("  ", l)
					}
				}
			}
			os.Exit(0)
		}
		ok := e.Explore()
		if !ok && os.Getenv("C13_TRACE") != "" {
			vsched.KeepTrace = true
			x := vsched.Run(e.FailExec.Choices, e.Setup)
			fmt.Println(e.Check(x))
			for _, l := range x.Trace {
				fmt.Println("  ", l)
			}
			vsched.KeepTrace = false
		}
		e.Report(r)
		r.Sample(map[string]any{"concurrent_scenario": sc.Name, "executions": e.Stats.Executions, "bound": bound})
		if !ok {
			r.Violation("concurrent:"+firstWord(e.Failure), sc.Name+": "+e.Failure, map[string]any{"scenario": sc.Name, "schedule": e.FailExec.Choices})
		}
	})
	r.Set("preemption_bound_completed", bound)
}

func firstWord(s string) string {
	for i, ch := range s {
		if ch == ' ' {
			return s[:i]
		}
	}
	return s
}
