// C13: throughput goals scale with the current cluster size.
// Engine E1 (seqx): BFS over histories of {peers(n) n∈{1,2,3,7}, create(definition) (= lazy creation by one more
// worker), reload(rules version), clear} executed on the real sample.SamplerFactory (real dynsampler-go instances,
// the repository's MockPeers as membership source, peer-count callback registered by the factory's own Start()).
// After EVERY event, for every sampler created since the last reload/clear (i.e. every sampler a worker may still be
// using) the goal in force — the exported GoalThroughputPerSec field of the dynsampler-go instance behind it, which
// must be registered in the factory's shared map — must equal
//
//	UseClusterSize ? max(1, floor(configured goal / current number of peers)) : configured goal.
package main

import (
	"fmt"
	"reflect"
	"sort"
	"strings"

	"github.com/honeycombio/refinery/config"
	"github.com/honeycombio/refinery/logger"
	"github.com/honeycombio/refinery/metrics"
	"github.com/honeycombio/refinery/sample"

	"verif/engine/ev"
	"verif/engine/seqx"
)

type def struct {
	Type string // total | ema | windowed
	UCS  bool
	Goal int
}

func (d def) String() string {
	u := "fixed"
	if d.UCS {
		u = "cluster"
	}
	return fmt.Sprintf("%s/%s/%d", d.Type, u, d.Goal)
}

// rules versions: 0 = as defined; 1 = UseClusterSize flipped everywhere (same type, same goal -> same registry key);
// 2 = goals rotated 1->5->100->1.
func (d def) at(version int) def {
	switch version {
	case 1:
		d.UCS = !d.UCS
	case 2:
		d.Goal = map[int]int{1: 5, 5: 100, 100: 1}[d.Goal]
	}
	return d
}

func (d def) choice() *config.V2SamplerChoice {
	fl := []string{"http.status_code"}
	switch d.Type {
	case "total":
		return &config.V2SamplerChoice{TotalThroughputSampler: &config.TotalThroughputSamplerConfig{GoalThroughputPerSec: d.Goal, UseClusterSize: d.UCS, FieldList: fl}}
	case "ema":
		return &config.V2SamplerChoice{EMAThroughputSampler: &config.EMAThroughputSamplerConfig{GoalThroughputPerSec: d.Goal, UseClusterSize: d.UCS, FieldList: fl}}
	default:
		return &config.V2SamplerChoice{WindowedThroughputSampler: &config.WindowedThroughputSamplerConfig{GoalThroughputPerSec: d.Goal, UseClusterSize: d.UCS, FieldList: fl}}
	}
}

func expected(d def, n int) int {
	if !d.UCS {
		return d.Goal
	}
	g := d.Goal / n // floor for positive ints
	if g < 1 {
		g = 1
	}
	return g
}

type event struct {
	Op string // peers | create | reload | clear
	N  int    // peers: count; create: definition index; reload: version
}

func (e event) String() string { return fmt.Sprintf("%s(%d)", e.Op, e.N) }

func envName(i int) string { return fmt.Sprintf("env-%d", i) }

func rules(defs []def, version int) map[string]*config.V2SamplerChoice {
	m := map[string]*config.V2SamplerChoice{"__default__": {DeterministicSampler: &config.DeterministicSamplerConfig{SampleRate: 1}}}
	for i, d := range defs {
		m[envName(i)] = d.at(version).choice()
	}
	return m
}

var peerAddrs = []string{"http://p0:8081", "http://p1:8081", "http://p2:8081", "http://p3:8081", "http://p4:8081", "http://p5:8081", "http://p6:8081"}

func goalOf(dyn any) (float64, bool) {
	v := reflect.ValueOf(dyn)
	if !v.IsValid() || v.Kind() != reflect.Ptr || v.IsNil() {
		return 0, false
	}
	f := v.Elem().FieldByName("GoalThroughputPerSec")
	if !f.IsValid() {
		return 0, false
	}
	switch f.Kind() {
	case reflect.Int, reflect.Int64:
		return float64(f.Int()), true
	case reflect.Float64:
		return f.Float(), true
	}
	return 0, false
}

type handle struct {
	def int
	s   sample.Sampler
}

func exec(scn string, defs []def, h []event) (string, string, *seqx.Failure) {
	cfg := &config.MockConfig{Samplers: rules(defs, 0)}
	peers := sample.VerifMockPeers([]string{peerAddrs[0]}, peerAddrs[0])
	f := &sample.SamplerFactory{Config: cfg, Logger: &logger.NullLogger{}, Metrics: &metrics.NullMetrics{}, Peers: peers}
	if err := f.Start(); err != nil {
		ev.Harness("factory start: %v", err)
	}
	defer f.Stop()
	n, version := 1, 0
	var handles []handle
	var out []string
	for step, e := range h {
		switch e.Op {
		case "peers":
			n = e.N
			peers.UpdatePeers(peerAddrs[:n]) // fires the callback the factory registered in Start()
		case "create":
			s := f.GetSamplerImplementationForKey(envName(e.N))
			if s == nil {
				ev.Harness("no sampler created for %s", envName(e.N))
			}
			handles = append(handles, handle{e.N, s})
		case "reload":
			// what InMemCollector.reloadConfigs does after the rules changed: registry cleared, workers drop their samplers
			version = e.N
			cfg.Mux.Lock()
			cfg.Samplers = rules(defs, version)
			cfg.Mux.Unlock()
			f.ClearDynsamplers()
			handles = nil
		case "clear":
			f.ClearDynsamplers()
			handles = nil
		}
		// ---- oracle, after every event ----
		live := map[any]bool{}
		for _, d := range sample.VerifC13Live(f) {
			live[d] = true
		}
		out = out[:0]
		for _, hd := range handles {
			d := defs[hd.def].at(version)
			dyn := sample.VerifDynsamplerOf(hd.s)
			got, ok := goalOf(dyn)
			if !ok {
				ev.Harness("cannot read GoalThroughputPerSec of %T", dyn)
			}
			class := "fixed-goal"
			if d.UCS {
				class = "cluster-goal"
			}
			if !live[dyn] {
				return "", "", &seqx.Failure{Sig: class + ":sampler-in-use-not-registered:" + d.Type + ":after-" + e.Op,
					What: fmt.Sprintf("step %d %v: the dynsampler behind a %v sampler created since the last reload is not in the factory's shared map, so peer changes cannot reach it", step, e, d)}
			}
			want := expected(d, n)
			if got != float64(want) {
				return "", "", &seqx.Failure{Sig: fmt.Sprintf("%s:wrong-goal:%s:after-%s", class, d.Type, e.Op),
					What: fmt.Sprintf("step %d %v: %v with %d peers has goal %v in force, expected %d", step, e, d, n, got, want)}
			}
			out = append(out, fmt.Sprintf("%d:%v", hd.def, got))
		}
	}
	sort.Strings(out)
	out = uniq(out)
	canon := fmt.Sprintf("%s|n=%d|v=%d|%s|%s", scn, n, version, strings.Join(out, ","), sample.VerifC13Hidden(f))
	return canon, fmt.Sprintf("n=%d %s", n, strings.Join(out, ",")), nil
}

func uniq(s []string) []string {
	var o []string
	for i, v := range s {
		if i == 0 || v != s[i-1] {
			o = append(o, v)
		}
	}
	return o
}

func main() {
	r := ev.New("C13", "model_checking")
	if _, _, isShard := ev.ShardInfo(); isShard {
		concurrentPart(r) // worker process of the E3 part
	}
	concurrentPart(r) // the cheap E3 part first
	depth := ev.Pick(r, 10, 12)
	scenarios := map[string][]def{}
	var names []string
	for _, g := range []int{100, 5, 1} {
		var ds []def
		for _, t := range []string{"total", "ema", "windowed"} {
			for _, u := range []bool{true, false} {
				ds = append(ds, def{t, u, g})
			}
		}
		nm := fmt.Sprintf("goal%d", g)
		scenarios[nm] = ds
		names = append(names, nm)
	}
	scenarios["mixed"] = []def{{"total", true, 1}, {"total", false, 100}, {"ema", true, 5}, {"ema", false, 5}, {"windowed", true, 100}, {"windowed", false, 1}}
	names = append(names, "mixed")

	for _, nm := range names {
		defs := scenarios[nm]
		var alphabet []event
		for _, n := range []int{1, 2, 3, 7} {
			alphabet = append(alphabet, event{"peers", n})
		}
		for i := range defs {
			alphabet = append(alphabet, event{"create", i})
		}
		for v := 0; v < 3; v++ {
			alphabet = append(alphabet, event{"reload", v})
		}
		alphabet = append(alphabet, event{"clear", 0})
		// determinism self-check: one fixed history twice
		probe := []event{{"create", 0}, {"peers", 3}, {"create", 1}, {"reload", 1}, {"create", 0}, {"peers", 7}}
		c1, o1, f1 := exec(nm, defs, probe)
		c2, o2, f2 := exec(nm, defs, probe)
		if c1 != c2 || o1 != o2 || (f1 == nil) != (f2 == nil) {
			ev.Harness("replaying one history twice diverged: %q/%q vs %q/%q", c1, o1, c2, o2)
		}
		nmc := nm
		seqx.Explore(r, seqx.Scenario[event]{
			Name:     nmc,
			Enabled:  func(h []event) []event { return alphabet },
			Exec:     func(h []event) (string, string, *seqx.Failure) { return exec(nmc, defs, h) },
			MaxDepth: depth, Workers: 4,
			// the real state space has 768 states per scenario; the cap only stops a run whose bookkeeping leaks (then exhaustive:false)
			MaxStates: 12000,
			// every history of length <= 4 is executed, whatever the canonical key says (14 + 196 + 2744 unmerged states)
			NoMergeDepth: 3,
		})
	}
	r.Set("traces_validated_against_impl", r.Count("transitions"))
	r.Set("bounds", map[string]any{"peer_counts": []int{1, 2, 3, 7}, "types": []string{"TotalThroughput", "EMAThroughput", "WindowedThroughput"},
		"goals": []int{1, 5, 100}, "rules_versions": "0 base, 1 UseClusterSize flipped, 2 goals rotated", "depth": depth,
		"scenarios": "goal1, goal5, goal100 (3 types x UseClusterSize on/off each), mixed (6 definitions with different goals)"})
	r.Assume("every explored history is an execution of the real SamplerFactory + dynsampler-go instances; there is no separate model to conform, so traces_validated_against_impl = transitions")
	r.Assume("canonical state = (peer count, rules version, goals in force of the samplers in use, factory bookkeeping rendered by the hook: peerCount, goalThroughputConfigs, registry keys); two histories with the same key differ only in stopped instances no event can reach")
	r.Assume("each definition lives in its own environment; two definitions inside ONE environment that differ only in UseClusterSize share one instance (that is the C12 finding, reported there) and are not re-reported here")
	r.Assume("'reload' = what InMemCollector.reloadConfigs does (ClearDynsamplers, workers drop their samplers); samplers created before the last reload/clear are stopped and no longer in use, so nothing is demanded of them")
	r.Assume("sequential histories only; the schedule-level variant (updatePeerCounts racing createSampler) is not covered by this check")
	r.Finish()
}
