// Package seqx is engine E1: explicit-state breadth-first search over event histories executed on
// the real object. A state is the history reaching it; a successor is a fresh object + replay + one
// more event. Canonical state keys deduplicate (a scenario returning "" never merges).
package seqx

import (
	"fmt"
	"os"
	"runtime"
	"sync"

	"verif/engine/ev"
)

// safeExec turns a panic of the code under test (the harness's own assertion failures go through ev.Harness, which
// exits) into a failure of the history that provoked it: on the unchanged tree no explored history panics, so a panic
// is something a change introduced, and every property presupposes that the component keeps running.
func safeExec[E any](exec func([]E) (string, string, *Failure), h []E) (canon, outcome string, fail *Failure) {
	defer func() {
		if p := recover(); p != nil {
			site, stack := ev.PanicSite()
			fail = &Failure{Sig: "panic-in-code-under-test:" + site, What: fmt.Sprintf("the history makes the code under test panic: %v\n%s", p, stack)}
		}
	}()
	return exec(h)
}

func memLimitGB() int {
	n := 24
	if s := os.Getenv("VERIF_MEM_GB"); s != "" {
		fmt.Sscan(s, &n)
	}
	return n
}

func heapOver() (bool, float64) {
	var m runtime.MemStats
	runtime.ReadMemStats(&m)
	gb := float64(m.HeapAlloc) / (1 << 30)
	return gb > float64(memLimitGB()), gb
}

type Failure struct {
	Sig  string // known-findings key: identifies the failing call site / input class
	What string
}

type Scenario[E any] struct {
	Name string
	// Enabled returns the finite menu of events after history h, simplest first.
	Enabled func(h []E) []E
	// Exec builds fresh real object(s) + reference model, replays h checking the oracle at every
	// step, and returns the canonical state key, an outcome label and a failure (nil = ok).
	Exec      func(h []E) (canon string, outcome string, fail *Failure)
	MaxDepth  int
	Workers   int
	MaxStates int // 0 = unlimited; hitting it marks the run non-exhaustive
	// Expand, if set, may veto expanding a state (e.g. terminal states).
	Expand func(h []E) bool
	// NoMergeDepth: states reached by histories of at most this length are never merged, i.e. EVERY history of
	// length <= NoMergeDepth+1 is executed. The canonical key is an abstraction that is argued sound for the
	// code as it is (merged states have the same futures); an implementation that carries extra hidden state
	// (a stale memo, a remembered time stamp) could differ between two histories the key merges. Short histories
	// therefore do not depend on the abstraction at all.
	NoMergeDepth int
}

type Stats struct {
	States, Transitions, DepthCompleted, Outcomes int
}

type job[E any] struct {
	h       []E
	canon   string
	outcome string
	fail    *Failure
}

// Explore runs the BFS and accumulates counts into r (keys states/transitions/... are added, so
// several scenarios may share one run).
func Explore[E any](r *ev.Run, sc Scenario[E]) Stats {
	if sc.Workers <= 0 {
		sc.Workers = 1
	}
	var st Stats
	seen := map[string]struct{}{}
	frontier := [][]E{{}}
	// root
	c, o, f := sc.Exec(nil)
	if f != nil {
		r.Violation(f.Sig, sc.Name+": "+f.What, map[string]any{"scenario": sc.Name, "history": []E{}})
		return st
	}
	if c != "" {
		seen[c] = struct{}{}
	}
	st.States = 1
	r.Distinct("distinct_outcomes", sc.Name+"|"+o)
	stop := false
	for depth := 1; depth <= sc.MaxDepth && len(frontier) > 0 && !stop; depth++ {
		// memory guard: a search that outgrows the machine is cut (reported as capped), never killed by the kernel
		if over, heapGB := heapOver(); over {
			r.Cap(fmt.Sprintf("%s: heap %.0f GB before depth %d (limit %d GB, VERIF_MEM_GB)", sc.Name, heapGB, depth, memLimitGB()))
			break
		}
		// generate children
		var jobs []*job[E]
		for _, h := range frontier {
			if sc.Expand != nil && !sc.Expand(h) {
				continue
			}
			for _, e := range sc.Enabled(h) {
				nh := make([]E, len(h)+1)
				copy(nh, h)
				nh[len(h)] = e
				jobs = append(jobs, &job[E]{h: nh})
			}
		}
		// execute in parallel
		var wg sync.WaitGroup
		ch := make(chan *job[E], 256)
		expired := false
		var emu sync.Mutex
		for w := 0; w < sc.Workers; w++ {
			wg.Add(1)
			go func() {
				defer wg.Done()
				for j := range ch {
					emu.Lock()
					ex := expired
					emu.Unlock()
					if ex {
						j.canon = "\x00skipped"
						continue
					}
					j.canon, j.outcome, j.fail = safeExec(sc.Exec, j.h)
				}
			}()
		}
		for i, j := range jobs {
			if i%4096 == 0 {
				if over, heapGB := heapOver(); over {
					r.Cap(fmt.Sprintf("%s: heap %.0f GB during depth %d (limit %d GB, VERIF_MEM_GB)", sc.Name, heapGB, depth, memLimitGB()))
					emu.Lock()
					expired = true
					emu.Unlock()
				}
			}
			if i%64 == 0 && r.Expired(fmt.Sprintf("%s depth %d", sc.Name, depth)) {
				emu.Lock()
				expired = true
				emu.Unlock()
			}
			ch <- j
		}
		close(ch)
		wg.Wait()
		var next [][]E
		complete := true
		for _, j := range jobs {
			if j.canon == "\x00skipped" {
				complete = false
				continue
			}
			st.Transitions++
			if j.fail != nil {
				if r.Violation(j.fail.Sig, sc.Name+": "+j.fail.What, map[string]any{"scenario": sc.Name, "history": j.h}) {
					// a new violation: keep exploring siblings but do not expand below it
				}
				continue
			}
			r.Distinct("distinct_outcomes", sc.Name+"|"+j.outcome)
			if j.canon != "" {
				if _, ok := seen[j.canon]; ok && depth > sc.NoMergeDepth {
					continue
				}
				seen[j.canon] = struct{}{}
			}
			st.States++
			if st.States <= 3 || (st.States%997 == 0) {
				r.Sample(map[string]any{"scenario": sc.Name, "history": j.h, "outcome": j.outcome})
			}
			next = append(next, j.h)
			if sc.MaxStates > 0 && st.States >= sc.MaxStates {
				r.Cap(fmt.Sprintf("%s max_states %d at depth %d", sc.Name, sc.MaxStates, depth))
				stop = true
				complete = false
				break
			}
		}
		if complete {
			st.DepthCompleted = depth
		} else {
			stop = true
		}
		frontier = next
	}
	if len(frontier) == 0 && st.DepthCompleted < sc.MaxDepth && !stop {
		st.DepthCompleted = sc.MaxDepth // state space closed before the bound
		r.Set("closed_"+sc.Name, true)
	}
	r.Add("states", int64(st.States))
	r.Add("transitions", int64(st.Transitions))
	r.Set("depth_completed_"+sc.Name, st.DepthCompleted)
	r.Set("depth_bound_"+sc.Name, sc.MaxDepth)
	if sc.NoMergeDepth > 0 {
		r.Set("every_history_executed_up_to_length_"+sc.Name, min(sc.NoMergeDepth+1, st.DepthCompleted))
	}
	return st
}
