package main

import (
	"fmt"
	"go/ast"
	"go/importer"
	"go/token"
	"go/types"
	"io"
	"os"
	"os/exec"
	"strings"

	"golang.org/x/tools/go/ast/astutil"
)

// typeCheck type-checks one package (the given parsed files) against the export data of its
// dependencies taken from the build cache (`go list -export -deps`). Only used to classify
// `for … range x` operands as channels; on failure the caller falls back to "no channel ranges".
func typeCheck(repo, pkgDir string, fset *token.FileSet, files []*ast.File) (*types.Info, error) {
	cmd := exec.Command("go", "list", "-export", "-deps", "-f", "{{.ImportPath}}={{.Export}}", "./"+strings.TrimPrefix(strings.TrimPrefix(pkgDir, repo), "/"))
	cmd.Dir = repo
	cmd.Stderr = os.Stderr
	out, err := cmd.Output()
	if err != nil {
		return nil, fmt.Errorf("go list -export: %v", err)
	}
	exports := map[string]string{}
	for _, l := range strings.Split(string(out), "\n") {
		if k, v, ok := strings.Cut(l, "="); ok && v != "" {
			exports[k] = v
		}
	}
	conf := types.Config{Importer: importer.ForCompiler(fset, "gc", importerLookup(exports)), Error: func(error) {}}
	info := &types.Info{Types: map[ast.Expr]types.TypeAndValue{}, Uses: map[*ast.Ident]types.Object{}}
	_, err = conf.Check(pkgDir, fset, files, info)
	return info, err
}

func importerLookup(exports map[string]string) importer.Lookup {
	return func(path string) (io.ReadCloser, error) {
		p, ok := exports[path]
		if !ok {
			return nil, fmt.Errorf("no export data for %s", path)
		}
		return os.Open(p)
	}
}

func vcall(fn string, args ...ast.Expr) *ast.CallExpr {
	return &ast.CallExpr{Fun: &ast.SelectorExpr{X: ast.NewIdent("vchan"), Sel: ast.NewIdent(fn)}, Args: args}
}

// rewriteChans turns channel operations into vchan calls. Returns the number of rewritten sites.
func rewriteChans(fset *token.FileSet, f *ast.File, info *types.Info) (int, error) {
	n := 0
	var failure error
	protected := map[ast.Node]bool{}
	isChan := func(e ast.Expr) bool {
		if info == nil {
			return false
		}
		tv, ok := info.Types[e]
		if !ok || tv.Type == nil {
			return false
		}
		_, ok = tv.Type.Underlying().(*types.Chan)
		return ok
	}
	isBuiltinClose := func(id *ast.Ident) bool {
		if id.Name != "close" {
			return false
		}
		if info != nil {
			if o, ok := info.Uses[id]; ok {
				_, b := o.(*types.Builtin)
				return b
			}
		}
		return true
	}
	pre := func(c *astutil.Cursor) bool {
		if s, ok := c.Node().(*ast.SelectStmt); ok {
			for _, cl := range s.Body.List {
				cc := cl.(*ast.CommClause)
				switch cm := cc.Comm.(type) {
				case *ast.SendStmt:
					protected[cm] = true
				case *ast.ExprStmt:
					protected[cm.X] = true
				case *ast.AssignStmt:
					protected[cm.Rhs[0]] = true
				}
			}
		}
		return true
	}
	post := func(c *astutil.Cursor) bool {
		switch x := c.Node().(type) {
		case *ast.SendStmt:
			if protected[x] {
				return true
			}
			n++
			c.Replace(&ast.ExprStmt{X: vcall("Send", x.Chan, x.Value)})
		case *ast.UnaryExpr:
			if x.Op != token.ARROW || protected[x] {
				return true
			}
			n++
			fn := "Recv"
			switch p := c.Parent().(type) {
			case *ast.AssignStmt:
				if len(p.Lhs) == 2 && len(p.Rhs) == 1 {
					fn = "Recv2"
				}
			case *ast.ValueSpec:
				if len(p.Names) == 2 && len(p.Values) == 1 {
					fn = "Recv2"
				}
			}
			c.Replace(vcall(fn, x.X))
		case *ast.CallExpr:
			if id, ok := x.Fun.(*ast.Ident); ok && len(x.Args) == 1 && isBuiltinClose(id) {
				n++
				x.Fun = &ast.SelectorExpr{X: ast.NewIdent("vchan"), Sel: ast.NewIdent("Close")}
			}
		case *ast.RangeStmt:
			if !isChan(x.X) {
				return true
			}
			n++
			okName := ast.NewIdent(fmt.Sprintf("_vrok%d", n))
			var lhs ast.Expr = ast.NewIdent("_")
			tok := token.DEFINE
			if x.Key != nil {
				lhs = x.Key
				if x.Tok == token.ASSIGN {
					// `for v = range ch`: ok must be declared separately
					tok = token.ASSIGN
				}
			}
			var head []ast.Stmt
			if tok == token.ASSIGN {
				head = append(head, &ast.DeclStmt{Decl: &ast.GenDecl{Tok: token.VAR, Specs: []ast.Spec{&ast.ValueSpec{Names: []*ast.Ident{okName}, Type: ast.NewIdent("bool")}}}})
			}
			head = append(head,
				&ast.AssignStmt{Lhs: []ast.Expr{lhs, okName}, Tok: tok, Rhs: []ast.Expr{vcall("Recv2", x.X)}},
				&ast.IfStmt{Cond: &ast.UnaryExpr{Op: token.NOT, X: okName}, Body: &ast.BlockStmt{List: []ast.Stmt{&ast.BranchStmt{Tok: token.BREAK}}}})
			body := &ast.BlockStmt{List: append(head, x.Body.List...)}
			c.Replace(&ast.ForStmt{Body: body})
		case *ast.SelectStmt:
			if _, lab := c.Parent().(*ast.LabeledStmt); lab {
				failure = fmt.Errorf("%s: labeled select is not supported by the channel rewriter", fset.Position(x.Pos()))
				return false
			}
			n++
			id := n
			var decls []ast.Stmt
			var cases []ast.Expr
			var clauses []ast.Stmt
			hasDefault := "false"
			k := 0
			for _, cl := range x.Body.List {
				cc := cl.(*ast.CommClause)
				if cc.Comm == nil {
					hasDefault = "true"
					clauses = append(clauses, &ast.CaseClause{List: nil, Body: cc.Body})
					continue
				}
				idx := &ast.BasicLit{Kind: token.INT, Value: fmt.Sprint(k)}
				chv := ast.NewIdent(fmt.Sprintf("_vc%d_%d", id, k))
				var bodyHead []ast.Stmt
				switch cm := cc.Comm.(type) {
				case *ast.SendStmt:
					decls = append(decls, &ast.AssignStmt{Lhs: []ast.Expr{chv}, Tok: token.DEFINE, Rhs: []ast.Expr{cm.Chan}})
					cases = append(cases, vcall("SendCase", chv, cm.Value))
				case *ast.ExprStmt:
					u := cm.X.(*ast.UnaryExpr)
					decls = append(decls, &ast.AssignStmt{Lhs: []ast.Expr{chv}, Tok: token.DEFINE, Rhs: []ast.Expr{u.X}})
					cases = append(cases, vcall("RecvCase", chv, ast.NewIdent("nil"), ast.NewIdent("nil")))
				case *ast.AssignStmt:
					u := cm.Rhs[0].(*ast.UnaryExpr)
					decls = append(decls, &ast.AssignStmt{Lhs: []ast.Expr{chv}, Tok: token.DEFINE, Rhs: []ast.Expr{u.X}})
					vv := ast.NewIdent(fmt.Sprintf("_vv%d_%d", id, k))
					decls = append(decls, &ast.AssignStmt{Lhs: []ast.Expr{vv}, Tok: token.DEFINE, Rhs: []ast.Expr{vcall("Zero", chv)}})
					var okArg ast.Expr = ast.NewIdent("nil")
					rhs := []ast.Expr{vv}
					if len(cm.Lhs) == 2 {
						vo := ast.NewIdent(fmt.Sprintf("_vo%d_%d", id, k))
						decls = append(decls, &ast.DeclStmt{Decl: &ast.GenDecl{Tok: token.VAR, Specs: []ast.Spec{&ast.ValueSpec{Names: []*ast.Ident{vo}, Type: ast.NewIdent("bool")}}}})
						okArg = &ast.UnaryExpr{Op: token.AND, X: vo}
						rhs = append(rhs, vo)
					}
					cases = append(cases, vcall("RecvCase", chv, &ast.UnaryExpr{Op: token.AND, X: vv}, okArg))
					bodyHead = append(bodyHead, &ast.AssignStmt{Lhs: cm.Lhs, Tok: cm.Tok, Rhs: rhs})
					// silence "declared and not used" for names the original body may not use… the original
					// compiled, so every := name is used; nothing to add.
				default:
					failure = fmt.Errorf("%s: unexpected select comm %T", fset.Position(cc.Pos()), cm)
					return false
				}
				clauses = append(clauses, &ast.CaseClause{List: []ast.Expr{idx}, Body: append(bodyHead, cc.Body...)})
				k++
			}
			args := append([]ast.Expr{ast.NewIdent(hasDefault)}, cases...)
			sw := &ast.SwitchStmt{Tag: vcall("Select", args...), Body: &ast.BlockStmt{List: clauses}}
			c.Replace(&ast.BlockStmt{List: append(decls, sw)})
		}
		return true
	}
	astutil.Apply(f, pre, post)
	if failure != nil {
		return n, failure
	}
	if n > 0 {
		astutil.AddImport(fset, f, "verif/shim/vchan")
		// synthesized nodes carry no positions, so ordinary comments would be re-attached at arbitrary
		// places by the printer: keep only compiler directives (//go:embed, //go:build, …)
		var keep []*ast.CommentGroup
		for _, g := range f.Comments {
			dir := false
			for _, c := range g.List {
				if strings.HasPrefix(c.Text, "//go:") || strings.HasPrefix(c.Text, "// +build") || strings.HasPrefix(c.Text, "//line ") {
					dir = true
				}
			}
			if dir {
				keep = append(keep, g)
			}
		}
		f.Comments = keep
	}
	return n, nil
}
