// Command overlay builds a `go build -overlay` JSON from the current /repo tree:
//   - every file under /verif/hooks/<pkgdir>/ is added to /repo/<pkgdir>/ (in-package accessors)
//   - for each -rewrite <pkgdir>[=imports] the non-test .go files of that package are rewritten:
//     selected imports are redirected to the verif shims and `go` statements become vsched.Go.
//   - -replace src=dst replaces /repo/src by file dst (mutants, candidate fixes)
//
// /repo is never modified.
package main

import (
	"bytes"
	"encoding/json"
	"flag"
	"fmt"
	"go/ast"
	"go/parser"
	"go/printer"
	"go/token"
	"os"
	"path/filepath"
	"sort"
	"strconv"
	"strings"
)

type multi []string

func (m *multi) String() string     { return strings.Join(*m, ",") }
func (m *multi) Set(s string) error { *m = append(*m, s); return nil }

var shims = map[string][2]string{
	"sync":        {"verif/shim/vsync", "sync"},
	"sync/atomic": {"verif/shim/vatomic", "atomic"},
	"time":        {"verif/shim/vtime", "time"},
	"math/rand":   {"verif/shim/vrand", "rand"},
}

func main() {
	var rewrites, replaces multi
	repo := flag.String("repo", "/repo", "repository root")
	hooks := flag.String("hooks", "/verif/hooks", "hooks root")
	out := flag.String("out", "", "output dir (overlay.json + rewritten files)")
	gostmts := flag.Bool("go", true, "rewrite go statements in rewritten packages")
	flag.Var(&rewrites, "rewrite", "pkgdir[=import,import] (default imports: sync,sync/atomic)")
	flag.Var(&replaces, "replace", "relpath=file")
	flag.Parse()
	if *out == "" {
		fmt.Fprintln(os.Stderr, "need -out")
		os.Exit(2)
	}
	os.MkdirAll(*out, 0o755)
	repl := map[string]string{}
	// hooks
	filepath.Walk(*hooks, func(p string, info os.FileInfo, err error) error {
		if err != nil || info.IsDir() || !strings.HasSuffix(p, ".go") {
			return nil
		}
		rel, _ := filepath.Rel(*hooks, p)
		repl[filepath.Join(*repo, rel)] = p
		return nil
	})
	report := map[string]any{}
	// explicit replacements (mutants, candidate fixes): applied first so that import rewriting
	// below operates on the replacement's source, not on the original file
	for _, r := range replaces {
		rel, f, ok := strings.Cut(r, "=")
		if !ok {
			fmt.Fprintln(os.Stderr, "bad -replace", r)
			os.Exit(2)
		}
		if !filepath.IsAbs(rel) {
			rel = filepath.Join(*repo, rel)
		}
		repl[rel] = f
	}
	for _, rw := range rewrites {
		pkg, imps, _ := strings.Cut(rw, "=")
		_ = imps
		want := map[string]bool{"sync": true, "sync/atomic": true}
		if imps != "" {
			want = map[string]bool{}
			for _, i := range strings.Split(imps, ",") {
				want[i] = true
			}
		}
		dir := pkg
		if !filepath.IsAbs(dir) {
			dir = filepath.Join(*repo, pkg)
		}
		ents, err := os.ReadDir(dir)
		if err != nil {
			fmt.Fprintf(os.Stderr, "overlay: %v\n", err)
			os.Exit(2)
		}
		var names []string
		for _, e := range ents {
			if !e.IsDir() {
				names = append(names, e.Name())
			}
		}
		// files added to this package by hooks / replacements are rewritten as well
		for k := range repl {
			if filepath.Dir(k) == dir {
				if _, err := os.Stat(k); err != nil {
					names = append(names, filepath.Base(k))
				}
			}
		}
		sort.Strings(names)
		for _, n := range names {
			if !strings.HasSuffix(n, ".go") || strings.HasSuffix(n, "_test.go") {
				continue
			}
			src := filepath.Join(dir, n)
			from := src
			if r, ok := repl[src]; ok {
				from = r // mutant / candidate fix replaces this file: rewrite the replacement
			}
			b, changed, stats, err := rewriteFile(from, want, *gostmts)
			if err != nil {
				fmt.Fprintf(os.Stderr, "overlay: %s: %v\n", src, err)
				os.Exit(2)
			}
			if !changed {
				continue
			}
			dst := filepath.Join(*out, strings.ReplaceAll(strings.TrimPrefix(src, "/"), "/", "__"))
			if err := os.WriteFile(dst, b, 0o644); err != nil {
				fmt.Fprintln(os.Stderr, err)
				os.Exit(2)
			}
			repl[src] = dst
			report[src] = stats
		}
	}
	b, _ := json.MarshalIndent(map[string]any{"Replace": repl}, "", " ")
	os.WriteFile(filepath.Join(*out, "overlay.json"), b, 0o644)
	rb, _ := json.MarshalIndent(report, "", " ")
	os.WriteFile(filepath.Join(*out, "overlay_report.json"), rb, 0o644)
	keys := make([]string, 0, len(repl))
	for k := range repl {
		keys = append(keys, k)
	}
	sort.Strings(keys)
	fmt.Printf("overlay: %d files (%d rewritten)\n", len(repl), len(report))
}

func rewriteFile(path string, want map[string]bool, gostmts bool) ([]byte, bool, map[string]int, error) {
	fset := token.NewFileSet()
	f, err := parser.ParseFile(fset, path, nil, parser.ParseComments)
	if err != nil {
		return nil, false, nil, err
	}
	stats := map[string]int{}
	changed := false
	for _, im := range f.Imports {
		p, _ := strconv.Unquote(im.Path.Value)
		if sh, ok := shims[p]; ok && want[p] {
			name := sh[1]
			if im.Name != nil {
				name = im.Name.Name
			}
			im.Path.Value = strconv.Quote(sh[0])
			im.Name = ast.NewIdent(name)
			stats["import:"+p]++
			changed = true
		}
	}
	if gostmts {
		n := 0
		var walk func(list []ast.Stmt)
		rewriteGo := func(g *ast.GoStmt) ast.Stmt {
			n++
			pos := fset.Position(g.Pos())
			label := fmt.Sprintf("%s:%d", filepath.Base(pos.Filename), pos.Line)
			call := g.Call
			var pre []ast.Stmt
			// evaluate function value and arguments now, as `go` does
			if _, isLit := call.Fun.(*ast.FuncLit); !(isLit && len(call.Args) == 0) {
				var lhs []ast.Expr
				var rhs []ast.Expr
				fn := ast.NewIdent(fmt.Sprintf("_vgf%d", n))
				lhs = append(lhs, fn)
				rhs = append(rhs, call.Fun)
				var args []ast.Expr
				for i, a := range call.Args {
					id := ast.NewIdent(fmt.Sprintf("_vga%d_%d", n, i))
					lhs = append(lhs, id)
					rhs = append(rhs, a)
					args = append(args, id)
				}
				pre = append(pre, &ast.AssignStmt{Lhs: lhs, Tok: token.DEFINE, Rhs: rhs})
				call = &ast.CallExpr{Fun: fn, Args: args, Ellipsis: call.Ellipsis}
			}
			body := &ast.FuncLit{Type: &ast.FuncType{Params: &ast.FieldList{}}, Body: &ast.BlockStmt{List: []ast.Stmt{&ast.ExprStmt{X: call}}}}
			spawn := &ast.ExprStmt{X: &ast.CallExpr{
				Fun:  &ast.SelectorExpr{X: ast.NewIdent("vsched"), Sel: ast.NewIdent("GoStmt")},
				Args: []ast.Expr{&ast.BasicLit{Kind: token.STRING, Value: strconv.Quote(label)}, body},
			}}
			return &ast.BlockStmt{List: append(pre, spawn)}
		}
		ast.Inspect(f, func(nd ast.Node) bool {
			switch b := nd.(type) {
			case *ast.BlockStmt:
				for i, s := range b.List {
					if g, ok := s.(*ast.GoStmt); ok {
						b.List[i] = rewriteGo(g)
					}
				}
			case *ast.CaseClause:
				for i, s := range b.Body {
					if g, ok := s.(*ast.GoStmt); ok {
						b.Body[i] = rewriteGo(g)
					}
				}
			case *ast.CommClause:
				for i, s := range b.Body {
					if g, ok := s.(*ast.GoStmt); ok {
						b.Body[i] = rewriteGo(g)
					}
				}
			case *ast.LabeledStmt:
				if g, ok := b.Stmt.(*ast.GoStmt); ok {
					b.Stmt = rewriteGo(g)
				}
			}
			return true
		})
		_ = walk
		if n > 0 {
			stats["go"] = n
			changed = true
			// add import
			spec := &ast.ImportSpec{Path: &ast.BasicLit{Kind: token.STRING, Value: strconv.Quote("verif/engine/vsched")}}
			added := false
			for _, d := range f.Decls {
				if gd, ok := d.(*ast.GenDecl); ok && gd.Tok == token.IMPORT {
					gd.Specs = append(gd.Specs, spec)
					if !gd.Lparen.IsValid() {
						gd.Lparen = gd.Pos()
						gd.Rparen = gd.End()
					}
					added = true
					break
				}
			}
			if !added {
				f.Decls = append([]ast.Decl{&ast.GenDecl{Tok: token.IMPORT, Specs: []ast.Spec{spec}}}, f.Decls...)
			}
		}
	}
	if !changed {
		return nil, false, nil, nil
	}
	var buf bytes.Buffer
	if err := (&printer.Config{Mode: printer.UseSpaces | printer.TabIndent, Tabwidth: 8}).Fprint(&buf, fset, f); err != nil {
		return nil, false, nil, err
	}
	return buf.Bytes(), true, stats, nil
}
