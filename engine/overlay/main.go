// Command overlay builds a `go build -overlay` JSON from the current /repo tree:
//   - every file under /verif/hooks/<pkgdir>/ is added to /repo/<pkgdir>/ (in-package accessors)
//   - for each -rewrite <pkgdir>[=imports] the non-test .go files of that package are rewritten:
//     selected imports are redirected to the verif shims and `go` statements become vsched.Go.
//   - -replace src=dst replaces /repo/src by file dst (mutants, candidate fixes)
//
// /repo is never modified.
package main

import (
	"bytes"
	"encoding/json"
	"flag"
	"fmt"
	"go/ast"
	"go/build"
	"go/parser"
	"go/printer"
	"go/token"
	"go/types"
	"os"
	"path/filepath"
	"sort"
	"strconv"
	"strings"
)

type multi []string

func (m *multi) String() string     { return strings.Join(*m, ",") }
func (m *multi) Set(s string) error { *m = append(*m, s); return nil }

var shims = map[string][2]string{
	"sync":        {"verif/shim/vsync", "sync"},
	"sync/atomic": {"verif/shim/vatomic", "atomic"},
	"time":        {"verif/shim/vtime", "time"},
	"math/rand":   {"verif/shim/vrand", "rand"},
}

func main() {
	var rewrites, replaces, extracts, poolFields multi
	repo := flag.String("repo", "/repo", "repository root")
	hooks := flag.String("hooks", "/verif/hooks", "hooks root")
	out := flag.String("out", "", "output dir (overlay.json + rewritten files)")
	gostmts := flag.Bool("go", true, "rewrite go statements in rewritten packages")
	flag.Var(&rewrites, "rewrite", "pkgdir[=import,import] (default imports: sync,sync/atomic)")
	flag.Var(&replaces, "replace", "relpath=file")
	flag.Var(&poolFields, "pool", "pkgdir:field — in that package, x.<field>.Go(f) / x.<field>.Wait() become vsched.PoolGo / vsched.PoolWait")
	flag.Var(&extracts, "extract", "relfile:Func:caseIndex:NewName:prelude-source — copy the body of the caseIndex-th clause of the first for/select loop of Func into a new function NewName (same receiver) preceded by the given prelude statements")
	flag.Parse()
	if *out == "" {
		fmt.Fprintln(os.Stderr, "need -out")
		os.Exit(2)
	}
	os.MkdirAll(*out, 0o755)
	repl := map[string]string{}
	// hooks
	filepath.Walk(*hooks, func(p string, info os.FileInfo, err error) error {
		if err != nil || info.IsDir() || !strings.HasSuffix(p, ".go") {
			return nil
		}
		rel, _ := filepath.Rel(*hooks, p)
		repl[filepath.Join(*repo, rel)] = p
		return nil
	})
	report := map[string]any{}
	// explicit replacements (mutants, candidate fixes): applied first so that import rewriting
	// below operates on the replacement's source, not on the original file
	for _, r := range replaces {
		rel, f, ok := strings.Cut(r, "=")
		if !ok {
			fmt.Fprintln(os.Stderr, "bad -replace", r)
			os.Exit(2)
		}
		if !filepath.IsAbs(rel) {
			rel = filepath.Join(*repo, rel)
		}
		repl[rel] = f
	}
	for _, rw := range rewrites {
		pkg, imps, _ := strings.Cut(rw, "=")
		_ = imps
		want := map[string]bool{"sync": true, "sync/atomic": true}
		if imps != "" {
			want = map[string]bool{}
			for _, i := range strings.Split(imps, ",") {
				want[i] = true
			}
		}
		dir := pkg
		if !filepath.IsAbs(dir) {
			dir = filepath.Join(*repo, pkg)
		}
		ents, err := os.ReadDir(dir)
		if err != nil {
			fmt.Fprintf(os.Stderr, "overlay: %v\n", err)
			os.Exit(2)
		}
		var names []string
		for _, e := range ents {
			if !e.IsDir() {
				names = append(names, e.Name())
			}
		}
		// files added to this package by hooks / replacements are rewritten as well
		for k := range repl {
			if filepath.Dir(k) == dir {
				if _, err := os.Stat(k); err != nil {
					names = append(names, filepath.Base(k))
				}
			}
		}
		sort.Strings(names)
		fset := token.NewFileSet()
		type pf struct {
			src string
			f   *ast.File
		}
		var parsed []pf
		var astFiles []*ast.File
		for _, n := range names {
			if !strings.HasSuffix(n, ".go") || strings.HasSuffix(n, "_test.go") {
				continue
			}
			src := filepath.Join(dir, n)
			from := src
			if r, ok := repl[src]; ok {
				from = r // mutant / candidate fix / hook replaces or adds this file: rewrite the replacement
			}
			f, err := parser.ParseFile(fset, from, nil, parser.ParseComments)
			if err != nil {
				fmt.Fprintf(os.Stderr, "overlay: %s: %v\n", from, err)
				os.Exit(2)
			}
			if !buildOK(from) {
				continue
			}
			parsed = append(parsed, pf{src, f})
			astFiles = append(astFiles, f)
		}
		var info *types.Info
		if want["chan"] {
			var err error
			info, err = typeCheck(*repo, dir, fset, astFiles)
			if err != nil {
				// incomplete type information only weakens range-over-channel detection; say so
				fmt.Fprintf(os.Stderr, "overlay: type check of %s incomplete: %v\n", pkg, err)
			}
		}
		for _, p := range parsed {
			src := p.src
			var ex []string
			for _, x := range extracts {
				f0, rest, _ := strings.Cut(x, ":")
				if filepath.Join(*repo, f0) == src {
					ex = append(ex, rest)
				}
			}
			var pf []string
			for _, x := range poolFields {
				pd, fld, _ := strings.Cut(x, ":")
				if pd == pkg {
					pf = append(pf, fld)
				}
			}
			b, changed, stats, err := rewriteFile(fset, p.f, want, *gostmts, ex, info, pf)
			if err != nil {
				fmt.Fprintf(os.Stderr, "overlay: %s: %v\n", src, err)
				os.Exit(2)
			}
			if !changed {
				continue
			}
			dst := filepath.Join(*out, strings.ReplaceAll(strings.TrimPrefix(src, "/"), "/", "__"))
			if err := os.WriteFile(dst, b, 0o644); err != nil {
				fmt.Fprintln(os.Stderr, err)
				os.Exit(2)
			}
			repl[src] = dst
			report[src] = stats
		}
	}
	b, _ := json.MarshalIndent(map[string]any{"Replace": repl}, "", " ")
	os.WriteFile(filepath.Join(*out, "overlay.json"), b, 0o644)
	rb, _ := json.MarshalIndent(report, "", " ")
	os.WriteFile(filepath.Join(*out, "overlay_report.json"), rb, 0o644)
	keys := make([]string, 0, len(repl))
	for k := range repl {
		keys = append(keys, k)
	}
	sort.Strings(keys)
	fmt.Printf("overlay: %d files (%d rewritten)\n", len(repl), len(report))
}

// buildOK applies the file's build constraints for the host platform (files excluded by a
// //go:build line or a _GOOS/_GOARCH suffix are left alone).
func buildOK(path string) bool {
	ok, err := build.Default.MatchFile(filepath.Dir(path), filepath.Base(path))
	return err != nil || ok
}

func rewriteFile(fset *token.FileSet, f *ast.File, want map[string]bool, gostmts bool, extracts []string, info *types.Info, poolFields []string) ([]byte, bool, map[string]int, error) {
	stats := map[string]int{}
	changed := false
	poolN := 0
	if len(poolFields) > 0 {
		ast.Inspect(f, func(n ast.Node) bool {
			call, ok := n.(*ast.CallExpr)
			if !ok {
				return true
			}
			sel, ok := call.Fun.(*ast.SelectorExpr)
			if !ok || (sel.Sel.Name != "Go" && sel.Sel.Name != "Wait") {
				return true
			}
			recv, ok := sel.X.(*ast.SelectorExpr)
			if !ok {
				return true
			}
			for _, fld := range poolFields {
				if recv.Sel.Name == fld {
					name := "PoolGo"
					if sel.Sel.Name == "Wait" {
						name = "PoolWait"
					}
					call.Args = append([]ast.Expr{recv}, call.Args...)
					call.Fun = &ast.SelectorExpr{X: ast.NewIdent("vsched"), Sel: ast.NewIdent(name)}
					poolN++
				}
			}
			return true
		})
		if poolN > 0 {
			stats["pool"] = poolN
			changed = true
		}
	}
	var extraSrc []string
	for _, x := range extracts {
		src, err := extractCase(fset, f, x)
		if err != nil {
			return nil, false, nil, fmt.Errorf("extract %q: %v", x, err)
		}
		extraSrc = append(extraSrc, src)
		stats["extract"]++
		changed = true
	}
	for _, im := range f.Imports {
		p, _ := strconv.Unquote(im.Path.Value)
		if sh, ok := shims[p]; ok && want[p] {
			name := sh[1]
			if im.Name != nil {
				name = im.Name.Name
			}
			im.Path.Value = strconv.Quote(sh[0])
			im.Name = ast.NewIdent(name)
			stats["import:"+p]++
			changed = true
		}
	}
	if gostmts {
		n := 0
		var walk func(list []ast.Stmt)
		rewriteGo := func(g *ast.GoStmt) ast.Stmt {
			n++
			pos := fset.Position(g.Pos())
			label := fmt.Sprintf("%s:%d", filepath.Base(pos.Filename), pos.Line)
			call := g.Call
			var pre []ast.Stmt
			// evaluate function value and arguments now, as `go` does
			if _, isLit := call.Fun.(*ast.FuncLit); !(isLit && len(call.Args) == 0) {
				var lhs []ast.Expr
				var rhs []ast.Expr
				fn := ast.NewIdent(fmt.Sprintf("_vgf%d", n))
				lhs = append(lhs, fn)
				rhs = append(rhs, call.Fun)
				var args []ast.Expr
				for i, a := range call.Args {
					id := ast.NewIdent(fmt.Sprintf("_vga%d_%d", n, i))
					lhs = append(lhs, id)
					rhs = append(rhs, a)
					args = append(args, id)
				}
				pre = append(pre, &ast.AssignStmt{Lhs: lhs, Tok: token.DEFINE, Rhs: rhs})
				call = &ast.CallExpr{Fun: fn, Args: args, Ellipsis: call.Ellipsis}
			}
			body := &ast.FuncLit{Type: &ast.FuncType{Params: &ast.FieldList{}}, Body: &ast.BlockStmt{List: []ast.Stmt{&ast.ExprStmt{X: call}}}}
			spawn := &ast.ExprStmt{X: &ast.CallExpr{
				Fun:  &ast.SelectorExpr{X: ast.NewIdent("vsched"), Sel: ast.NewIdent("GoStmt")},
				Args: []ast.Expr{&ast.BasicLit{Kind: token.STRING, Value: strconv.Quote(label)}, body},
			}}
			return &ast.BlockStmt{List: append(pre, spawn)}
		}
		ast.Inspect(f, func(nd ast.Node) bool {
			switch b := nd.(type) {
			case *ast.BlockStmt:
				for i, s := range b.List {
					if g, ok := s.(*ast.GoStmt); ok {
						b.List[i] = rewriteGo(g)
					}
				}
			case *ast.CaseClause:
				for i, s := range b.Body {
					if g, ok := s.(*ast.GoStmt); ok {
						b.Body[i] = rewriteGo(g)
					}
				}
			case *ast.CommClause:
				for i, s := range b.Body {
					if g, ok := s.(*ast.GoStmt); ok {
						b.Body[i] = rewriteGo(g)
					}
				}
			case *ast.LabeledStmt:
				if g, ok := b.Stmt.(*ast.GoStmt); ok {
					b.Stmt = rewriteGo(g)
				}
			}
			return true
		})
		_ = walk
		if n > 0 {
			stats["go"] = n
			changed = true
		}
		if n > 0 || poolN > 0 {
			// add import
			spec := &ast.ImportSpec{Path: &ast.BasicLit{Kind: token.STRING, Value: strconv.Quote("verif/engine/vsched")}}
			added := false
			for _, d := range f.Decls {
				if gd, ok := d.(*ast.GenDecl); ok && gd.Tok == token.IMPORT {
					gd.Specs = append(gd.Specs, spec)
					if !gd.Lparen.IsValid() {
						gd.Lparen = gd.Pos()
						gd.Rparen = gd.End()
					}
					added = true
					break
				}
			}
			if !added {
				f.Decls = append([]ast.Decl{&ast.GenDecl{Tok: token.IMPORT, Specs: []ast.Spec{spec}}}, f.Decls...)
			}
		}
	}
	if want["chan"] {
		n, err := rewriteChans(fset, f, info)
		if err != nil {
			return nil, false, nil, err
		}
		if n > 0 {
			stats["chan"] = n
			changed = true
		}
	}
	if !changed {
		return nil, false, nil, nil
	}
	var buf bytes.Buffer
	if err := (&printer.Config{Mode: printer.UseSpaces | printer.TabIndent, Tabwidth: 8}).Fprint(&buf, fset, f); err != nil {
		return nil, false, nil, err
	}
	for _, x := range extraSrc {
		buf.WriteString("\n\n" + x + "\n")
	}
	return buf.Bytes(), true, stats, nil
}

// extractCase builds, as source text, a new function holding the body of one select clause of the
// first `for { select {…} }` loop of a function — the loop's case body made callable, always generated
// from the current source so it cannot drift from it. spec = Func:caseIndex:NewName:prelude.
// Unlabelled continue/break that target the loop/select become return.
func extractCase(fset *token.FileSet, f *ast.File, spec string) (string, error) {
	parts := strings.SplitN(spec, ":", 4)
	if len(parts) < 3 {
		return "", fmt.Errorf("bad spec")
	}
	fn, newName, prelude := parts[0], parts[2], ""
	idx, err := strconv.Atoi(parts[1])
	if err != nil {
		return "", err
	}
	if len(parts) == 4 {
		prelude = parts[3]
	}
	for _, d := range f.Decls {
		fd, ok := d.(*ast.FuncDecl)
		if !ok || fd.Name.Name != fn || fd.Body == nil {
			continue
		}
		var sel *ast.SelectStmt
		ast.Inspect(fd.Body, func(n ast.Node) bool {
			if sel != nil {
				return false
			}
			if fs, ok := n.(*ast.ForStmt); ok {
				for _, st := range fs.Body.List {
					if s2, ok := st.(*ast.SelectStmt); ok {
						sel = s2
						return false
					}
				}
			}
			return true
		})
		if sel == nil {
			return "", fmt.Errorf("no for/select loop in %s", fn)
		}
		if idx >= len(sel.Body.List) {
			return "", fmt.Errorf("case index out of range")
		}
		cc := sel.Body.List[idx].(*ast.CommClause)
		// rewrite loop-level continue/break into return (not inside nested for/switch/select/func)
		var fix func(list []ast.Stmt)
		var fixStmt func(st ast.Stmt) ast.Stmt
		fixStmt = func(st ast.Stmt) ast.Stmt {
			switch x := st.(type) {
			case *ast.BranchStmt:
				if x.Label == nil && (x.Tok == token.CONTINUE || x.Tok == token.BREAK) {
					return &ast.ReturnStmt{}
				}
			case *ast.BlockStmt:
				fix(x.List)
			case *ast.IfStmt:
				fix(x.Body.List)
				if x.Else != nil {
					x.Else = fixStmt(x.Else)
				}
			case *ast.LabeledStmt:
				x.Stmt = fixStmt(x.Stmt)
			}
			return st
		}
		fix = func(list []ast.Stmt) {
			for i := range list {
				list[i] = fixStmt(list[i])
			}
		}
		body := append([]ast.Stmt{}, cc.Body...)
		fix(body)
		var buf bytes.Buffer
		recv := ""
		if fd.Recv != nil && len(fd.Recv.List) == 1 {
			var rb bytes.Buffer
			printer.Fprint(&rb, fset, fd.Recv.List[0].Type)
			name := "_"
			if len(fd.Recv.List[0].Names) == 1 {
				name = fd.Recv.List[0].Names[0].Name
			}
			recv = "(" + name + " " + rb.String() + ") "
		}
		fmt.Fprintf(&buf, "// %s is generated by the verif overlay from the body of select clause %d of %s.\nfunc %s%s() {\n", newName, idx, fn, recv, newName)
		if prelude == "@decls" {
			// copy the value-less `var` declarations that precede the loop in the function body (the
			// loop's scratch variables), so the extraction follows edits that add one
			prelude = ""
			for _, st := range fd.Body.List {
				if _, isFor := st.(*ast.ForStmt); isFor {
					break
				}
				ds, ok := st.(*ast.DeclStmt)
				if !ok {
					continue
				}
				gd, ok := ds.Decl.(*ast.GenDecl)
				if !ok || gd.Tok != token.VAR {
					continue
				}
				plain := true
				for _, sp := range gd.Specs {
					if vs, ok := sp.(*ast.ValueSpec); !ok || len(vs.Values) > 0 {
						plain = false
					}
				}
				if !plain {
					continue
				}
				var db bytes.Buffer
				if err := printer.Fprint(&db, fset, st); err != nil {
					return "", err
				}
				buf.WriteString("\t" + db.String() + "\n")
				for _, sp := range gd.Specs {
					for _, n := range sp.(*ast.ValueSpec).Names {
						buf.WriteString("\t_ = " + n.Name + "\n")
					}
				}
			}
		}
		if prelude != "" {
			buf.WriteString("\t" + prelude + "\n")
		}
		for _, st := range body {
			var sb bytes.Buffer
			if err := printer.Fprint(&sb, fset, st); err != nil {
				return "", err
			}
			buf.WriteString("\t" + sb.String() + "\n")
		}
		buf.WriteString("}\n")
		return buf.String(), nil
	}
	return "", fmt.Errorf("function %s not found", fn)
}
