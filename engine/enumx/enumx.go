// Package enumx is engine E2: bounded-exhaustive enumeration of a cartesian product of small typed
// domains, in a fixed simplest-first order, sharded over worker goroutines.
package enumx

import (
	"sync"
	"sync/atomic"

	"verif/engine/ev"
)

// Each calls fn for every index vector of the product of dims (last dimension fastest).
// fn must be safe for concurrent use when workers > 1. Returns the number of cases evaluated.
// Stops early (marking the run non-exhaustive) when the run's internal deadline passes.
func Each(r *ev.Run, name string, dims []int, workers int, fn func(idx []int)) int64 {
	total := int64(1)
	for _, d := range dims {
		total *= int64(d)
	}
	if total == 0 {
		return 0
	}
	if workers <= 0 {
		workers = 1
	}
	const chunk = 256
	var next int64
	var done int64
	var wg sync.WaitGroup
	var stop atomic.Bool
	for w := 0; w < workers; w++ {
		wg.Add(1)
		go func() {
			defer wg.Done()
			idx := make([]int, len(dims))
			for !stop.Load() {
				lo := atomic.AddInt64(&next, chunk) - chunk
				if lo >= total {
					return
				}
				hi := lo + chunk
				if hi > total {
					hi = total
				}
				if r.Expired(name) {
					stop.Store(true)
					return
				}
				for i := lo; i < hi; i++ {
					x := i
					for d := len(dims) - 1; d >= 0; d-- {
						idx[d] = int(x % int64(dims[d]))
						x /= int64(dims[d])
					}
					fn(idx)
				}
				atomic.AddInt64(&done, hi-lo)
			}
		}()
	}
	wg.Wait()
	r.Add("evaluations", done)
	return done
}

// Perms returns all permutations of 0..n-1 in lexicographic order.
func Perms(n int) [][]int {
	var out [][]int
	p := make([]int, n)
	used := make([]bool, n)
	var rec func(k int)
	rec = func(k int) {
		if k == n {
			out = append(out, append([]int{}, p...))
			return
		}
		for i := 0; i < n; i++ {
			if !used[i] {
				used[i] = true
				p[k] = i
				rec(k + 1)
				used[i] = false
			}
		}
	}
	rec(0)
	return out
}

// Subsets returns all subsets of 0..n-1 as index slices, by increasing bitmask.
func Subsets(n int) [][]int {
	var out [][]int
	for m := 0; m < 1<<n; m++ {
		var s []int
		for i := 0; i < n; i++ {
			if m&(1<<i) != 0 {
				s = append(s, i)
			}
		}
		out = append(out, s)
	}
	return out
}
