package ev

import (
	"bytes"
	"encoding/json"
	"fmt"
	"os"
	"os/exec"
	"path/filepath"
	"strconv"
	"strings"
	"sync"
)

type partial struct {
	Counters   map[string]int64    `json:"counters"`
	Distinct   map[string][]string `json:"distinct"`
	Samples    []any               `json:"samples"`
	Caps       []string            `json:"caps"`
	Exhaustive bool                `json:"exhaustive"`
	Violations []pviol             `json:"violations"`
	Cov        map[string]any      `json:"cov"`
}
type pviol struct {
	Sig, What string
	Replay    any
}

// ShardInfo returns (i, n, true) when this process is a shard worker.
func ShardInfo() (int, int, bool) {
	s := os.Getenv("VERIF_SHARD")
	if s == "" {
		return 0, 1, false
	}
	a, b, _ := strings.Cut(s, "/")
	i, _ := strconv.Atoi(a)
	n, _ := strconv.Atoi(b)
	return i, n, true
}

// Sharded runs work(i, n) in n worker subprocesses of this same binary (each GOMAXPROCS=1 unless
// procs>0 says otherwise) and merges their counters, distinct sets, samples, caps and violations
// into r. In a worker process it runs work for its shard, writes the partial result and exits.
// The cooperative scheduler needs GOMAXPROCS=1, so process-level sharding is how E3 uses 16 cores.
func (r *Run) Sharded(n int, work func(i, n int)) {
	if i, nn, ok := ShardInfo(); ok {
		r.shardViol = []pviol{}
		work(i, nn)
		stopProf()
		r.writePartial(i)
		os.Exit(0)
	}
	workDir := os.Getenv("VERIF_WORK")
	if workDir == "" {
		workDir = filepath.Join(Root, ".work", strings.ToLower(r.ID))
	}
	os.MkdirAll(workDir, 0o755)
	var wg sync.WaitGroup
	errs := make([]string, n)
	for i := 0; i < n; i++ {
		wg.Add(1)
		go func(i int) {
			defer wg.Done()
			os.Remove(filepath.Join(workDir, fmt.Sprintf("shard_%d.json", i)))
			cmd := exec.Command(os.Args[0], os.Args[1:]...)
			cmd.Env = append(os.Environ(), fmt.Sprintf("VERIF_SHARD=%d/%d", i, n), "VERIF_WORK="+workDir,
				fmt.Sprintf("VERIF_DEADLINE_UNIX=%d", r.deadline.Unix()))
			if os.Getenv("GOMAXPROCS") == "" {
				cmd.Env = append(cmd.Env, "GOMAXPROCS=1")
			}
			var out bytes.Buffer
			cmd.Stdout, cmd.Stderr = &out, &out
			if err := cmd.Run(); err != nil {
				o := out.String()
				if len(o) > 6000 {
					o = o[:3000] + "\n…\n" + o[len(o)-3000:]
				}
				errs[i] = fmt.Sprintf("shard %d: %v\n%s", i, err, o)
			}
		}(i)
	}
	wg.Wait()
	for _, e := range errs {
		if e != "" {
			Harness("worker failed: %s", e)
		}
	}
	for i := 0; i < n; i++ {
		b, err := os.ReadFile(filepath.Join(workDir, fmt.Sprintf("shard_%d.json", i)))
		if err != nil {
			Harness("shard %d wrote no result: %v", i, err)
		}
		var p partial
		if err := json.Unmarshal(b, &p); err != nil {
			Harness("shard %d result unparsable: %v", i, err)
		}
		for k, v := range p.Counters {
			r.Add(k, v)
		}
		for k, vs := range p.Distinct {
			for _, v := range vs {
				r.Distinct(k, v)
			}
		}
		for _, s := range p.Samples {
			if i < 4 {
				r.Sample(s)
			}
		}
		for _, c := range p.Caps {
			r.Cap(c)
		}
		for k, v := range p.Cov {
			r.Set(k, v)
		}
		for _, v := range p.Violations {
			r.Violation(v.Sig, v.What, v.Replay)
		}
	}
}

func (r *Run) writePartial(i int) {
	r.mu.Lock()
	defer r.mu.Unlock()
	p := partial{Counters: r.counters, Distinct: map[string][]string{}, Samples: r.samples, Caps: r.capsHit, Exhaustive: r.exhaustive, Violations: r.shardViol, Cov: r.cov}
	if len(p.Samples) > 3 {
		p.Samples = p.Samples[:3]
	}
	for k, m := range r.distinct {
		for v := range m {
			p.Distinct[k] = append(p.Distinct[k], v)
		}
	}
	b, _ := json.Marshal(p)
	if err := os.WriteFile(filepath.Join(os.Getenv("VERIF_WORK"), fmt.Sprintf("shard_%d.json", i)), b, 0o644); err != nil {
		fmt.Println("cannot write partial:", err)
		os.Exit(3)
	}
}
