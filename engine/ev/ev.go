// Package ev is the evidence / violation / known-findings plumbing shared by every check.
package ev

import (
	"crypto/sha1"
	"encoding/hex"
	"encoding/json"
	"fmt"
	"os"
	"path/filepath"
	"runtime"
	"runtime/pprof"
	"sort"
	"strconv"
	"strings"
	"sync"
	"time"
)

var stopProf = func() {}

// Root is /verif (overridable for tests).
var Root = func() string {
	if r := os.Getenv("VERIF_ROOT"); r != "" {
		return r
	}
	return "/verif"
}()

// outRoot is where evidence and replays go: /verif normally, the scratch dir when a mutant overlay is
// active (so demonstrations never overwrite the committed evidence of the real tree).
func outRoot() string {
	if os.Getenv("VERIF_MUTANT") != "" && os.Getenv("VERIF_WORK") != "" {
		return os.Getenv("VERIF_WORK")
	}
	return Root
}

type finding struct {
	Property string `json:"property"`
	Key      string `json:"key"`
	What     string `json:"what"`
	Status   string `json:"status"` // "known" | "fixed"
	Commit   string `json:"commit,omitempty"`
}

type Run struct {
	ID       string
	Level    string
	Tier     string
	Seed     int64
	start    time.Time
	deadline time.Time

	mu          sync.Mutex
	cov         map[string]any
	samples     []any
	assumptions []string
	violations  map[string]string // sig -> replay path
	knownHit    map[string]bool
	known       []finding
	counters    map[string]int64
	distinct    map[string]map[string]struct{}
	exhaustive  bool
	capsHit     []string
	shardViol   []pviol // non-nil in a shard worker: violations are forwarded to the parent
}

// New starts a run. level ∈ exploration|fault_enumeration|model_checking.
func New(id, level string) *Run {
	r := &Run{ID: id, Level: level, Tier: "quick", start: time.Now(), cov: map[string]any{},
		violations: map[string]string{}, knownHit: map[string]bool{}, counters: map[string]int64{},
		distinct: map[string]map[string]struct{}{}, exhaustive: true}
	current = r
	if t := os.Getenv("VERIF_TIER"); t == "thorough" || t == "quick" {
		r.Tier = t
	}
	for _, a := range os.Args[1:] {
		if a == "quick" || a == "thorough" {
			r.Tier = a
		}
	}
	if s := os.Getenv("VERIF_SEED"); s != "" {
		r.Seed, _ = strconv.ParseInt(s, 10, 64)
	}
	// internal deadline: stop enumerating (exit 0, exhaustive:false) rather than be killed.
	budget := 8 * time.Minute
	if r.Tier == "thorough" {
		budget = 40 * time.Minute
	}
	if s := os.Getenv("VERIF_BUDGET_S"); s != "" {
		if n, err := strconv.Atoi(s); err == nil {
			budget = time.Duration(n) * time.Second
		}
	}
	r.deadline = r.start.Add(budget)
	if p := os.Getenv("VERIF_CPUPROF"); p != "" {
		if f, err := os.Create(fmt.Sprintf("%s.%d", p, os.Getpid())); err == nil {
			pprof.StartCPUProfile(f)
			stopProf = pprof.StopCPUProfile
		}
	}
	if s := os.Getenv("VERIF_DEADLINE_UNIX"); s != "" {
		if n, err := strconv.ParseInt(s, 10, 64); err == nil {
			r.deadline = time.Unix(n, 0)
		}
	}
	b, err := os.ReadFile(filepath.Join(Root, "known_findings.json"))
	if err == nil {
		var all []finding
		if err := json.Unmarshal(b, &all); err != nil {
			Harness("known_findings.json unparsable: %v", err)
		}
		for _, f := range all {
			if f.Property == id && f.Status == "known" {
				r.known = append(r.known, f)
			}
		}
	}
	return r
}

func (r *Run) Thorough() bool { return r.Tier == "thorough" }

// Pick returns q in quick tier, t in thorough.
func Pick[T any](r *Run, q, t T) T {
	if r.Thorough() {
		return t
	}
	return q
}

// Expired reports whether the internal deadline passed; the caller must stop enumerating and the
// run is marked non-exhaustive with the given cap description.
func (r *Run) Expired(what string) bool {
	if time.Now().Before(r.deadline) {
		return false
	}
	r.Cap("deadline:" + what)
	return true
}

func (r *Run) Cap(what string) {
	r.mu.Lock()
	defer r.mu.Unlock()
	r.exhaustive = false
	for _, c := range r.capsHit {
		if c == what {
			return
		}
	}
	r.capsHit = append(r.capsHit, what)
}

func (r *Run) Set(k string, v any) { r.mu.Lock(); r.cov[k] = v; r.mu.Unlock() }
func (r *Run) Add(k string, n int64) {
	r.mu.Lock()
	r.counters[k] += n
	r.mu.Unlock()
}
func (r *Run) Count(k string) int64 { r.mu.Lock(); defer r.mu.Unlock(); return r.counters[k] }

// Distinct records that `val` was seen in class `k`; the number of distinct values is reported as cov[k].
func (r *Run) Distinct(k, val string) {
	r.mu.Lock()
	m := r.distinct[k]
	if m == nil {
		m = map[string]struct{}{}
		r.distinct[k] = m
	}
	if len(m) < 5_000_000 {
		m[val] = struct{}{}
	}
	r.mu.Unlock()
}
func (r *Run) NDistinct(k string) int { r.mu.Lock(); defer r.mu.Unlock(); return len(r.distinct[k]) }

func (r *Run) Sample(v any) {
	r.mu.Lock()
	if len(r.samples) < 12 {
		r.samples = append(r.samples, v)
	}
	r.mu.Unlock()
}
func (r *Run) Assume(s string) { r.mu.Lock(); r.assumptions = append(r.assumptions, s); r.mu.Unlock() }

// Violation reports a failing case. sig identifies the failing input / call site / history class
// (it is what known_findings.json keys on); replay is any JSON-able description sufficient to re-run it.
// Returns true if it was a new (unlisted) violation.
func (r *Run) Violation(sig, what string, replay any) bool {
	r.mu.Lock()
	defer r.mu.Unlock()
	if r.shardViol != nil {
		for _, v := range r.shardViol {
			if v.Sig == sig {
				return true // one representative per signature is forwarded to the parent
			}
		}
		if len(r.shardViol) < 200 {
			r.shardViol = append(r.shardViol, pviol{sig, what, replay})
		}
		return true
	}
	for _, f := range r.known {
		// a key ending in '*' lists a family of signatures sharing that prefix (same defect, one signature per input class)
		if f.Key == sig || (strings.HasSuffix(f.Key, "*") && strings.HasPrefix(sig, strings.TrimSuffix(f.Key, "*"))) {
			if !r.knownHit[f.Key] {
				r.knownHit[f.Key] = true
				fmt.Printf("KNOWN-FINDING: property=%s %s [%s]\n", r.ID, f.What, sig)
			}
			return false
		}
	}
	if _, seen := r.violations[sig]; seen {
		return true
	}
	h := sha1.Sum([]byte(sig))
	dir := filepath.Join(outRoot(), "replays", r.ID)
	os.MkdirAll(dir, 0o755)
	path := filepath.Join(dir, hex.EncodeToString(h[:6])+".json")
	b, _ := json.MarshalIndent(map[string]any{"property": r.ID, "signature": sig, "what": what, "replay": replay}, "", " ")
	os.WriteFile(path, b, 0o644)
	r.violations[sig] = path
	if len(r.violations) <= 20 {
		fmt.Printf("VIOLATION property=%s replay=%s\n", r.ID, path)
		fmt.Printf("  detail: %s :: %s\n", sig, trunc(what, 600))
	}
	return true
}

func trunc(s string, n int) string {
	if len(s) > n {
		return s[:n] + "…"
	}
	return s
}

func (r *Run) NViolations() int { r.mu.Lock(); defer r.mu.Unlock(); return len(r.violations) }

// Finish writes the evidence file and exits 0/1.
func (r *Run) Finish() {
	r.mu.Lock()
	cov := map[string]any{}
	for k, v := range r.counters {
		cov[k] = v
	}
	for k, v := range r.distinct {
		cov[k] = len(v)
	}
	for k, v := range r.cov {
		cov[k] = v
	}
	if len(r.samples) == 0 {
		r.samples = []any{"(no samples recorded)"}
	}
	cov["samples"] = r.samples
	cov["exhaustive"] = r.exhaustive
	if !r.exhaustive {
		// a bound is only "completed" when nothing was cut short: a capped run reports it as attempted
		for k, v := range cov {
			if strings.HasSuffix(k, "bound_completed") {
				delete(cov, k)
				cov[strings.TrimSuffix(k, "completed")+"attempted_but_capped"] = v
			}
		}
	}
	if len(r.capsHit) > 0 {
		cov["caps_hit"] = r.capsHit
	}
	var kh []string
	for k := range r.knownHit {
		kh = append(kh, k)
	}
	sort.Strings(kh)
	if len(kh) > 0 {
		cov["known_findings_reproduced"] = kh
	}
	// required-key sanity: never emit an evidence file that cannot validate.
	need := []string{"evaluations", "distinct_nontrivial", "rule"}
	if r.Level == "model_checking" {
		need = []string{"states", "transitions", "traces_validated_against_impl"}
	}
	for _, k := range need {
		if _, ok := cov[k]; !ok {
			r.mu.Unlock()
			Harness("evidence key %q not set by check %s", k, r.ID)
		}
	}
	if r.assumptions == nil {
		r.assumptions = []string{}
	}
	out := map[string]any{
		"property_id": r.ID, "tier": r.Tier, "seed": r.Seed, "level": r.Level,
		"coverage": cov, "assumptions": r.assumptions,
		"wall_s":     float64(time.Since(r.start).Milliseconds()) / 1000,
		"violations": len(r.violations),
	}
	nv := len(r.violations)
	r.mu.Unlock()
	b, _ := json.MarshalIndent(out, "", " ")
	os.MkdirAll(filepath.Join(outRoot(), "evidence"), 0o755)
	if err := os.WriteFile(filepath.Join(outRoot(), "evidence", r.ID+".json"), b, 0o644); err != nil {
		Harness("cannot write evidence: %v", err)
	}
	var keys []string
	for k, v := range cov {
		switch v.(type) {
		case int, int64, bool, float64:
			keys = append(keys, fmt.Sprintf("%s=%v", k, v))
		}
	}
	sort.Strings(keys)
	fmt.Printf("%s %s: %s wall=%.1fs violations=%d\n", r.ID, r.Tier, strings.Join(keys, " "), time.Since(r.start).Seconds(), nv)
	if nv > 0 {
		os.Exit(1)
	}
	os.Exit(0)
}

// current is the Run of this process (one per check program).
var current *Run

// Harness aborts with exit 2: the check itself is broken (never a VIOLATION).
// Violations that had been established (and printed) before the harness broke stay reported: the process then exits 1.
// On a tree where the property holds there are none, so this never turns a harness error into an alarm.
func Harness(format string, a ...any) {
	fmt.Printf("HARNESS-ERROR: "+format+"\n", a...)
	if r := current; r != nil && r.shardViol == nil {
		if r.mu.TryLock() {
			n := len(r.violations)
			r.mu.Unlock()
			if n > 0 {
				fmt.Printf("%s %s: stopped by the harness error above after %d violation(s) had been established; those stand\n", r.ID, r.Tier, n)
				os.Exit(1)
			}
		}
	}
	os.Exit(2)
}

// J renders v as compact JSON (for signatures / samples).
func J(v any) string { b, _ := json.Marshal(v); return string(b) }

// PanicSite names the innermost frame of the repository under verification on the current (panicking) goroutine's
// stack and returns a trimmed copy of the stack. For use inside a deferred recover.
func PanicSite() (site string, stack string) {
	buf := make([]byte, 16<<10)
	buf = buf[:runtime.Stack(buf, false)]
	stack = string(buf)
	site = "unknown-site"
	lines := strings.Split(stack, "\n")
	for i := 0; i+1 < len(lines); i++ {
		l := lines[i]
		if strings.HasPrefix(l, "github.com/honeycombio/refinery/") && !strings.Contains(lines[i+1], "/verif/") {
			f := strings.TrimPrefix(l, "github.com/honeycombio/refinery/")
			if k := strings.LastIndex(f, "("); k > 0 {
				f = f[:k]
			}
			site = f
			break
		}
	}
	if len(stack) > 3000 {
		stack = stack[:3000] + "…"
	}
	return
}
