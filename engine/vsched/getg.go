package vsched

// getg returns the address of the running goroutine's g: a cheap goroutine identity, used to tell
// scheduled threads from foreign goroutines (parked daemons of the code under test that wake up).
func getg() uintptr
