package vsched

import "verif/engine/ev"

// Report accumulates explorer statistics into the evidence run.
// states = nodes of the explored schedule tree (one per scheduling point executed beyond a replayed
// prefix, plus one leaf per execution); transitions = its edges.
func (e *Explorer) Report(r *ev.Run) {
	r.Add("executions", int64(e.Stats.Executions))
	r.Add("states", int64(e.Stats.NewPoints+e.Stats.Executions))
	r.Add("transitions", int64(e.Stats.NewPoints))
	r.Add("contended_points", int64(e.Stats.ContendedPoints))
	if e.Stats.Capped {
		r.Cap("schedule exploration capped")
	}
}
