package vsched

import "os"

func osExit(code int) { os.Exit(code) }
