package vsched_test

import (
	"testing"

	"verif/engine/vsched"
	"verif/shim/vatomic"
	"verif/shim/vsync"
)

func TestLostUpdate(t *testing.T) {
	var c *vatomic.Int64
	e := &vsched.Explorer{Bound: 1, Setup: func() {
		c = &vatomic.Int64{}
		for i := 0; i < 2; i++ {
			vsched.Go("inc", func() {
				v := c.Load()
				c.Store(v + 1)
			})
		}
	}, Check: func(x *vsched.Exec) string {
		if c.Load() != 2 {
			return "lost update"
		}
		return ""
	}}
	if e.Explore() {
		t.Fatalf("expected violation; stats %+v", e.Stats)
	}
	t.Logf("found after %d execs: %s choices=%v", e.Stats.Executions, e.Failure, e.FailExec.Choices)
	// bound 0 must pass
	e.Bound = 0
	if !e.Explore() {
		t.Fatalf("bound 0 should pass")
	}
	t.Logf("bound0 stats %+v", e.Stats)
}

func TestMutexOK(t *testing.T) {
	var mu *vsync.Mutex
	n := 0
	e := &vsched.Explorer{Bound: 2, Setup: func() {
		mu = &vsync.Mutex{}
		n = 0
		for i := 0; i < 3; i++ {
			vsched.Go("inc", func() {
				mu.Lock()
				n++
				mu.Unlock()
			})
		}
	}, Check: func(x *vsched.Exec) string {
		if n != 3 {
			return "bad"
		}
		return ""
	}}
	if !e.Explore() {
		t.Fatalf("unexpected: %s", e.Failure)
	}
	t.Logf("stats %+v", e.Stats)
}

func TestDeadlock(t *testing.T) {
	var a, b *vsync.Mutex
	e := &vsched.Explorer{Bound: 1, Setup: func() {
		a, b = &vsync.Mutex{}, &vsync.Mutex{}
		vsched.Go("ab", func() { a.Lock(); b.Lock(); b.Unlock(); a.Unlock() })
		vsched.Go("ba", func() { b.Lock(); a.Lock(); a.Unlock(); b.Unlock() })
	}}
	if e.Explore() {
		t.Fatalf("expected deadlock")
	}
	t.Logf("%s after %d", e.Failure, e.Stats.Executions)
}
