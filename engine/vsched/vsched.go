// Package vsched is engine E3: a cooperative scheduler for real goroutines ("threads") with a
// scheduling point before every shimmed synchronisation operation, and a preemption-bounded
// depth-first explorer over the choice sequences.
//
// Exactly one thread holds the baton. The hand-off is a plain variable polled inside //go:norace
// functions with runtime.Gosched() under GOMAXPROCS=1, which the race detector does not see, so in
// a -race build the detector remains an oracle inside every controlled schedule.
package vsched

import (
	"fmt"
	"runtime"
	"runtime/debug"
	"sync"
	"time"
)

// Paranoid makes every scheduling point verify (via the goroutine id) that the caller really is
// the baton holder; a foreign goroutine (an un-parked daemon) touching a shim is a harness error.
var Paranoid = false

//go:norace
func goid() int64 {
	var buf [64]byte
	n := runtime.Stack(buf[:], false)
	// "goroutine 123 ["
	var id int64
	for _, c := range buf[10:n] {
		if c < '0' || c > '9' {
			break
		}
		id = id*10 + int64(c-'0')
	}
	return id
}

//go:norace
func (s *sched) verify(where string) {
	if !Paranoid {
		return
	}
	t := s.threads[s.baton]
	if g := goid(); t.goid != g {
		buf := make([]byte, 1<<16)
		n := runtime.Stack(buf, false)
		fmt.Printf("HARNESS-ERROR: vsched: goroutine %d reached scheduling point %s but the baton holder is thread %s (goroutine %d): an unscheduled goroutine is touching instrumented code\n%s\n", g, where, t.name, t.goid, buf[:n])
		exit(2)
	}
}

type thread struct {
	service  bool // spawned by a go statement of the code under test (a loop that never ends is not a deadlock)
	g        uintptr
	goid     int64
	id       int
	name     string
	finished bool
	started  bool
	blocked  func() bool // nil = enabled; else enabled iff blocked() returns true ("can proceed")
	fn       func()
}

// PointInfo describes one scheduling point of an execution.
type PointInfo struct {
	Enabled        []int // thread ids in canonical order: running first if enabled, then ascending
	RunningEnabled bool
	Chosen         int // index into Enabled
	Label          string
	Alt            bool // a data choice of the running thread (e.g. which ready select case), not a thread switch
}

// Exec is the record of one complete execution.
type Exec struct {
	Points    []PointInfo
	Choices   []int
	Trace     []string // when KeepTrace: one entry per scheduling point (who was where, who ran next)
	Quiescent bool     // ended with every harness thread finished and all service threads blocked
	Leaked    bool     // some aborted thread did not unwind (blocked for real in a deferred function)
	Deadlock  bool
	Panic     string
	Blocked   []string
}

type sched struct {
	threads   []*thread
	baton     int // id of running thread, -1 = explorer
	prefix    []int
	exec      *Exec
	abort     bool
	active    bool
	maxPts    int
	realWG    sync.WaitGroup
	trace     []string
	keepTrace bool
}

var cur *sched // the active scheduler (nil outside an exploration)

//go:norace
func get() *sched { return cur }

// Active reports whether an exploration is executing (the caller is then the baton holder).
//
//go:norace
func Active() bool {
	s := cur
	return s != nil && s.active && s.baton >= 0 && s.threads[s.baton].g == getg()
}

// Exploring reports whether an execution is in progress (from any goroutine).
//
//go:norace
func Exploring() bool { s := cur; return s != nil && s.active }

// mine reports whether the caller is the baton holder.
//
//go:norace
func (s *sched) mine() bool {
	return s != nil && s.active && s.baton >= 0 && s.threads[s.baton].g == getg()
}

//go:norace
func (s *sched) wait(id int) {
	spins := 0
	for s.baton != id {
		if s.abort {
			runtime.Goexit()
		}
		runtime.Gosched()
		spins++
		if spins&0xfffff == 0 {
			// watchdog: a baton holder stuck in a native blocking operation
			if time.Since(lastProgress) > 60*time.Second {
				stuck()
			}
		}
	}
}

var lastProgress time.Time

func stuck() {
	buf := make([]byte, 1<<20)
	n := runtime.Stack(buf, true)
	fmt.Printf("HARNESS-ERROR: vsched watchdog: no scheduling progress for 60s (thread blocked in a native operation?)\n%s\n", buf[:n])
	exit(2)
}

var exit = func(code int) { osExit(code) }

// enabledList returns the canonical enabled order.
//
//go:norace
func (s *sched) enabledList(running int) ([]int, bool) {
	var out []int
	re := false
	if running >= 0 {
		t := s.threads[running]
		if !t.finished && (t.blocked == nil || t.blocked()) {
			out = append(out, running)
			re = true
		}
	}
	for _, t := range s.threads {
		if t.id == running || t.finished {
			continue
		}
		if t.blocked == nil || t.blocked() {
			out = append(out, t.id)
		}
	}
	return out, re
}

// choose records a scheduling point and hands the baton to the chosen thread.
// Called by the running thread (or by the explorer to start).
//
//go:norace
func (s *sched) choose(running int, label string) int {
	en, re := s.enabledList(running)
	if len(en) == 0 {
		// nobody can run. If threads remain, a foreign goroutine (daemon) may be holding a lock in
		// pass-through mode: give it a chance to finish before calling it a deadlock.
		pending := false
		for _, t := range s.threads {
			if !t.finished {
				pending = true
			}
		}
		for i := 0; pending && i < DaemonSettle && len(en) == 0; i++ {
			runtime.Gosched()
			en, re = s.enabledList(running)
		}
		if len(en) == 0 {
			return -2
		}
	}
	lastProgress = time.Now()
	i := len(s.exec.Points)
	c := 0
	if i < len(s.prefix) {
		c = s.prefix[i]
		if c >= len(en) {
			fmt.Printf("HARNESS-ERROR: vsched replay divergence at point %d (%s): choice %d of %d enabled\n", i, label, c, len(en))
			exit(2)
		}
	}
	if len(en) > 1 || i < len(s.prefix) {
		// only points with a real choice are recorded... (kept simple: record all)
	}
	s.exec.Points = append(s.exec.Points, PointInfo{Enabled: en, RunningEnabled: re, Chosen: c, Label: label})
	s.exec.Choices = append(s.exec.Choices, c)
	if KeepTrace {
		s.exec.Trace = append(s.exec.Trace, fmt.Sprintf("T%d@%s->T%d(%s)", running, label, en[c], s.threads[en[c]].name))
	}
	if s.maxPts > 0 && len(s.exec.Points) > s.maxPts {
		fmt.Printf("HARNESS-ERROR: vsched: execution exceeded %d scheduling points (livelock / unbounded loop?)\n", s.maxPts)
		exit(2)
	}
	return en[c]
}

// ChooseAlt lets the running thread make an explorer-owned choice among n alternatives (which of
// several ready select cases fires, which value an environment returns). Alternative 0 is the
// default; any other costs one unit of the deviation budget, like a preemption.
//
//go:norace
func ChooseAlt(n int, label string) int {
	s := cur
	if !s.mine() || n <= 1 {
		return 0
	}
	i := len(s.exec.Points)
	c := 0
	if i < len(s.prefix) {
		c = s.prefix[i]
		if c >= n {
			fmt.Printf("HARNESS-ERROR: vsched replay divergence at alt point %d (%s): choice %d of %d\n", i, label, c, n)
			exit(2)
		}
	}
	en := make([]int, n)
	for k := range en {
		en[k] = k
	}
	s.exec.Points = append(s.exec.Points, PointInfo{Enabled: en, RunningEnabled: true, Chosen: c, Label: "alt:" + label, Alt: true})
	s.exec.Choices = append(s.exec.Choices, c)
	lastProgress = time.Now()
	return c
}

// Point is a scheduling point before a visible operation of the running thread.
//
//go:norace
func Point(label string) {
	s := cur
	if !s.mine() {
		return
	}
	me := s.baton
	next := s.choose(me, label)
	if next != me {
		s.baton = next
		s.wait(me)
	}
}

// BlockUntil disables the running thread until can() is true. can is evaluated by whichever thread
// is scheduling, inside norace code; it must only read shim model state.
//
//go:norace
func BlockUntil(label string, can func() bool) {
	s := cur
	if !s.mine() {
		return
	}
	if can() {
		return
	}
	me := s.baton
	t := s.threads[me]
	t.blocked = can
	next := s.choose(me, "block:"+label)
	if next == -2 {
		s.deadlock()
		return
	}
	if next != me {
		s.baton = next
		s.wait(me)
	}
	t.blocked = nil
}

// nobodyEnabled classifies the end of an execution: quiescence (only service threads remain) or deadlock.
//
//go:norace
func (s *sched) nobodyEnabled() {
	harnessPending := false
	for _, t := range s.threads {
		if !t.finished && !t.service {
			harnessPending = true
		}
	}
	if harnessPending {
		s.exec.Deadlock = true
		for _, t := range s.threads {
			if !t.finished {
				s.exec.Blocked = append(s.exec.Blocked, t.name)
			}
		}
	} else {
		s.exec.Quiescent = true
		for _, t := range s.threads {
			if !t.finished {
				s.exec.Blocked = append(s.exec.Blocked, t.name)
			}
		}
	}
	s.abort = true
	s.baton = -1
}

//go:norace
func (s *sched) deadlock() {
	s.nobodyEnabled()
	runtime.Goexit()
}

// Settle gives foreign goroutines (daemons woken by a rendezvous of the running thread) the
// processor until can() holds or a generous number of yields has passed. Used before blocking on
// conditions that daemons typically satisfy (WaitGroup joins), so the outcome does not depend on
// how far the daemon happened to get.
//
//go:norace
func Settle(can func() bool) {
	s := cur
	if !s.mine() {
		return
	}
	for i := 0; i < SettleYields && !can(); i++ {
		runtime.Gosched()
	}
}

// Yield is an explicit scheduling point for drivers.
func Yield() { Point("yield") }

// SpawnPolicy decides what a rewritten `go` statement of the code under test becomes, keyed by a
// prefix of its label "file.go:line": "thread" (scheduled), "daemon" (plain goroutine; must stay parked
// while an exploration is active), "forbid" (harness error). Default: daemon when spawned during
// set-up (constructors, Start methods), thread when spawned by a running thread.
var SpawnPolicy = map[string]string{}

// KeepTrace records a human-readable line per scheduling point in Exec.Trace (replay / diagnosis).
var KeepTrace = false

// DaemonSettle is how many processor yields a scheduler with no enabled thread grants to foreign
// goroutines (daemons in pass-through mode that may hold a lock) before concluding deadlock/quiescence.
var DaemonSettle = 5000

// SettleYields bounds Settle (see there). Scenarios without foreign goroutines set it to 0.
var SettleYields = 20000

// OnRunStart hooks run at the start of every execution (shims reset per-execution registries).
var OnRunStart []func()

// GoStmt is what the overlay turns `go f(x)` into.
//
//go:norace
func GoStmt(label string, fn func()) {
	s := cur
	if s == nil {
		go fn()
		return
	}
	mode := ""
	for k, v := range SpawnPolicy {
		if len(label) >= len(k) && label[:len(k)] == k {
			mode = v
		}
	}
	if mode == "" {
		if s.mine() {
			mode = "thread"
		} else {
			mode = "daemon"
		}
	}
	switch mode {
	case "thread":
		goThread(label, fn, true)
	case "daemon":
		go fn()
	default:
		fmt.Printf("HARNESS-ERROR: vsched: go statement %s is forbidden by the spawn policy\n", label)
		exit(2)
	}
}

// --- worker pools -------------------------------------------------------------------------------
// Code under test that hands work to a goroutine pool of a library (sourcegraph/conc) would run that
// work on goroutines the scheduler does not own. The overlay can redirect `x.<pool>.Go(f)` and
// `x.<pool>.Wait()` of a named field to PoolGo / PoolWait: during an exploration the work item becomes a
// scheduled thread (so "the batch is serialised later" is an explorable interleaving) and Wait blocks
// cooperatively until the items spawned through this pool have finished.

type poolLike interface {
	Go(func())
	Wait()
}

type poolState struct {
	pool    any
	pending int
}

var pools []*poolState

//go:norace
func poolOf(p any) *poolState {
	for _, ps := range pools {
		if ps.pool == p {
			return ps
		}
	}
	ps := &poolState{pool: p}
	pools = append(pools, ps)
	return ps
}

//go:norace
func (ps *poolState) idle() bool { return ps.pending == 0 }

//go:norace
func (ps *poolState) add(n int) { ps.pending += n }

// PoolGo is what the overlay turns `x.pool.Go(f)` into.
//
//go:norace
func PoolGo(p poolLike, f func()) {
	s := cur
	if !s.mine() {
		p.Go(f)
		return
	}
	ps := poolOf(p)
	ps.add(1)
	Go("pool-work", func() {
		defer ps.add(-1)
		f()
	})
}

// PoolWait is what the overlay turns `x.pool.Wait()` into.
//
//go:norace
func PoolWait(p poolLike) {
	s := cur
	if s.mine() {
		Point("pool.Wait")
		BlockUntil("pool.Wait", poolOf(p).idle)
	}
	p.Wait()
}

// Go spawns fn as a scheduled thread when an exploration is active (callable from setup code before
// Start, or from a running thread); otherwise it is a plain goroutine.
//
//go:norace
func Go(name string, fn func()) { goThread(name, fn, false) }

//go:norace
func goThread(name string, fn func(), service bool) {
	s := cur
	if s == nil {
		go fn()
		return
	}
	t := &thread{id: len(s.threads), name: name, fn: fn, service: service}
	s.threads = append(s.threads, t)
	s.realWG.Add(1)
	go s.runThread(t)
	if s.mine() {
		Point("spawn:" + name)
	}
}

//go:norace
func (s *sched) runThread(t *thread) {
	defer s.realWG.Done()
	t.g = getg()
	s.wait(t.id)
	t.started = true
	defer s.threadExit(t)
	t.fn()
}

//go:norace
func (s *sched) threadExit(t *thread) {
	if r := recover(); r != nil {
		s.exec.Panic = fmt.Sprintf("thread %s: %v\n%s", t.name, r, debug.Stack())
		s.abort = true
		t.finished = true
		s.baton = -1
		return
	}
	if s.abort {
		return
	}
	t.finished = true
	next := s.choose(-1, "exit:"+t.name)
	if next == -2 {
		// nobody enabled: all finished, quiescent service threads, or deadlock
		all := true
		for _, o := range s.threads {
			if !o.finished {
				all = false
			}
		}
		if !all {
			s.nobodyEnabled()
		}
		s.baton = -1
		return
	}
	s.baton = next
}

// Run executes one schedule. setup creates fresh objects and registers threads with Go; the threads
// then run under the scheduler following prefix and choice 0 afterwards.
//
//go:norace
func Run(prefix []int, setup func()) *Exec {
	s := &sched{baton: -1, prefix: prefix, exec: &Exec{}, maxPts: 200000}
	cur = s
	pools = pools[:0]
	for _, h := range OnRunStart {
		h()
	}
	setup() // threads registered; s.active false → shims pass through
	s.active = true
	lastProgress = time.Now()
	first := s.choose(-1, "start")
	if first >= 0 {
		s.baton = first
		// the explorer waits for the baton to come back
		spins := 0
		for s.baton != -1 {
			runtime.Gosched()
			spins++
			if spins&0xfffff == 0 && time.Since(lastProgress) > 60*time.Second {
				stuck()
			}
		}
	}
	s.active = false
	s.abort = s.abort || s.exec.Deadlock
	if s.abort {
		// release parked threads: they Goexit in wait()
		s.abort = true
	}
	// real happens-before edge for post-run oracle reads. Aborted threads unwind through the deferred
	// functions of the code under test, which can block for real (a lock left held by another aborted
	// thread): such goroutines are abandoned after a grace period instead of hanging the explorer.
	joined := make(chan struct{})
	go func() { s.realWG.Wait(); close(joined) }()
	select {
	case <-joined:
	case <-time.After(5 * time.Second):
		s.exec.Leaked = true
	}
	cur = nil
	return s.exec
}

// Stats of an exploration.
type Stats struct {
	Executions      int
	MaxPoints       int
	ContendedPoints int // points with >1 enabled thread, summed over executions
	BoundCompleted  int
	Capped          bool
	NewPoints       int // scheduling points executed beyond the replayed prefix = edges of the explored schedule tree
}

// Explorer is the iterative context-bounding DFS.
type Explorer struct {
	// AllDeviationsCost makes every departure from the canonical choice (index 0: keep running the
	// current thread, else the lowest thread id) cost one unit of Bound — also the otherwise free
	// switches when the running thread blocks or exits. With many service threads the free switches
	// alone are too many to enumerate; this bounds deviations from one canonical schedule instead.
	AllDeviationsCost bool
	Bound             int // max preemptions (deviations)
	MaxExecs          int // 0 = unlimited
	Setup             func()
	// Check is called after every complete execution (oracle). Return non-empty string = violation.
	Check func(x *Exec) string
	// Stop is polled; returning true ends the exploration early (capped).
	Stop  func() bool
	Stats Stats
	// First violation found
	Failure  string
	FailExec *Exec
}

//go:norace
func (e *Explorer) preemptionsBefore(x *Exec, i int) int {
	n := 0
	for k := 0; k < i; k++ {
		p := x.Points[k]
		if (p.RunningEnabled || e.AllDeviationsCost) && p.Chosen != 0 { // a preemption, or a non-default alternative
			n++
		}
	}
	return n
}

// Explore runs the DFS with the given bound; returns false if a violation was found.
func (e *Explorer) Explore() bool {
	e.Stats = Stats{}
	ok := e.explore(nil)
	if ok && !e.Stats.Capped {
		e.Stats.BoundCompleted = e.Bound
	}
	return ok
}

func (e *Explorer) explore(prefix []int) bool {
	if e.Stats.Capped {
		return true
	}
	if (e.MaxExecs > 0 && e.Stats.Executions >= e.MaxExecs) || (e.Stop != nil && e.Stop()) {
		e.Stats.Capped = true
		return true
	}
	x := Run(prefix, e.Setup)
	e.Stats.Executions++
	if len(x.Points) > e.Stats.MaxPoints {
		e.Stats.MaxPoints = len(x.Points)
	}
	for i := len(prefix); i < len(x.Points); i++ {
		if len(x.Points[i].Enabled) > 1 {
			e.Stats.ContendedPoints++
		}
	}
	e.Stats.NewPoints += len(x.Points) - len(prefix)
	msg := ""
	if x.Panic != "" {
		msg = "panic: " + x.Panic
	} else if x.Deadlock {
		msg = fmt.Sprintf("deadlock: blocked threads %v", x.Blocked)
	} else if e.Check != nil {
		msg = e.Check(x)
	}
	if msg != "" {
		e.Failure = msg
		e.FailExec = x
		return false
	}
	for i := len(prefix); i < len(x.Points); i++ {
		p := x.Points[i]
		if len(p.Enabled) < 2 {
			continue
		}
		cost := e.preemptionsBefore(x, i)
		if p.RunningEnabled || e.AllDeviationsCost {
			cost++
		}
		if cost > e.Bound {
			continue
		}
		for alt := 1; alt < len(p.Enabled); alt++ {
			np := append(append([]int{}, x.Choices[:i]...), alt)
			if !e.explore(np) {
				return false
			}
		}
	}
	return true
}
